import sys, warnings
warnings.filterwarnings("ignore")
from rdflib import Dataset, URIRef, BNode, Literal, RDF, XSD
from rdflib.graph import DATASET_DEFAULT_GRAPH_ID
EX = "http://example.org/"
def U(x): return URIRef(EX + x)
def quads(ds):
    out = set()
    for g in ds.graphs():
        name = None if g.identifier == DATASET_DEFAULT_GRAPH_ID else g.identifier
        for t in g:
            out.add(t + (name,))
    return out
def fail(msg):
    print("FAIL: " + msg); sys.exit(1)

a, b = BNode("a"), BNode("b")
ds = Dataset()
g = ds.graph(U("g"))
g.add((U("s"), U("p"), a)); g.add((a, RDF.first, Literal(1))); g.add((a, RDF.rest, b))
g.add((b, RDF.first, Literal(0))); g.add((b, RDF.first, Literal(5))); g.add((b, RDF.rest, RDF.nil))  # two rdf:first values, the first one falsy
data = ds.serialize(format="json-ld")
d2 = Dataset().parse(data=data, format="json-ld")
firsts = sorted(int(o) for s, p, o, c in quads(d2) if p == RDF.first)
if firsts != [0, 1, 5] or len(quads(d2)) != 6:
    fail("cell with rdf:first 0 and rdf:first 5 is folded into @list and the value 0 is lost; rdf:first values read back: %r" % firsts)
print("PASS")
