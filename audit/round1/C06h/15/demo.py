import sys, warnings
warnings.filterwarnings("ignore")
from rdflib import Dataset, URIRef, BNode, Literal, RDF, XSD
from rdflib.graph import DATASET_DEFAULT_GRAPH_ID
EX = "http://example.org/"
def U(x): return URIRef(EX + x)
def quads(ds):
    out = set()
    for g in ds.graphs():
        name = None if g.identifier == DATASET_DEFAULT_GRAPH_ID else g.identifier
        for t in g:
            out.add(t + (name,))
    return out
def fail(msg):
    print("FAIL: " + msg); sys.exit(1)

ds = Dataset()
ds.bind("a.b", EX)       # a legal PN_PREFIX
ds.graph(U("g")).add((U("s"), U("p"), U("o")))
data = ds.serialize(format="trig")
try:
    d2 = Dataset().parse(data=data, format="trig")
except Exception as e:
    fail("TriG written with the bound prefix 'a.b' does not read back: %s" % type(e).__name__)
if quads(d2) != quads(ds):
    fail("quads differ")
print("PASS")
