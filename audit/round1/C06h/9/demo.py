import sys, warnings
warnings.filterwarnings("ignore")
from rdflib import Dataset, URIRef, BNode, Literal, RDF, XSD
from rdflib.graph import DATASET_DEFAULT_GRAPH_ID
EX = "http://example.org/"
def U(x): return URIRef(EX + x)
def quads(ds):
    out = set()
    for g in ds.graphs():
        name = None if g.identifier == DATASET_DEFAULT_GRAPH_ID else g.identifier
        for t in g:
            out.add(t + (name,))
    return out
def fail(msg):
    print("FAIL: " + msg); sys.exit(1)

import logging; logging.disable(logging.CRITICAL)
bad = []
# (a) ill-typed literal, any active context
lit = Literal("abc", datatype=XSD.integer)
ds = Dataset(); ds.graph(U("g")).add((U("s"), U("p"), lit))
d2 = Dataset().parse(data=ds.serialize(format="json-ld", auto_compact=True), format="json-ld")
got = [o for s, p, o, c in quads(d2)]
if [o.n3() for o in got] != [lit.n3()]:
    bad.append("%s -> %s" % (lit.n3(), [o.n3() for o in got]))
# (b) xsd:string literal under a context with a default @language
lit = Literal("x", datatype=XSD.string)
ds = Dataset(); ds.graph(U("g")).add((U("s"), U("p"), lit))
d2 = Dataset().parse(data=ds.serialize(format="json-ld", context={"@language": "en"}), format="json-ld")
got = [o for s, p, o, c in quads(d2)]
if any(o.language for o in got) or len(got) != 1:
    bad.append("%s -> %s" % (lit.n3(), [o.n3() for o in got]))
if bad:
    fail("typed literal written as a bare JSON value under an active context: " + "; ".join(bad))
print("PASS")
