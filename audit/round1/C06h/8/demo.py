import sys, warnings
warnings.filterwarnings("ignore")
from rdflib import Dataset, URIRef, BNode, Literal, RDF, XSD
from rdflib.graph import DATASET_DEFAULT_GRAPH_ID
EX = "http://example.org/"
def U(x): return URIRef(EX + x)
def quads(ds):
    out = set()
    for g in ds.graphs():
        name = None if g.identifier == DATASET_DEFAULT_GRAPH_ID else g.identifier
        for t in g:
            out.add(t + (name,))
    return out
def fail(msg):
    print("FAIL: " + msg); sys.exit(1)

ds = Dataset()
ds.graph(U("g")).add((U("s"), RDF.type, Literal("x")))
data = ds.serialize(format="json-ld", auto_compact=True)
d2 = Dataset().parse(data=data, format="json-ld")
got = [o for s, p, o, c in quads(d2)]
if got != [Literal("x")]:
    fail("<s> rdf:type \"x\" written with auto_compact=True as \"@type\": \"x\" reads back as %r" % got)
print("PASS")
