# turtle with base=: predicate that starts with the base IRI is written with an undeclared prefix
import sys, logging
logging.disable(logging.CRITICAL)
from rdflib import Graph, URIRef, Literal

base = "http://e/a/b"
problems = []
for fmt in ("turtle", "longturtle", "n3"):
    g = Graph()  # fresh graph: serialising binds generated prefixes in the graph
    g.add((URIRef("http://x/s"), URIRef("http://e/a/bc"), Literal("v")))
    out = g.serialize(format=fmt, base=base)
    try:
        back = Graph().parse(data=out, format="turtle" if fmt != "n3" else "n3")
        if set(back) != set(g):
            problems.append("%s: read back %s" % (fmt, [t[1].n3() for t in back]))
    except Exception as e:
        problems.append("%s: output does not parse" % fmt)
if problems:
    print("FAIL serialize(base='http://e/a/b') writes predicate <http://e/a/bc> as ns1:bc without declaring ns1: " + "; ".join(problems))
    sys.exit(1)
print("PASS")
