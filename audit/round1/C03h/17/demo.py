# json-ld: a path of a few hundred blank nodes makes the (flat-output) serializer hit the recursion limit
import sys, logging
logging.disable(logging.CRITICAL)
from rdflib import Graph, URIRef, BNode, Literal

P = URIRef("http://e/p")
g = Graph()
nodes = [URIRef("http://e/s")] + [BNode() for _ in range(400)]
for i in range(400):
    g.add((nodes[i], P, nodes[i + 1]))
g.add((nodes[-1], P, Literal("end")))
try:
    out = g.serialize(format="json-ld")
except RecursionError:
    print("FAIL json-ld serializer raises RecursionError on a 400-node blank-node path (401 triples)")
    sys.exit(1)
back = Graph().parse(data=out, format="json-ld")
if len(back) != len(g):
    print("FAIL %d triples back" % len(back))
    sys.exit(1)
print("PASS")
