# RDF/XML: blank node ids are copied verbatim into rdf:nodeID even when they are not NCNames
import sys, logging
logging.disable(logging.CRITICAL)
from rdflib import Graph, URIRef, BNode, Literal
from rdflib.compare import isomorphic

S, P, Q = URIRef("http://e/s"), URIRef("http://e/p"), URIRef("http://e/q")
problems = []
for label in ("1", "0a.1", "-a"):
    g = Graph()
    b = BNode(label)                      # e.g. what the HexTuples parser produces for "_:1"
    g.add((S, P, b)); g.add((S, Q, b)); g.add((b, P, Literal("v")))
    # control: same graph through N-Triples (for "1") / Turtle is fine
    assert isomorphic(g, Graph().parse(data=g.serialize(format="turtle"), format="turtle"))
    for fmt in ("xml", "pretty-xml"):
        out = g.serialize(format=fmt)
        try:
            back = Graph().parse(data=out, format="xml")
            if not isomorphic(g, back):
                problems.append("%s BNode(%r): different graph" % (fmt, label))
        except Exception as e:
            problems.append("%s BNode(%r): %s" % (fmt, label, str(e).split(": ", 1)[-1]))
if problems:
    print("FAIL RDF/XML output with blank node ids that are not NCNames does not read back: " + "; ".join(problems[:3]) + " (%d cases)" % len(problems))
    sys.exit(1)
print("PASS")
