# pretty-xml: rdf:type whose object is not a splittable IRI (literal, blank node, <http://e/1>)
import sys, logging
logging.disable(logging.CRITICAL)
from rdflib import Graph, URIRef, BNode, Literal, RDF
from rdflib.compare import isomorphic

S = URIRef("http://e/s")
cases = {
    "blank-node class (OWL style)": [(S, RDF.type, BNode())],
    "literal object": [(S, RDF.type, Literal("2000"))],
    "IRI without an NCName tail": [(S, RDF.type, URIRef("http://e/1"))],
    "literal that looks like an IRI": [(S, RDF.type, Literal("http://e/C"))],
}
problems = []
for name, triples in cases.items():
    g = Graph()
    for t in triples:
        g.add(t)
    # plain RDF/XML handles all of these, so RDF/XML can express them
    assert isomorphic(g, Graph().parse(data=g.serialize(format="xml"), format="xml"))
    try:
        out = g.serialize(format="pretty-xml")
        back = Graph().parse(data=out, format="xml")
        if not isomorphic(g, back):
            problems.append("%s: read back as %s" % (name, [o.n3() for o in back.objects()]))
    except Exception as e:
        problems.append("%s: serialize raised %r" % (name, e))
if problems:
    print("FAIL pretty-xml cannot round-trip rdf:type with a non-IRI / unsplittable object: " + "; ".join(problems))
    sys.exit(1)
print("PASS")
