# turtle/longturtle/n3: xsd:double written in shorthand with only 7 significant digits
import sys, logging
logging.disable(logging.CRITICAL)
from rdflib import Graph, URIRef, Literal, XSD

S, P = URIRef("http://e/s"), URIRef("http://e/p")
lits = [Literal(0.123456789), Literal("1.2345678901234567", datatype=XSD.double), Literal(3.141592653589793)]
problems = []
for fmt in ("turtle", "longturtle", "n3"):
    for lit in lits:
        g = Graph()
        g.add((S, P, lit))
        back = Graph().parse(data=g.serialize(format=fmt), format="n3" if fmt == "n3" else "turtle")
        o = next(iter(back.objects()))
        if o != lit or o.toPython() != lit.toPython():
            problems.append("%s: %s -> %s" % (fmt, lit.n3(), o.n3()))
if problems:
    print("FAIL xsd:double values lose precision in the Turtle family: " + "; ".join(problems[:4]))
    sys.exit(1)
print("PASS")
