# turtle / longturtle / n3: a path of a few hundred blank nodes makes the serializer hit the recursion limit
import sys, logging
logging.disable(logging.CRITICAL)
from rdflib import Graph, URIRef, BNode, Literal

P = URIRef("http://e/p")
def chain(n):
    g = Graph()
    nodes = [URIRef("http://e/s")] + [BNode() for _ in range(n)]
    for i in range(n):
        g.add((nodes[i], P, nodes[i + 1]))
    g.add((nodes[-1], P, Literal("end")))
    return g

problems = []
for fmt in ("turtle", "longturtle", "n3"):
    g = chain(300)                      # 301 triples
    try:
        out = g.serialize(format=fmt)
    except RecursionError:
        problems.append("%s: RecursionError" % fmt)
        continue
    back = Graph().parse(data=out, format="n3" if fmt == "n3" else "turtle")
    if len(back) != len(g):
        problems.append("%s: %d triples back" % (fmt, len(back)))
assert len(Graph().parse(data=chain(300).serialize(format="nt"), format="nt")) == 301
if problems:
    print("FAIL cannot serialise s -p-> _:b1 -p-> ... -p-> _:b300 (301 triples): " + "; ".join(problems))
    sys.exit(1)
print("PASS")
