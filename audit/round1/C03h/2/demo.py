# pretty-xml: rdf:type object from the RDF syntax vocabulary used as node element name
import sys, logging
logging.disable(logging.CRITICAL)
from rdflib import Graph, URIRef, Literal, RDF

RDFNS = "http://www.w3.org/1999/02/22-rdf-syntax-ns#"
S, P = URIRef("http://e/s"), URIRef("http://e/p")
problems = []
for name in ("Description", "li", "ID", "about"):
    g = Graph()
    g.add((S, RDF.type, URIRef(RDFNS + name)))
    g.add((S, P, Literal("x")))
    # the plain RDF/XML serializer round-trips it
    assert set(Graph().parse(data=g.serialize(format="xml"), format="xml")) == set(g)
    out = g.serialize(format="pretty-xml")
    try:
        back = Graph().parse(data=out, format="xml")
    except Exception as e:
        problems.append("rdf:%s -> output not parseable (%s)" % (name, type(e).__name__))
        continue
    if set(back) != set(g):
        problems.append("rdf:%s -> %d of %d triples read back" % (name, len(back), len(g)))
if problems:
    print("FAIL pretty-xml writes an rdf:type from the RDF syntax namespace as the node element: " + "; ".join(problems))
    sys.exit(1)
print("PASS")
