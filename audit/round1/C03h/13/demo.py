# n3: a nested blank node whose first predicate is owl:sameAs / log:implies is written as [ = x ] / [ => x ]
import sys, logging
logging.disable(logging.CRITICAL)
from rdflib import Graph, URIRef, BNode, Literal, OWL
from rdflib.compare import isomorphic

S, P, O = URIRef("http://e/s"), URIRef("http://e/p"), URIRef("http://e/o")
IMPLIES = URIRef("http://www.w3.org/2000/10/swap/log#implies")
problems = []
for pred in (OWL.sameAs, IMPLIES):
    g = Graph()
    b = BNode()
    g.add((S, P, b))
    g.add((b, pred, O))
    out = g.serialize(format="n3")
    try:
        back = Graph().parse(data=out, format="n3")
    except Exception as e:
        problems.append("%s: output %r does not parse" % (pred.n3(), out.strip().splitlines()[-1]))
        continue
    if not isomorphic(g, back):
        problems.append("%s: output %r read back as %s" % (pred.n3(), out.strip().splitlines()[-1], sorted(tuple(x.n3() for x in t) for t in back)))
if problems:
    print("FAIL " + "; ".join(problems))
    sys.exit(1)
print("PASS")
