# turtle/longturtle/n3: xsd:decimal without a fraction gets ".0" appended
import sys, logging
logging.disable(logging.CRITICAL)
from rdflib import Graph, URIRef, Literal, XSD

S, P = URIRef("http://e/s"), URIRef("http://e/p")
problems = []
for fmt in ("turtle", "longturtle", "n3"):
    for lex in ("1", "-5", "123456789012345678901234567890"):
        lit = Literal(lex, datatype=XSD.decimal)
        g = Graph()
        g.add((S, P, lit))
        back = Graph().parse(data=g.serialize(format=fmt), format="n3" if fmt == "n3" else "turtle")
        o = next(iter(back.objects()))
        if str(o) != str(lit) or o.datatype != lit.datatype or set(back) != set(g):
            problems.append("%s: %s -> %s" % (fmt, lit.n3(), o.n3()))
# control: N-Triples keeps the lexical form
g = Graph(); g.add((S, P, Literal("1", datatype=XSD.decimal)))
assert set(Graph().parse(data=g.serialize(format="nt"), format="nt")) == set(g)
if problems:
    print("FAIL lexical form of xsd:decimal changed by the Turtle family: " + "; ".join(problems[:3]))
    sys.exit(1)
print("PASS")
