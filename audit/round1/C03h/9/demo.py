# json-ld with base=: IRIs are cut at the base's scheme+host string, not at a reference that resolves back
import sys, logging
logging.disable(logging.CRITICAL)
from rdflib import Graph, URIRef, Literal

P = URIRef("http://x/p")
base = "http://example.com/doc"
iris = ["http://example.com.evil.org/x", "http://example.com:8080/a", "http://example.com", "http://example.com//host2/x"]
problems = []
for iri in iris:
    g = Graph()
    g.add((URIRef(iri), P, Literal("v")))
    out = g.serialize(format="json-ld", base=base)
    back = Graph().parse(data=out, format="json-ld", base=base)   # read back against the same base
    s = next(iter(back.subjects()))
    if s != URIRef(iri):
        problems.append("<%s> read back as %s" % (iri, s.n3()))
if problems:
    print("FAIL json-ld serialize(base=%r): " % base + "; ".join(problems))
    sys.exit(1)
print("PASS")
