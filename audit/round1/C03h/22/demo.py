# pretty-xml: an rdf:List of 600 literals (or a path of 600 blank nodes) exhausts the recursion limit
import sys, logging
logging.disable(logging.CRITICAL)
from rdflib import Graph, URIRef, BNode, Literal, RDF

S, P = URIRef("http://e/s"), URIRef("http://e/p")
g = Graph()
cells = [BNode() for _ in range(600)]
g.add((S, P, cells[0]))
for i, c in enumerate(cells):
    g.add((c, RDF.first, Literal(i)))
    g.add((c, RDF.rest, cells[i + 1] if i + 1 < len(cells) else RDF.nil))
# control: the plain RDF/XML serializer and Turtle cope with the same graph
assert len(Graph().parse(data=g.serialize(format="xml"), format="xml")) == len(g)
assert len(Graph().parse(data=g.serialize(format="turtle"), format="turtle")) == len(g)
try:
    out = g.serialize(format="pretty-xml")
except RecursionError:
    print("FAIL pretty-xml raises RecursionError on a well-formed rdf:List with 600 literal members (1201 triples)")
    sys.exit(1)
back = Graph().parse(data=out, format="xml")
if len(back) != len(g):
    print("FAIL %d of %d triples read back" % (len(back), len(g)))
    sys.exit(1)
print("PASS")
