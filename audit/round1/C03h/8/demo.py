# RDF/XML: predicate whose tail contains % ( ) is written as an element name that is not an XML name
import sys, logging
logging.disable(logging.CRITICAL)
from rdflib import Graph, URIRef, Literal

S = URIRef("http://e/s")
problems = []
for pred in ("http://e/p%20q", "http://e/a(b)c"):
    for fmt in ("xml", "pretty-xml"):
        g = Graph()
        g.add((S, URIRef(pred), Literal("v")))
        out = g.serialize(format=fmt)
        try:
            back = Graph().parse(data=out, format="xml")
            if set(back) != set(g):
                problems.append("%s <%s>: different graph" % (fmt, pred))
        except Exception as e:
            problems.append("%s <%s>: output is not well-formed XML (%s)" % (fmt, pred, e))
# RDF/XML can express these predicates: split after the offending character
ok = ('<rdf:RDF xmlns:rdf="http://www.w3.org/1999/02/22-rdf-syntax-ns#" xmlns:n="http://e/p%20">'
      '<rdf:Description rdf:about="http://e/s"><n:q>v</n:q></rdf:Description></rdf:RDF>')
assert (S, URIRef("http://e/p%20q"), Literal("v")) in Graph().parse(data=ok, format="xml")
if problems:
    print("FAIL " + "; ".join(problems[:2]) + " (%d cases)" % len(problems))
    sys.exit(1)
print("PASS")
