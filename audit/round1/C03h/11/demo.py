# json-ld: a malformed list whose second cell has no rdf:first is folded into @list and re-linked
import sys, logging
logging.disable(logging.CRITICAL)
from rdflib import Graph, URIRef, BNode, Literal, RDF
from rdflib.compare import isomorphic

S, P = URIRef("http://e/s"), URIRef("http://e/p")
g = Graph()
a, b = BNode(), BNode()
g.add((S, P, a))
g.add((a, RDF.first, Literal("x")))
g.add((a, RDF.rest, b))
g.add((b, RDF.rest, RDF.nil))          # cell b has no rdf:first
out = g.serialize(format="json-ld")
back = Graph().parse(data=out, format="json-ld")
for fmt in ("turtle", "xml", "nt"):
    assert isomorphic(g, Graph().parse(data=g.serialize(format=fmt), format=fmt))
if not isomorphic(g, back):
    rest_of_head = [o.n3() for s in back.objects(S, P) for o in back.objects(s, RDF.rest)]
    print("FAIL json-ld changed the structure: head cell's rdf:rest is now %s instead of the second cell" % rest_of_head)
    sys.exit(1)
print("PASS")
