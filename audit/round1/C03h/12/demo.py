# json-ld: list cell with two rdf:first values, the first of them falsy (0, "", false): one member is lost
import sys, logging
logging.disable(logging.CRITICAL)
from rdflib import Graph, URIRef, BNode, Literal, RDF
from rdflib.compare import isomorphic

S, P = URIRef("http://e/s"), URIRef("http://e/p")
g = Graph()
a, b = BNode(), BNode()
g.add((S, P, a))
g.add((a, RDF.first, Literal(5)))
g.add((a, RDF.rest, b))
g.add((b, RDF.first, Literal(0)))      # falsy literal
g.add((b, RDF.first, Literal(1)))      # second rdf:first on the same cell (malformed list)
g.add((b, RDF.rest, RDF.nil))
back = Graph().parse(data=g.serialize(format="json-ld"), format="json-ld")
for fmt in ("turtle", "xml", "nt"):
    assert isomorphic(g, Graph().parse(data=g.serialize(format=fmt), format=fmt))
if not isomorphic(g, back):
    print("FAIL json-ld folded a cell with two rdf:first values (0 and 1) into @list and lost one: %d triples in, %d out" % (len(g), len(back)))
    sys.exit(1)
print("PASS")
