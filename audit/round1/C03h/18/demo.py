# pretty-xml: rdf:XMLLiteral written with parseType="Literal" comes back with comments / PIs dropped and CDATA rewritten
import sys, logging
logging.disable(logging.CRITICAL)
from rdflib import Graph, URIRef, Literal, RDF

S, P = URIRef("http://e/s"), URIRef("http://e/p")
problems = []
for lex in ("<!-- note --><a/>", "<a>x<!-- c -->y</a>", "<?pi x?><a/>", "<a><![CDATA[x<y]]></a>"):
    lit = Literal(lex, datatype=RDF.XMLLiteral)
    g = Graph()
    g.add((S, P, lit))
    # control: the plain RDF/XML serializer and Turtle keep the literal as it is
    for fmt in ("xml", "turtle"):
        assert set(Graph().parse(data=g.serialize(format=fmt), format=fmt)) == set(g)
    back = Graph().parse(data=g.serialize(format="pretty-xml"), format="xml")
    o = next(iter(back.objects()))
    if str(o) != lex or o.datatype != RDF.XMLLiteral:
        problems.append("%r -> %r" % (lex, str(o)))
if problems:
    print("FAIL pretty-xml round trip changes rdf:XMLLiteral lexical forms: " + "; ".join(problems))
    sys.exit(1)
print("PASS")
