# json-ld with auto_compact / a context: "x"^^xsd:string is written as a bare string and comes back as a plain literal
import sys, logging
logging.disable(logging.CRITICAL)
from rdflib import Graph, URIRef, Literal, XSD

S, P = URIRef("http://e/s"), URIRef("http://e/p")
g = Graph()
g.bind("ex", "http://e/")
g.add((S, P, Literal("x", datatype=XSD.string)))
# control: expanded JSON-LD, Turtle and NT keep the datatype
for fmt, kw in (("json-ld", {}), ("turtle", {}), ("nt", {})):
    assert set(Graph().parse(data=g.serialize(format=fmt, **kw), format=fmt)) == set(g)
back = Graph().parse(data=g.serialize(format="json-ld", auto_compact=True), format="json-ld")
if set(back) != set(g):
    print("FAIL json-ld (auto_compact=True): %s read back as %s" % (next(iter(g.objects())).n3(), next(iter(back.objects())).n3()))
    sys.exit(1)
print("PASS")
