# json-ld with auto_compact / a context: a falsy first value (0, false, "") of a property is overwritten by the next
import sys, logging
logging.disable(logging.CRITICAL)
from rdflib import Graph, URIRef, Literal

S, P = URIRef("http://e/s"), URIRef("http://e/p")
problems = []
for falsy in (Literal(0), Literal(False), Literal("")):
    g = Graph()
    g.bind("ex", "http://e/")
    g.add((S, P, falsy))
    g.add((S, P, Literal("x", lang="en")))
    out = g.serialize(format="json-ld", auto_compact=True)
    back = Graph().parse(data=out, format="json-ld")
    if set(back) != set(g):
        problems.append("{%s, \"x\"@en} -> %s" % (falsy.n3(), [o.n3() for o in back.objects(S, P)]))
if problems:
    print("FAIL json-ld (auto_compact=True) loses a falsy value when the property has another value: " + "; ".join(problems))
    sys.exit(1)
print("PASS")
