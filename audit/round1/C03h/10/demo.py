# json-ld: a list cell that also has rdf:type rdf:List is folded into @list and the type triple is dropped
import sys, logging
logging.disable(logging.CRITICAL)
from rdflib import Graph, URIRef, BNode, Literal, RDF
from rdflib.compare import isomorphic

S, P = URIRef("http://e/s"), URIRef("http://e/p")
g = Graph()
c = BNode()
g.add((S, P, c))
g.add((c, RDF.type, RDF.List))
g.add((c, RDF.first, Literal("x")))
g.add((c, RDF.rest, RDF.nil))
back = Graph().parse(data=g.serialize(format="json-ld"), format="json-ld")
# control: the other syntaxes keep all four triples
for fmt in ("turtle", "xml", "nt"):
    assert isomorphic(g, Graph().parse(data=g.serialize(format=fmt), format=fmt))
if not isomorphic(g, back):
    print("FAIL json-ld round trip lost the (cell rdf:type rdf:List) triple: %d triples in, %d out" % (len(g), len(back)))
    sys.exit(1)
print("PASS")
