# turtle: prefix used but never declared (predicate whose local part ends with '.')
import sys, logging
logging.disable(logging.CRITICAL)
from rdflib import Graph, URIRef, Literal

problems = []
for fmt in ("turtle", "longturtle", "n3"):
    g = Graph()  # fresh graph: serialising binds generated prefixes in the graph
    g.add((URIRef("http://e/a"), URIRef("http://e/p."), Literal("v")))
    out = g.serialize(format=fmt)
    try:
        back = Graph().parse(data=out, format="turtle" if fmt != "n3" else "n3")
        if set(back) != set(g):
            problems.append("%s: different graph" % fmt)
    except Exception as e:
        problems.append("%s: output does not parse (%s)" % (fmt, str(e).splitlines()[1] if len(str(e).splitlines()) > 1 else e))
if problems:
    print("FAIL <http://e/a> <http://e/p.> \"v\" is written with an undeclared prefix: " + "; ".join(problems))
    sys.exit(1)
print("PASS")
