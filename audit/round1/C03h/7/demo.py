# turtle family with base=: relative references that carry a query are resolved wrongly on read-back
import sys, logging
logging.disable(logging.CRITICAL)
from urllib.parse import urljoin
from rdflib import Graph, URIRef, Literal

P = URIRef("http://x/p")
cases = [("http://e/a/b", "http://e/a/b?q"), ("http://e/a/", "http://e/a/c?x=a:b")]
problems = []
for base, iri in cases:
    for fmt in ("turtle", "longturtle", "n3"):
        g = Graph()
        g.add((URIRef(iri), P, Literal("v")))
        out = g.serialize(format=fmt, base=base)
        back = Graph().parse(data=out, format="n3" if fmt == "n3" else "turtle")
        s = next(iter(back.subjects()))
        if s != URIRef(iri):
            rel = [l for l in out.splitlines() if l.startswith("<")][-1].split(">")[0] + ">"
            assert urljoin(base, rel[1:-1]) == iri  # what was written is a correct relative reference (RFC 3986)
            problems.append("%s base=%s: <%s> written as %s, read back as %s" % (fmt, base, iri, rel, s.n3()))
if problems:
    print("FAIL " + "; ".join(problems[:2]) + " (%d cases)" % len(problems))
    sys.exit(1)
print("PASS")
