# json-ld with auto_compact / a context: a literal object of rdf:type becomes an IRI
import sys, logging
logging.disable(logging.CRITICAL)
from rdflib import Graph, URIRef, Literal, RDF

S = URIRef("http://e/s")
g = Graph()
g.bind("ex", "http://e/")
g.add((S, RDF.type, Literal("Person")))
out = g.serialize(format="json-ld", auto_compact=True)
back = Graph().parse(data=out, format="json-ld", base="http://base/")
# control: without a context the same graph round-trips
assert set(Graph().parse(data=g.serialize(format="json-ld"), format="json-ld")) == set(g)
if set(back) != set(g):
    print("FAIL json-ld (auto_compact=True) wrote the literal object of rdf:type as \"@type\": \"Person\"; read back as %s" % [o.n3() for o in back.objects()])
    sys.exit(1)
print("PASS")
