# json-ld auto_compact: a bound prefix that is also the scheme of its namespace IRI (urn -> urn:x:) never terminates normally
import sys, logging
logging.disable(logging.CRITICAL)
from rdflib import Graph, URIRef, Literal

g = Graph()
g.bind("urn", "urn:example:")          # also: bind("tag", "tag:e.org,2000:"), bind("mailto", "mailto:") ...
g.add((URIRef("urn:example:s"), URIRef("http://e/p"), Literal("v")))
try:
    out = g.serialize(format="json-ld", auto_compact=True)
except RecursionError:
    print("FAIL serialize(format='json-ld', auto_compact=True) with prefix 'urn' bound to <urn:example:> ends in RecursionError")
    sys.exit(1)
back = Graph().parse(data=out, format="json-ld")
if set(back) != set(g):
    print("FAIL different graph read back: %s" % sorted(back))
    sys.exit(1)
print("PASS")
