"""Parsing the same document into two fresh graphs: rdflib.compare.isomorphic
says the two results are NOT isomorphic (about 4 times out of 10).

The document holds two copies of a 2-cell list structure and two copies of a
small chain ending in a self loop, i.e. a graph with non trivial automorphisms.
The parsers do their job (the two graphs are the same up to blank node
renaming, which the brute force check below confirms); the canonical labelling
in rdflib.compare depends on the (random) blank node ids / iteration order.
"""
import sys

from rdflib import Graph
from rdflib.compare import isomorphic

DOC = """
_:l1 <http://e/list> _:c1 .
_:c1 <http://e/first> <http://e/a> .
_:c1 <http://e/rest> _:d1 .
_:d1 <http://e/first> <http://e/a> .
_:d1 <http://e/rest> <http://e/nil> .
_:l2 <http://e/list> _:c2 .
_:c2 <http://e/first> <http://e/a> .
_:c2 <http://e/rest> _:d2 .
_:d2 <http://e/first> <http://e/a> .
_:d2 <http://e/rest> <http://e/nil> .
_:x1 <http://e/q> _:y1 .
_:y1 <http://e/p> _:z1 .
_:z1 <http://e/p> _:z1 .
_:z1 <http://e/p> <http://e/b> .
_:x2 <http://e/q> _:y2 .
_:y2 <http://e/p> _:z2 .
_:z2 <http://e/p> _:z2 .
_:z2 <http://e/p> <http://e/b> .
"""




TRIES = 80
bad = 0
for i in range(TRIES):
    ctx1, ctx2 = {}, {}
    g1 = Graph().parse(data=DOC, format="nt", bnode_context=ctx1)
    g2 = Graph().parse(data=DOC, format="nt", bnode_context=ctx2)
    # ground truth: renaming g1's nodes by label gives exactly g2
    m = {ctx1[k]: ctx2[k] for k in ctx1}
    assert {tuple(m.get(t, t) for t in tr) for tr in g1} == set(g2)
    if not isomorphic(g1, g2):
        bad += 1

if bad:
    print(
        "FAIL: the same N-Triples document parsed into two fresh graphs was "
        "reported non-isomorphic in %d of %d trials" % (bad, TRIES)
    )
    sys.exit(1)
print("PASS")
sys.exit(0)
