"""SPARQL LOAD leaves behind the triples of its failed format attempts.

QueryContext.load tries turtle, xml, n3, nt in turn on the SAME target graph.
A Notation3 document is read as Turtle first; the Turtle parser adds every
statement up to the first N3-only construct and then raises.  The n3 attempt
then parses the whole document again with fresh blank nodes, so the graph ends
up with the document's blank-node triples twice (and is not the RDF merge of
old content + document).
"""
import os
import pathlib
import sys
import tempfile

from rdflib import Graph

DOC = """@prefix : <http://e/> .
_:a :p :o .
[] :q 1 .
:x :says { :s :p :o } .
"""

d = tempfile.mkdtemp()
path = os.path.join(d, "doc.n3")
with open(path, "w") as f:
    f.write(DOC)

expected = Graph().parse(path, format="n3")  # 3 triples

g = Graph()
g.update("LOAD <%s>" % pathlib.Path(path).as_uri())

if len(g) != len(expected):
    print(
        "FAIL: LOAD of a 3-triple N3 document produced %d triples "
        "(blank-node triples of the aborted Turtle attempt were kept and "
        "then added again by the n3 attempt)" % len(g)
    )
    sys.exit(1)
print("PASS")
sys.exit(0)
