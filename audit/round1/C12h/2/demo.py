"""N3 parser mints blank-node / formula identifiers from per-process counters.

Every other parser labels blank nodes with uuid based ids, but the N3 parser
names
  * quoted graphs (formulae)         BNode("_:Formula<k>")   k = class counter
  * `[ ... ]` / path nodes in N3     BNode("ub<k>bL<line>C<col>") k = module counter
Both counters restart at 0 in every Python process.  A graph that was filled in
one process (kept with pickle here; the same happens with any persistent store)
and is then extended by parsing a *different* document in another process gets
the new document's formula and blank nodes merged into the old ones.
"""
import os
import pickle
import subprocess
import sys
import tempfile

from rdflib import Graph, URIRef

DOC1 = "@prefix : <http://e/> . :alice :says { [] :likes :tea } .   [] :name \"A\" ."
DOC2 = "@prefix : <http://e/> . :bobby :says { [] :hates :tea } .   [] :name \"B\" ."

tmp = os.path.join(tempfile.mkdtemp(), "g.pickle")
child = (
    "import pickle, sys\n"
    "from rdflib import Graph\n"
    "g = Graph().parse(data=%r, format='n3')\n"
    "pickle.dump(g, open(%r, 'wb'))\n" % (DOC1, tmp)
)
subprocess.run([sys.executable, "-c", child], check=True, env=os.environ)

g = pickle.load(open(tmp, "rb"))  # the graph "that already has content"
says = URIRef("http://e/says")
name = URIRef("http://e/name")
f_old = g.value(URIRef("http://e/alice"), says)
old_formula = set(f_old)
old_named = set(g.subjects(name, None))

g.parse(data=DOC2, format="n3")

f_alice = g.value(URIRef("http://e/alice"), says)
f_bobby = g.value(URIRef("http://e/bobby"), says)
problems = []
if f_alice.identifier == f_bobby.identifier:
    problems.append(
        "both documents' formulae are the one quoted graph %s" % f_alice.identifier
    )
if set(f_alice) != old_formula:
    problems.append(
        "what :alice says changed from %d to %d statements"
        % (len(old_formula), len(set(f_alice)))
    )
named = set(g.subjects(name, None))
if len(named) != 2:
    problems.append(
        "the two documents' `[] :name ...` nodes are %d node(s): %s"
        % (len(named), sorted(named))
    )
if problems:
    print("FAIL: " + "; ".join(problems))
    sys.exit(1)
print("PASS")
sys.exit(0)
