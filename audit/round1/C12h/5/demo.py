"""skolemize=True turns the *label* into the Skolem IRI, so blank nodes of
separate documents that happen to use the same label become one node.

RDF 1.1 Concepts 3.5 asks for a fresh, globally unique IRI per replaced blank
node; rdflib's parsers build genid/<label> instead, which also makes the result
of parsing the same document twice different from the RDF merge.
"""
import sys

from rdflib import Graph, URIRef

P = URIRef("http://e/name")
problems = []
for fmt, d1, d2 in [
    ("nt", '_:a <http://e/name> "Alice" .\n', '_:a <http://e/name> "Bob" .\n'),
    ("nquads", '_:a <http://e/name> "Alice" .\n', '_:a <http://e/name> "Bob" .\n'),
    (
        "json-ld",
        '{"@id": "_:a", "http://e/name": "Alice"}',
        '{"@id": "_:a", "http://e/name": "Bob"}',
    ),
]:
    g = Graph()
    g.parse(data=d1, format=fmt, skolemize=True)
    g.parse(data=d2, format=fmt, skolemize=True)
    subjects = set(g.subjects(P, None))
    if len(subjects) != 2:
        problems.append("%s: %s" % (fmt, sorted(subjects)))

if problems:
    print(
        "FAIL: with skolemize=True the _:a of two different documents is one "
        "node carrying both names -> " + "; ".join(problems)
    )
    sys.exit(1)
print("PASS")
sys.exit(0)
