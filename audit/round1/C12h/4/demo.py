"""The same N3 document parsed into two fresh graphs is not isomorphic.

A formula `{ ... }` becomes a QuotedGraph node whose identifier is
BNode("_:Formula<k>") with k a running class counter, so the two parses name
"the same" formula _:Formula2 and _:Formula4.  QuotedGraph is not a BNode, so
rdflib.compare treats the two formula nodes as different ground terms.
"""
import sys

from rdflib import Graph
from rdflib.compare import isomorphic

DOC = "@prefix : <http://e/> . :alice :says { :s :p :o } ."

g1 = Graph().parse(data=DOC, format="n3")
g2 = Graph().parse(data=DOC, format="n3")

if not isomorphic(g1, g2):
    print(
        "FAIL: two fresh parses of one N3 document are not isomorphic: %s vs %s"
        % (
            [o.identifier for o in g1.objects()],
            [o.identifier for o in g2.objects()],
        )
    )
    sys.exit(1)
print("PASS")
sys.exit(0)
