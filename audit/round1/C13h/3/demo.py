"""With a base IRI, serialising the same unchanged graph to Turtle twice gives
two different documents; the first uses a prefix that is never declared."""
import sys
import warnings

warnings.simplefilter("ignore")

from rdflib import Graph, Literal, URIRef

CASES = [
    # predicate starts with the base string but is not relative to it
    ("http://e/doc", {(URIRef("http://e/x"), URIRef("http://e/document"), Literal("o"))}),
    # predicate and subject are relative to the base, with a query part
    (
        "http://e/",
        {
            (URIRef("http://e/?q=x"), URIRef("urn:x:p"), Literal(1)),
            (URIRef("http://e/s"), URIRef("http://e/?q=y"), Literal(2)),
        },
    ),
]

problems = []
for BASE, triples in CASES:
  for fmt in ("turtle", "n3", "longturtle"):
      g = Graph()
      for t in triples:
          g.add(t)
      first = g.serialize(format=fmt, base=BASE)
      second = g.serialize(format=fmt, base=BASE)
      if set(g) != triples:
          problems.append("%s: serialising changed the triples" % fmt)
      if first != second:
          problems.append("%s: 1st and 2nd serialisation differ" % fmt)
      try:
          back = set(Graph().parse(data=first, format="n3" if fmt == "n3" else "turtle"))
          if back != triples:
              problems.append("%s: 1st output reads back as a different graph" % fmt)
      except Exception as e:  # noqa: BLE001
          problems.append(
              "%s: 1st output does not parse (%s)"
              % (fmt, str(e).replace("\n", " ")[:60])
          )

if problems:
    print("FAIL: " + "; ".join(problems))
    sys.exit(1)
print("PASS")
