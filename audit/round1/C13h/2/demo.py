"""A read of a Dataset (serialize / graphs() / a GRAPH ?g query) adds a graph to
the set of graphs held by the store: the default graph gets registered on the
first read.  A second object over the same store sees the set of graphs change,
and (because the store keeps its graphs in a Python set) the very same
serialisation can list the graphs in another order the second time."""
import sys
import warnings

warnings.simplefilter("ignore")

from rdflib import BNode, ConjunctiveGraph, Dataset, Literal, Namespace

EX = Namespace("http://e/")


def build():
    ds = Dataset()
    ds.add((EX.a, EX.p, Literal(0), EX.g1))
    ds.add((EX.a, EX.p, Literal(""), BNode("gb")))
    return ds


def graph_names(store):
    return sorted(str(c.identifier) for c in store.contexts())


reads = {
    "serialize(format='nquads')": lambda ds: ds.serialize(format="nquads"),
    "serialize(format='trig')": lambda ds: ds.serialize(format="trig"),
    "serialize(format='json-ld')": lambda ds: ds.serialize(format="json-ld"),
    "query(SELECT .. GRAPH ?g ..)": lambda ds: list(
        ds.query("SELECT * WHERE { GRAPH ?g { ?s ?p ?o } }")
    ),
    "list(ds.graphs((s, p, o)))": lambda ds: list(ds.graphs((EX.a, EX.p, Literal(0)))),
}

problems = []
for name, read in reads.items():
    ds = build()
    view = ConjunctiveGraph(store=ds.store)  # a second object over the same store
    before_store = graph_names(ds.store)
    before_view = sorted(str(c.identifier) for c in view.contexts())
    read(ds)
    after_store = graph_names(ds.store)
    after_view = sorted(str(c.identifier) for c in view.contexts())
    if before_store != after_store or before_view != after_view:
        extra = sorted(set(after_store) - set(before_store))
        problems.append("%s added graph(s) %s" % (name, extra))

if problems:
    print(
        "FAIL: reading a Dataset changed the set of graphs in its store: "
        + "; ".join(problems)
    )
    sys.exit(1)
print("PASS")
