"""Serialising the same unchanged graph to Turtle twice gives two different
documents, and the first one is not even valid Turtle (it uses a prefix that it
never declares)."""
import sys
import warnings

warnings.simplefilter("ignore")

from rdflib import Graph, Literal, URIRef

g = Graph()
# a predicate whose local part ends with "." cannot be written as a prefixed
# name; the subject lives in the same namespace
g.add((URIRef("http://e/x"), URIRef("http://e/p."), Literal(1)))
before = set(g)

problems = []
for fmt in ("turtle", "n3", "longturtle"):
    h = Graph()
    for t in before:
        h.add(t)
    first = h.serialize(format=fmt)
    second = h.serialize(format=fmt)
    if set(h) != before:
        problems.append("%s: serialising changed the triples" % fmt)
    if first != second:
        problems.append(
            "%s: 1st and 2nd serialisation of the unchanged graph differ" % fmt
        )
    try:
        back = set(Graph().parse(data=first, format="n3" if fmt == "n3" else "turtle"))
        if back != before:
            problems.append("%s: 1st output reads back as a different graph" % fmt)
    except Exception as e:  # noqa: BLE001
        problems.append(
            "%s: 1st output does not parse (%s)"
            % (fmt, str(e).replace("\n", " ")[:60])
        )

if problems:
    print("FAIL: " + "; ".join(problems))
    sys.exit(1)
print("PASS")
