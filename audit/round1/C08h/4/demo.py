"""A group whose GROUP BY key is unbound (or a SAMPLE over nothing) must leave the
variable UNBOUND in the group's solution.  rdflib binds it to Python None, and that
pseudo-term then behaves like a value: it is incompatible with every real term in a join,
differs from the genuinely-unbound solution under DISTINCT, and breaks the XML writer."""
import sys
from rdflib import Graph

g = Graph()
g.parse(
    data="""@prefix : <http://e/> .
:a :p 1 ; :k :k1 .
:b :p 2 ; :k :k1 .
:c :p 3 .              # no :k  -> group with unbound key
""",
    format="turtle",
)
P = "PREFIX : <http://e/> "
GROUPED = "SELECT ?k (COUNT(*) AS ?c) WHERE { ?y :p ?v OPTIONAL { ?y :k ?k } } GROUP BY ?k"
problems = []

# 1. the solution for the unbound-key group must not contain ?k at all
rows = g.query(P + GROUPED).bindings
bad = [dict(b) for b in rows if "k" in [str(x) for x in b] and b["k"] is None]
if bad:
    problems.append("group solution binds ?k to None instead of leaving it unbound")

# 2. trailing VALUES is joined with the groups: the unbound-key group (c=1) is compatible
#    with both :k1 and :k9, the :k1 group (c=2) only with :k1  -> 3 solutions
r = g.query(P + GROUPED + " VALUES ?k { :k1 :k9 }")
got = sorted((str(b.get("k")), int(b["c"])) for b in r.bindings)
want = [("http://e/k1", 1), ("http://e/k1", 2), ("http://e/k9", 1)]
if got != want:
    problems.append(f"GROUP BY ?k VALUES ?k {{:k1 :k9}} gave {got}, want {want}")

# 3. DISTINCT: 'k unbound' coming from the group and 'k unbound' coming from OPTIONAL are the same solution
r = g.query(
    P + "SELECT DISTINCT ?k WHERE { { " + GROUPED + " } UNION { ?y :p 3 OPTIONAL { ?y :k ?k } } }"
)
unbound_rows = [b for b in r.bindings if b.get("k") is None]
if len(unbound_rows) != 1:
    problems.append(f"SELECT DISTINCT returned the all-unbound solution {len(unbound_rows)} times")

# 4. the result must be serialisable
try:
    g.query(P + GROUPED).serialize(format="xml")
except Exception as e:  # noqa
    problems.append(f"serialize(format='xml') raised {type(e).__name__}: {e}")

# 5. SAMPLE over a group in which the variable is never bound
try:
    r = g.query(P + "SELECT (SAMPLE(?k) AS ?s) WHERE { ?y :p 3 OPTIONAL { ?y :k ?k } }")
    if any(b["s"] is None for b in r.bindings if "s" in [str(x) for x in b]):
        problems.append("SAMPLE over no values binds ?s to None")
except Exception as e:  # noqa
    problems.append(f"SAMPLE raised {e!r}")

if not problems:
    print("PASS")
    sys.exit(0)
print("FAIL: unbound group key / empty SAMPLE is bound to None: " + " | ".join(problems))
sys.exit(1)
