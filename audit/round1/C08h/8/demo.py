"""SUM / AVG are defined through op:numeric-add: a group containing a term that is not a number makes
the aggregate an error, so the variable stays unbound (W3C test aggregates/agg-err-01 requires exactly
this for AVG).  rdflib silently drops the offending terms and returns a number."""
import sys
from rdflib import Graph

g = Graph()
# data of W3C agg-err-01
g.parse(
    data="""@prefix : <http://example.com/data/#> .
:x :p 1, 2, 3, 4 .
:y :p 1, _:b2, 3, 4 .
:z :p 1.0, 2.0, 3.0, 4 .
""",
    format="turtle",
)
q = """PREFIX : <http://example.com/data/#>
SELECT ?g (AVG(?p) AS ?avg) (SUM(?p) AS ?sum) WHERE { ?g :p ?p } GROUP BY ?g"""
res = {str(b["g"])[-1]: b for b in g.query(q).bindings}
problems = []
if float(res["x"]["avg"]) != 2.5 or float(res["z"]["avg"]) != 2.5 or float(res["x"]["sum"]) != 10:
    problems.append("numeric groups wrong")
for v in ("avg", "sum"):
    got = res["y"].get(v)
    if got is not None:
        problems.append(f"group :y (1, _:b2, 3, 4): ?{v} = {got.n3()} but must be unbound")

# a group with no number at all: SUM/AVG of IRIs is an error too, not 0
g2 = Graph()
g2.parse(data="@prefix : <http://e/> . :a :k :k1 . :b :k :k2 .", format="turtle")
b = g2.query("PREFIX : <http://e/> SELECT (SUM(?k) AS ?s) (AVG(?k) AS ?a) WHERE { ?x :k ?k }").bindings[0]
for v in ("s", "a"):
    if b.get(v) is not None:
        problems.append(f"over two IRIs ?{v} = {b[v].n3()} but must be unbound")

if not problems:
    print("PASS")
    sys.exit(0)
print("FAIL: SUM/AVG ignore non-numeric members of the group: " + " | ".join(problems))
sys.exit(1)
