"""Non-finite numbers as sort keys: a NaN among the keys must neither disturb the relative order of
the other numbers (1 < 9 whatever else is in the column) nor make the query fail."""
import sys
from rdflib import Graph

g = Graph()
P = "PREFIX xsd: <http://www.w3.org/2001/XMLSchema#> "
problems = []


def run(values, order):
    q = P + "SELECT ?v WHERE { VALUES ?v { %s } } ORDER BY %s" % (values, order)
    try:
        out = [str(b["v"]) for b in g.query(q).bindings]
    except Exception as e:  # noqa
        problems.append(f"VALUES {{{values}}} ORDER BY {order} raised {type(e).__name__}")
        return
    nums = [float(x) for x in out if x != "NaN"]
    if len(out) != 3 or nums != sorted(nums, reverse=order.startswith("DESC")):
        problems.append(f"VALUES {{{values}}} ORDER BY {order} -> {out}")


NAN = '"NaN"^^xsd:double'
run(f"1 {NAN} 9", "?v")            # integers: 9 comes out before 1
run(f"9 {NAN} 1", "DESC(?v)")      # integers: 1 comes out before 9
run(f"1.5 {NAN} 9.5", "?v")        # decimals: decimal.InvalidOperation
run(f"9.5 {NAN} 1.5", "DESC(?v)")

if not problems:
    print("PASS")
    sys.exit(0)
print("FAIL: a NaN sort key breaks ORDER BY: " + "; ".join(problems))
sys.exit(1)
