"""GROUP BY ( Expression ) without 'AS ?var' is legal SPARQL (GroupCondition ::= ... | '(' Expression ( 'AS' Var )? ')' | Var)
but every such query fails at evaluation time."""
import sys
from collections import Counter
from rdflib import Graph

g = Graph()
g.parse(
    data="""@prefix : <http://e/> .
:a :p 1 . :b :p 1 . :c :p 2 . :d :p 4 .""",
    format="turtle",
)
P = "PREFIX : <http://e/> "
problems = []
for q, want in [
    # groups by ?v+1: keys 2 (a,b), 3 (c), 5 (d)
    ("SELECT (COUNT(?s) AS ?c) WHERE { ?s :p ?v } GROUP BY (?v + 1)", [1, 1, 2]),
    ("SELECT (COUNT(?s) AS ?c) WHERE { ?s :p ?v } GROUP BY (STR(?v))", [1, 1, 2]),
    ("SELECT ?v (COUNT(?s) AS ?c) WHERE { ?s :p ?v } GROUP BY (?v)", [1, 1, 2]),
]:
    try:
        got = sorted(b["c"].toPython() for b in g.query(P + q).bindings)
    except Exception as e:  # noqa
        problems.append(f"{q!r} raised {type(e).__name__}: {e}")
        continue
    if got != want:
        problems.append(f"{q!r} gave group sizes {got}, want {want}")

if not problems:
    print("PASS")
    sys.exit(0)
print("FAIL: GROUP BY (expr) without AS: " + problems[0] + f"  [{len(problems)} of 3 queries wrong]")
sys.exit(1)
