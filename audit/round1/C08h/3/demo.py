"""SUM / AVG / GROUP_CONCAT with DISTINCT must skip solutions in which the aggregated
variable is unbound (as the non-DISTINCT forms and COUNT(DISTINCT ..) do); instead the query dies."""
import sys
from rdflib import Graph

g = Graph()
g.parse(
    data="""@prefix : <http://e/> .
:a :q "x" ; :p 1 .
:b :q "y" ; :p 2 .
:c :q "z" ; :p 2 .
:d :q "w" .            # no :p  -> ?v unbound in this solution
""",
    format="turtle",
)
P = "PREFIX : <http://e/> "
W = " WHERE { ?s :q ?q OPTIONAL { ?s :p ?v } }"
problems = []
for agg, want in [
    ("SUM(DISTINCT ?v)", "3"),
    ("AVG(DISTINCT ?v)", "1.5"),
    ('GROUP_CONCAT(DISTINCT ?v; separator=",")', None),
    ("COUNT(DISTINCT ?v)", "2"),
    ("SUM(?v)", "5"),
]:
    q = P + "SELECT (" + agg + " AS ?r)" + W
    try:
        got = str(g.query(q).bindings[0]["r"])
    except Exception as e:  # noqa
        problems.append(f"{agg} raised {type(e).__name__}: {e}")
        continue
    if want is None:
        ok = sorted(got.split(",")) == ["1", "2"]
    else:
        ok = float(got) == float(want)
    if not ok:
        problems.append(f"{agg} = {got!r}")

if not problems:
    print("PASS")
    sys.exit(0)
print("FAIL: DISTINCT aggregate over a group with an unbound value: " + "; ".join(problems))
sys.exit(1)
