"""COUNT(expr) counts only the solutions for which expr has a value (errors are removed);
GROUP_CONCAT(expr) concatenates string values - never the text of an internal error message."""
import sys
from rdflib import Graph

g = Graph()
g.parse(
    data="""@prefix : <http://e/> .
:a :p 1 . :b :p 2 . :c :p :iri . :d :p "str" .""",
    format="turtle",
)
P = "PREFIX : <http://e/> "
problems = []

# ?v + 1 has a value for 2 of the 4 solutions (IRI + 1 and "str" + 1 are type errors)
r = g.query(P + "SELECT (COUNT(?v + 1) AS ?n) (COUNT(DISTINCT ?v + 1) AS ?nd) (COUNT(*) AS ?all) WHERE { ?s :p ?v }")
b = r.bindings[0]
n, nd, al = int(b["n"]), int(b["nd"]), int(b["all"])
if (n, nd, al) != (2, 2, 4):
    problems.append(f"COUNT(?v+1)={n} COUNT(DISTINCT ?v+1)={nd} (want 2 and 2; COUNT(*)={al})")

r = g.query(P + 'SELECT (GROUP_CONCAT(?v + 1; separator=",") AS ?gc) WHERE { ?s :p ?v }')
rows = r.bindings
gc = rows[0].get("gc") if rows else None
# acceptable: unbound (aggregate error) or the two values
if gc is not None and sorted(str(gc).split(",")) != ["2", "3"]:
    problems.append(f"GROUP_CONCAT(?v+1) = {str(gc)!r}")

if not problems:
    print("PASS")
    sys.exit(0)
print("FAIL: expression errors are aggregated as if they were values: " + " | ".join(problems))
sys.exit(1)
