"""MIN / MAX over an expression that is an error for some solutions of the group.
Whatever one takes the result to be (SPARQL: the aggregate is an error -> variable unbound;
or errors ignored -> 2 / 4), evaluation must not blow up with a Python TypeError."""
import sys
from rdflib import Graph, Literal

g = Graph()
g.parse(
    data="""@prefix : <http://e/> .
:a :p 3 . :b :p 1 . :c :p :iri . :d :p 2 .""",
    format="turtle",
)
P = "PREFIX : <http://e/> "
problems = []
for agg, ignoring_errors in (("MIN", Literal(2)), ("MAX", Literal(4))):
    q = P + "SELECT (%s(?v + 1) AS ?m) WHERE { ?s :p ?v }" % agg
    try:
        rows = g.query(q).bindings
    except Exception as e:  # noqa
        problems.append(f"{agg}(?v + 1) raised {type(e).__name__}: {e}")
        continue
    m = rows[0].get("m") if rows else None
    if len(rows) != 1 or (m is not None and m != ignoring_errors):
        problems.append(f"{agg}(?v + 1) -> {rows}")
if not problems:
    print("PASS")
    sys.exit(0)
print("FAIL: " + "; ".join(problems))
sys.exit(1)
