"""ORDER BY over keys of mixed datatypes: numeric literals are ordered by value whatever their
datatype (1 < 2.0e0), so in the result "1"^^xsd:integer may never come after "2.0E0"^^xsd:double.
rdflib's literal comparison is not transitive once a third, non-numeric datatype is present, and
the sorted output then depends on the input order."""
import sys
from itertools import permutations
from rdflib import Graph

g = Graph()
P = "PREFIX xsd: <http://www.w3.org/2001/XMLSchema#> "
terms = ["2.0e0", '"2020"^^xsd:gYear', "1"]   # double, gYear, integer - all well-typed
problems = []
for perm in permutations(terms):
    q = P + "SELECT ?v WHERE { VALUES ?v { %s } } ORDER BY ?v" % " ".join(perm)
    out = [b["v"] for b in g.query(q).bindings]
    lex = [str(x) for x in out]
    if sorted(lex) != sorted(["2.0", "2020", "1"]) and sorted(lex) != sorted(["2.0e0", "2020", "1"]):
        problems.append(f"lost rows: {lex}")
    nums = [x.toPython() for x in out if str(x.datatype).endswith(("integer", "double"))]
    if nums != sorted(nums):
        problems.append("input order (%s) -> output (%s)" % (" ".join(perm), " ".join(x.n3() for x in out)))
if not problems:
    print("PASS")
    sys.exit(0)
print(f"FAIL: ORDER BY ?v puts 1 after 2.0e0 for {len(problems)} of 6 input orders, e.g. " + problems[0])
sys.exit(1)
