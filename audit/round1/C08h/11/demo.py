"""GROUP BY <expression>: solutions for which the key expression is an error all have the same key
('error' / no value) and form ONE group - as rdflib itself does for GROUP BY (expr AS ?k).
With a bare BuiltInCall / FunctionCall key every erroring solution becomes a group of its own."""
import sys
from rdflib import Graph

g = Graph()
g.parse(
    data="""@prefix : <http://e/> .
:a :p "1" . :b :p "x" . :c :p "y" . :d :p "1" . :e :p "z" .""",
    format="turtle",
)
P = "PREFIX : <http://e/> PREFIX xsd: <http://www.w3.org/2001/XMLSchema#> "
# xsd:integer("x"), xsd:integer("y"), xsd:integer("z") are errors -> groups: {a,d} and {b,c,e}
want = [2, 3]
res = {}
for name, q in (
    ("GROUP BY xsd:integer(?v)", "SELECT (COUNT(*) AS ?c) WHERE { ?s :p ?v } GROUP BY xsd:integer(?v)"),
    ("GROUP BY (xsd:integer(?v) AS ?k)", "SELECT (COUNT(*) AS ?c) WHERE { ?s :p ?v } GROUP BY (xsd:integer(?v) AS ?k)"),
    ("GROUP BY ABS(xsd:integer(?v))", "SELECT (COUNT(*) AS ?c) WHERE { ?s :p ?v } GROUP BY ABS(xsd:integer(?v))"),
):
    res[name] = sorted(int(b["c"]) for b in g.query(P + q).bindings)
bad = {k: v for k, v in res.items() if v != want}
if not bad:
    print("PASS")
    sys.exit(0)
print(f"FAIL: group sizes should be {want} for every form, got " + "; ".join(f"{k}: {v}" for k, v in res.items()))
sys.exit(1)
