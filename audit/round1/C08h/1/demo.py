"""GROUP BY over a pattern with no solutions must produce no groups (zero rows);
rdflib produces one spurious empty solution, which then joins with everything."""
import sys
from rdflib import Graph

g = Graph()
g.parse(data="""@prefix : <http://e/> . :a :p 1 . :b :p 2 .""", format="turtle")
P = "PREFIX : <http://e/> "

# no triple has predicate :none -> Group(exprs, {}) has no groups -> 0 solutions
r1 = g.query(P + "SELECT ?x (COUNT(?y) AS ?c) WHERE { ?x :none ?y } GROUP BY ?x")
n1 = len(r1.bindings)

# the same thing used as a sub-select: joining with an empty multiset must give nothing
r2 = g.query(
    P + "SELECT ?s WHERE { ?s :p ?o . "
    "{ SELECT ?x (COUNT(?y) AS ?c) WHERE { ?x :none ?y } GROUP BY ?x } }"
)
n2 = len(r2.bindings)

# and counting the groups must give 0
r3 = g.query(
    P + "SELECT (COUNT(*) AS ?n) WHERE "
    "{ { SELECT ?x (COUNT(?y) AS ?c) WHERE { ?x :none ?y } GROUP BY ?x } }"
)
n3 = r3.bindings[0]["n"].toPython()

if n1 == 0 and n2 == 0 and n3 == 0:
    print("PASS")
    sys.exit(0)
print(
    "FAIL: GROUP BY over zero solutions yields a solution: "
    f"rows={n1} (want 0), join with it gives {n2} rows (want 0), number of groups={n3} (want 0)"
)
sys.exit(1)
