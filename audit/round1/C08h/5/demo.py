"""ORDER BY with a key expression that raises an expression error for some solution.
SPARQL: such a solution has 'no value' for the key and sorts lowest; the query must still
return all solutions.  rdflib raises TypeError from sorted()."""
import sys
from rdflib import Graph

g = Graph()
g.parse(
    data="""@prefix : <http://e/> .
:a :p 3 . :b :p 1 . :c :p :iri . :d :p 2 .""",
    format="turtle",
)
q = "PREFIX : <http://e/> SELECT ?s WHERE { ?s :p ?v } ORDER BY (?v + 1)"
try:
    got = [str(b["s"])[-1] for b in g.query(q).bindings]
except Exception as e:  # noqa
    print(f"FAIL: ORDER BY (?v + 1) with one non-numeric ?v raised {type(e).__name__}: {e}")
    sys.exit(1)
if got == ["c", "b", "d", "a"]:
    print("PASS")
    sys.exit(0)
print(f"FAIL: order was {got}, want ['c', 'b', 'd', 'a'] (the error key sorts lowest)")
sys.exit(1)
