"""A rejected append / += leaves the chain broken.
append(5) (plain Python value instead of a term) raises, but a fresh empty cell
has already been linked in place of rdf:nil; `c += [Literal(3), 5]` raises after
the rdf:nil terminator has been detached. Either way the list no longer ends in
rdf:nil and index() of a non-member raises 'Malformed RDF Collection'."""
import sys
from rdflib import Graph, BNode, Literal, RDF
from rdflib.collection import Collection


def check(label, op):
    g = Graph()
    c = Collection(g, BNode("head"), [Literal(1), Literal(2)])
    try:
        op(c)
    except Exception as e:  # noqa: BLE001
        raised = type(e).__name__
    else:
        return None  # accepted: nothing to check here
    # walk the chain: every cell needs exactly one first and one rest, end in nil
    node, n = c.uri, 0
    while node != RDF.nil:
        f = list(g.objects(node, RDF.first))
        r = list(g.objects(node, RDF.rest))
        if len(f) != 1 or len(r) != 1:
            return "%s raised %s and left cell #%d with rdf:first=%r rdf:rest=%r (chain no longer ends in rdf:nil)" % (
                label, raised, n, f, r)
        node, n = r[0], n + 1
    try:
        c.index(Literal(99))
    except ValueError:
        pass
    except Exception as e:  # noqa: BLE001
        return "%s: index() of a non-member now raises %r" % (label, e)
    return None


problems = [
    p
    for p in (
        check("c.append(5)", lambda c: c.append(5)),
        check("c += [Literal(3), 5]", lambda c: c.__iadd__([Literal(3), 5])),
    )
    if p
]
if problems:
    print("FAIL: " + " | ".join(problems))
    sys.exit(1)
print("PASS")
