"""Collection.clear() leaves the inner cells of the list behind as orphans when
they carry anything besides rdf:first/rdf:rest (e.g. the rdf:type rdf:List that
RDF/XML <rdf:List> nodes, OWL tools and many exporters put on every cell).
Deleting the same members one by one removes those cells completely."""
import sys
from rdflib import Graph, BNode, Literal, RDF, URIRef
from rdflib.collection import Collection


def build():
    g = Graph()
    cells = [BNode("c%d" % i) for i in range(3)]
    for i, cell in enumerate(cells):
        g.add((cell, RDF.type, RDF.List))
        g.add((cell, RDF.first, Literal(i)))
        g.add((cell, RDF.rest, cells[i + 1] if i + 1 < len(cells) else RDF.nil))
    g.add((URIRef("http://example.org/s"), URIRef("http://example.org/p"), cells[0]))
    return g, cells


# reference: empty the list by deleting every member
g1, cells1 = build()
c1 = Collection(g1, cells1[0])
while len(c1):
    del c1[-1]
left_del = sorted(t for t in g1 if t[0] in cells1[1:])

# clear()
g2, cells2 = build()
c2 = Collection(g2, cells2[0])
c2.clear()
left_clear = sorted(t for t in g2 if t[0] in cells2[1:])

if list(c2) != [] or left_clear:
    print(
        "FAIL: after clear() %d triple(s) about former list cells are orphaned in the graph: %r "
        "(deleting all members leaves %d)" % (len(left_clear), left_clear, len(left_del))
    )
    sys.exit(1)
print("PASS")
