"""A rejected item assignment destroys the member it was aimed at.
`c[0] = 5` (a plain Python value instead of an RDF term - the classic slip) raises,
but the old rdf:first of the cell has already been removed: the list silently
shrinks from [1, 2, 3] to [2, 3] and its first cell has no rdf:first any more."""
import sys
from rdflib import Graph, BNode, Literal, RDF
from rdflib.collection import Collection

g = Graph()
model = [Literal(1), Literal(2), Literal(3)]
c = Collection(g, BNode("head"), list(model))

raised = None
try:
    c[0] = 5  # not an rdflib term: Graph.add refuses it
except Exception as e:  # noqa: BLE001
    raised = e

if raised is None:
    print("PASS (value accepted)")
    sys.exit(0)

after = list(c)
cells_without_first = [
    s for s in set(g.subjects(RDF.rest, None)) if (s, RDF.first, None) not in g
]
if after != model or cells_without_first:
    print(
        "FAIL: c[0] = 5 raised %s but the list changed from %s to %s; cells without rdf:first: %r"
        % (type(raised).__name__, [int(x) for x in model], [int(x) for x in after], cells_without_first)
    )
    sys.exit(1)
print("PASS")
