"""The list proxy that infixowl puts over a Collection (OWLRDFListProxy, used by
BooleanClass) compares equal to any other list of the same length with the same
FIRST member: [a, b, c] == [a, b, d]; two empty lists compare as None."""
import sys
import warnings

warnings.simplefilter("ignore")
from rdflib import Graph, Namespace
from rdflib.extras.infixowl import BooleanClass, Class, Individual

EX = Namespace("http://example.com/")
g = Graph()
Individual.factoryGraph = g
a, b, c, d = (Class(EX[n], graph=g) for n in "abcd")
x = BooleanClass(members=[a, b, c])
y = BooleanClass(members=[a, b, d])
e1 = BooleanClass(members=[])
e2 = BooleanClass(members=[])

problems = []
if (x == y) != (list(x) == list(y)):
    problems.append("%r == %r gives %r" % ([str(i)[-1] for i in x], [str(i)[-1] for i in y], x == y))
if (e1 == e2) is not True:
    problems.append("[] == [] gives %r" % (e1 == e2,))
if problems:
    print("FAIL: OWLRDFListProxy.__eq__: " + "; ".join(problems))
    sys.exit(1)
print("PASS")
