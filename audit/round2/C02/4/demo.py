"""ReadOnlyGraphAggregate (a ConjunctiveGraph over an explicit list of graphs): contexts(),
get_context() and GRAPH queries must describe the same graphs as quads()."""
import sys
import warnings

warnings.simplefilter("ignore")
from rdflib import Dataset, Graph, URIRef
from rdflib.graph import ReadOnlyGraphAggregate

a, b, p, x, y = (URIRef("urn:e:" + n) for n in "abpxy")
g1, g2, g3 = (URIRef("urn:e:g%d" % i) for i in (1, 2, 3))

problems = []

# (i) members living in their own stores
m1 = Graph(identifier=g1)
m1.add((a, p, b))
m2 = Graph(identifier=g2)
m2.add((x, p, y))
agg = ReadOnlyGraphAggregate([m1, m2])
by_quads = {c.identifier for (_, _, _, c) in agg.quads((None, None, None))}
by_contexts = {c.identifier for c in agg.contexts()}
by_sparql = {r[0] for r in agg.query("SELECT DISTINCT ?g { GRAPH ?g { ?s ?p ?o } }")}
if by_contexts != by_quads:
    problems.append("own stores: contexts() names %s, quads() names %s" % (sorted(by_contexts), sorted(by_quads)))
if by_sparql != by_quads:
    problems.append("own stores: GRAPH ?g names %s, quads() names %s" % (sorted(by_sparql), sorted(by_quads)))
if set(agg.get_context(g1)) != set(m1):
    problems.append("own stores: get_context(g1) has %d triples, member g1 has %d" % (len(agg.get_context(g1)), len(m1)))

# (ii) an aggregate over a subset of the graphs of one store
ds = Dataset()
ds.add((a, p, b, g1))
ds.add((a, p, b, g2))
ds.add((x, p, y, g3))  # g3 is NOT part of the aggregate
agg = ReadOnlyGraphAggregate([ds.get_context(g1), ds.get_context(g2)], store=ds.store)
by_quads = {c.identifier for (_, _, _, c) in agg.quads((None, None, None))}
by_contexts = {c.identifier for c in agg.contexts()}
by_sparql = {r[0] for r in agg.query("SELECT DISTINCT ?g { GRAPH ?g { ?s ?p ?o } }")}
if by_contexts != by_quads:
    problems.append("shared store: contexts() names %s, quads() names %s" % (sorted(by_contexts), sorted(by_quads)))
if by_sparql != by_quads:
    problems.append("shared store: GRAPH ?g reads %s, the aggregate only has %s" % (sorted(by_sparql), sorted(by_quads)))

if problems:
    print("FAIL: " + "; ".join(problems))
    sys.exit(1)
print("PASS")
