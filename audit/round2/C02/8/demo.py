"""Graph creation through SPARQL Update: CREATE GRAPH <g> on a Dataset must create the
(empty) graph g, like Dataset.graph(g) does."""
import sys
import warnings

warnings.simplefilter("ignore")
from rdflib import Dataset, URIRef

new = URIRef("urn:e:new")
problems = []

ds = Dataset()
try:
    ds.update("CREATE GRAPH <urn:e:new>")
except Exception as ex:
    problems.append("CREATE GRAPH <urn:e:new> raised %r" % (ex,))
ds2 = Dataset()
ds2.update("CREATE SILENT GRAPH <urn:e:new>")
if new not in {g.identifier for g in ds2.graphs()}:
    problems.append("after CREATE SILENT GRAPH <urn:e:new> graphs() = %s" % sorted(g.identifier for g in ds2.graphs()))
elif not bool(ds2.query("ASK { GRAPH <urn:e:new> { } }")):
    problems.append("created graph is not visible to GRAPH <urn:e:new> {}")

if problems:
    print("FAIL: " + "; ".join(problems))
    sys.exit(1)
print("PASS")
