"""Dataset.graphs(triple) / contexts(triple) must list exactly the graphs that hold the triple."""
import sys
import warnings

warnings.simplefilter("ignore")
from rdflib import Dataset, URIRef
from rdflib.graph import DATASET_DEFAULT_GRAPH_ID

s, p, o = URIRef("urn:e:s"), URIRef("urn:e:p"), URIRef("urn:e:o")
g1 = URIRef("urn:e:g1")

ds = Dataset()
ds.add((s, p, o, g1))  # the triple lives in g1 only; the default graph is empty

expected = {c for (_, _, _, c) in ds.quads((s, p, o))}  # {g1}
got = {g.identifier for g in ds.graphs((s, p, o))}
got_absent = {g.identifier for g in ds.graphs((s, p, URIRef("urn:e:nowhere")))}

problems = []
if got != expected:
    problems.append(
        "graphs((s,p,o)) = %s but quads((s,p,o)) says the triple is in %s"
        % (sorted(got), sorted(expected))
    )
if got_absent:
    problems.append(
        "graphs(<triple that is in no graph>) = %s, expected nothing" % sorted(got_absent)
    )
if (s, p, o) in ds.default_graph:
    problems.append("default graph unexpectedly holds the triple")

if problems:
    print("FAIL: " + "; ".join(problems))
    sys.exit(1)
print("PASS")
