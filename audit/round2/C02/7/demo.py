"""remove_context() given the graph's name must remove that graph (every other
ConjunctiveGraph/Dataset method accepts a graph name where a graph is expected),
or refuse the argument - not silently do nothing."""
import sys
import warnings

warnings.simplefilter("ignore")
from rdflib import ConjunctiveGraph, Dataset, URIRef

a, b, p = (URIRef("urn:e:" + n) for n in "abp")
g1 = URIRef("urn:e:g1")

problems = []
for cls in (ConjunctiveGraph, Dataset):
    cg = cls()
    cg.add((a, p, b, g1))
    try:
        cg.remove_context(g1)
    except Exception as ex:  # an explicit refusal would be acceptable
        continue
    if (a, p, b, g1) in cg:
        problems.append("%s.remove_context(<urn:e:g1>) returned normally but the graph still has %d triple(s)"
                        % (cls.__name__, len(cg.get_context(g1))))
    # sanity: the same call with a Graph does work
    cg.remove_context(cg.get_context(g1))
    assert (a, p, b, g1) not in cg

if problems:
    print("FAIL: " + "; ".join(problems))
    sys.exit(1)
print("PASS")
