"""With default_union=True, a quad membership test / triples() call that NAMES the default
graph must agree with quads() and with the default-graph view."""
import sys
import warnings

warnings.simplefilter("ignore")
from rdflib import Dataset, URIRef
from rdflib.graph import DATASET_DEFAULT_GRAPH_ID as DEFAULT

s, p, o = URIRef("urn:e:s"), URIRef("urn:e:p"), URIRef("urn:e:o")
g1 = URIRef("urn:e:g1")

ds = Dataset(default_union=True)
ds.add((s, p, o, g1))  # only in g1; the default graph itself is empty

in_quads = (s, p, o, DEFAULT) in set(ds.quads())
in_quads_pattern = bool(list(ds.quads((s, p, o, DEFAULT))))
in_view = (s, p, o) in ds.default_graph
member = (s, p, o, DEFAULT) in ds
via_context = bool(list(ds.triples((s, p, o), context=ds.default_graph)))
via_choices = bool(list(ds.triples_choices((s, p, [o]), context=ds.default_graph)))

# the merged view (no graph given) is of course allowed to contain the triple
assert (s, p, o) in ds

if member != in_quads or via_context != in_view:
    print(
        "FAIL: default graph is empty (quads(): %s, quads(pattern): %s, default_graph view: %s, "
        "triples_choices(context=default): %s) but `(s,p,o,DEFAULT) in ds` is %s and "
        "ds.triples((s,p,o), context=ds.default_graph) matches: %s"
        % (in_quads, in_quads_pattern, in_view, via_choices, member, via_context)
    )
    sys.exit(1)
print("PASS")
