"""A graph view of one dataset must stay a view on that dataset's store, whatever Graph
object was used as the context of a quad handed to Graph.addN."""
import sys
import warnings

warnings.simplefilter("ignore")
from rdflib import Dataset, URIRef

a, b, c, d, p = (URIRef("urn:e:" + x) for x in "abcdp")
g1 = URIRef("urn:e:g1")

src = Dataset()
src.add((a, p, b, g1))
src.add((c, p, d, g1))

dst = Dataset()
# copy ONE quad of src's g1 into dst's g1; the quad carries src's graph object as context
dst.get_context(g1).addN([(a, p, b, src.get_context(g1))])

problems = []
if set(dst.quads()) != {(a, p, b, g1)}:
    problems.append("quads() = %r" % (sorted(dst.quads()),))
for g in dst.graphs():
    if g.store is not dst.store:
        problems.append(
            "dst.graphs() yields graph <%s> bound to ANOTHER store; its content reads %d triples "
            "(dst.quads() has %d for it)"
            % (g.identifier, len(g), len(list(dst.quads((None, None, None, g.identifier)))))
        )

if problems:
    print("FAIL: " + "; ".join(problems))
    sys.exit(1)
print("PASS")
