"""len() of the merged view must be the number of triples the merged view contains."""
import sys
import warnings

warnings.simplefilter("ignore")
from rdflib import ConjunctiveGraph, Graph, URIRef
from rdflib.graph import ReadOnlyGraphAggregate

a, b, p = (URIRef("urn:e:" + n) for n in "abp")
g1, g2 = URIRef("urn:e:g1"), URIRef("urn:e:g2")

cg = ConjunctiveGraph()
cg.add((a, p, b, g1))
cg.add((a, p, b, g2))  # the same triple in two graphs
agg = ReadOnlyGraphAggregate([cg.get_context(g1), cg.get_context(g2)], store=cg.store)

n_iter = len(list(agg))
n_set = len(set(agg.triples((None, None, None))))
if not (len(agg) == n_iter == n_set == len(cg) == 1):
    print(
        "FAIL: aggregate of two graphs holding the same triple: len(agg)=%d, but it iterates "
        "%d triple(s) (ConjunctiveGraph over the same graphs: len=%d)" % (len(agg), n_iter, len(cg))
    )
    sys.exit(1)
print("PASS")
