"""FROM NAMED <g> for a graph the dataset has (but which has no triples) must put that
(empty) graph into the query dataset, exactly as it is there without a dataset clause."""
import sys
import warnings

warnings.simplefilter("ignore")
from rdflib import Dataset, URIRef

a, b, p = (URIRef("urn:e:" + n) for n in "abp")
empty, g1 = URIRef("urn:e:empty"), URIRef("urn:e:g1")

ds = Dataset()
ds.graph(empty)  # registered, no triples
ds.add((a, p, b, g1))

plain_names = {r[0] for r in ds.query("SELECT ?g { GRAPH ?g { } }")}
from_names = {
    r[0]
    for r in ds.query(
        "SELECT ?g FROM NAMED <urn:e:empty> FROM NAMED <urn:e:g1> { GRAPH ?g { } }"
    )
}
plain_ask = bool(ds.query("ASK { GRAPH <urn:e:empty> { } }"))
from_ask = bool(ds.query("ASK FROM NAMED <urn:e:empty> { GRAPH <urn:e:empty> { } }"))
unknown_ask = bool(ds.query("ASK { GRAPH <urn:e:unknown> { } }"))

assert plain_names == {empty, g1} and plain_ask and not unknown_ask  # baseline behaviour
if from_names != {empty, g1} or not from_ask:
    print(
        "FAIL: the empty graph <urn:e:empty> exists in the dataset (GRAPH ?g {} lists %s) but with "
        "FROM NAMED <urn:e:empty> it is missing: GRAPH ?g {} lists %s, ASK {GRAPH <urn:e:empty> {}} = %s"
        % (sorted(plain_names), sorted(from_names), from_ask)
    )
    sys.exit(1)
print("PASS")
