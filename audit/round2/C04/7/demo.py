"""CONSTRUCT: (a) an explicit empty template `CONSTRUCT { } WHERE {...}` is taken for the
short form `CONSTRUCT WHERE {...}` and returns the matched triples instead of the empty
graph; (b) the short form with a solution modifier or VALUES clause
(`CONSTRUCT WHERE { ?s :p ?o } LIMIT 1`, valid per grammar rule [10]) crashes.
"""
import sys
from rdflib import Graph

g = Graph().parse(data="@prefix : <http://e/> . :a :p 1 . :b :p 3 .", format="turtle")
P = "PREFIX : <http://e/> "
fails = []

def run(q):
    return sorted((str(s)[-1], int(o)) for s, p, o in g.query(P + q).graph)

# (a) empty template -> empty graph
try:
    got = run("CONSTRUCT { } WHERE { ?s :p ?o }")
    if got != []:
        fails.append("CONSTRUCT { } WHERE { ?s :p ?o } built %r, expected the empty graph" % got)
except Exception as e:  # noqa: BLE001
    fails.append("CONSTRUCT { } WHERE {...} raised %r" % e)

# (b) short form + solution modifiers: template = pattern, instantiated over the sliced solutions
for q, exp in [
    ("CONSTRUCT WHERE { ?s :p ?o } ORDER BY DESC(?o) LIMIT 1", [("b", 3)]),
    ("CONSTRUCT WHERE { ?s :p ?o } ORDER BY ?o", [("a", 1), ("b", 3)]),
    ("CONSTRUCT WHERE { ?s :p ?o } VALUES ?s { :a }", [("a", 1)]),
]:
    try:
        got = run(q)
        if got != exp:
            fails.append("%s built %r, expected %r" % (q, got, exp))
    except Exception as e:  # noqa: BLE001
        fails.append("%s raised %s: %s" % (q, type(e).__name__, e))

if fails:
    print("FAIL: " + "; ".join(fails))
    sys.exit(1)
print("PASS")
