"""A sub-SELECT with LIMIT / OFFSET as (part of) the right-hand side of OPTIONAL is evaluated
once per left-hand solution, with that solution's bindings pushed in, so LIMIT/OFFSET are
applied per left solution instead of to the sub-query's own solution sequence.

The algebra evaluates the sub-query on its own (bottom-up):
   LeftJoin( BGP(?x :p ?y), ToMultiSet(Slice(OrderBy(Project(BGP(?x :q ?z))))), true )

The same sub-query in a plain join (`?x :p ?y . { SELECT ... LIMIT 1 }`) is handled
correctly by the library (joins over a Slice are not evaluated lazily); only OPTIONAL is not.
"""
import sys
from rdflib import Graph

g = Graph().parse(
    data="@prefix : <http://e/> . :a :p 1 . :b :p 2 . :a :q 10 . :b :q 20 , 21 .",
    format="turtle",
)
P = "PREFIX : <http://e/> "

def rows(q):
    return sorted((str(r[0])[-1], None if r[1] is None else int(r[1])) for r in g.query(P + q))

fails = []

# sub-query alone: exactly one row (a, 10)
assert rows("SELECT ?x ?z WHERE { ?x :q ?z } ORDER BY ?z LIMIT 1") == [("a", 10)]
got = rows("SELECT ?x ?z WHERE { ?x :p ?y OPTIONAL { SELECT ?x ?z WHERE { ?x :q ?z } ORDER BY ?z LIMIT 1 } }")
exp = [("a", 10), ("b", None)]
if got != exp:
    fails.append("OPTIONAL {SELECT .. LIMIT 1}: got %r expected %r" % (got, exp))

# sub-query alone: rows (b,20) (a,10)  [21 skipped by OFFSET 1]
assert rows("SELECT ?x ?z WHERE { ?x :q ?z } ORDER BY DESC(?z) OFFSET 1") == [("a", 10), ("b", 20)]
got = rows("SELECT ?x ?z WHERE { ?x :p ?y OPTIONAL { SELECT ?x ?z WHERE { ?x :q ?z } ORDER BY DESC(?z) OFFSET 1 } }")
exp = [("a", 10), ("b", 20)]
if got != exp:
    fails.append("OPTIONAL {SELECT .. OFFSET 1}: got %r expected %r" % (got, exp))

if fails:
    print("FAIL: " + "; ".join(fails))
    sys.exit(1)
print("PASS")
