"""Joining a pattern with a grouped sub-SELECT gives different results depending on the
order of the two operands; with the sub-SELECT second, a solution appears for a key that
has no group.

   ?x :p ?y . { SELECT ?x (COUNT(?z) AS ?c) WHERE { ?x :q ?z } GROUP BY ?x }

The sub-query has two solutions (a,1) (b,2); Join with {(a,1) (b,2) (c,3)} on ?x has two.
"""
import sys
from rdflib import Graph

g = Graph().parse(
    data="@prefix : <http://e/> . :a :p 1 . :b :p 2 . :c :p 3 . :a :q 10 . :b :q 20 , 21 .",
    format="turtle",
)
P = "PREFIX : <http://e/> "
SUB = "{ SELECT ?x (COUNT(?z) AS ?c) WHERE { ?x :q ?z } GROUP BY ?x }"

def rows(q):
    return sorted((str(r[0])[-1], None if r[1] is None else int(r[1])) for r in g.query(P + q))

exp = [("a", 1), ("b", 2)]
assert rows("SELECT ?x ?c WHERE " + SUB) == exp
first = rows("SELECT ?x ?c WHERE { %s ?x :p ?y }" % SUB)
second = rows("SELECT ?x ?c WHERE { ?x :p ?y . %s }" % SUB)
if first != exp or second != exp:
    print("FAIL: sub-select first: %r ; sub-select second: %r ; expected both %r" % (first, second, exp))
    sys.exit(1)
print("PASS")
