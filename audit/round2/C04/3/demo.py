"""FILTER (NOT) EXISTS inside GRAPH is evaluated against the wrong graph for every solution
after the first one, when the solutions of the GRAPH pattern share a query context
(any non-lazy join inside the GRAPH block).

Inside `GRAPH :g { ... FILTER NOT EXISTS { ?w :flag ?x } }` the active graph for the EXISTS
pattern is :g (SPARQL 1.1 18.6: exists is evaluated against D(G), G the active graph).
:g holds no :flag triple, so NOT EXISTS is true for every solution; the default graph does
hold one.
"""
import sys
from rdflib import Dataset

ds = Dataset()
ds.parse(
    data="""
@prefix : <http://e/> .
:x :flag :y .
:g { :a :p :b . :c :q 1 , 2 , 3 . }
""",
    format="trig",
)
PFX = "PREFIX : <http://e/> "

def vals(q):
    return sorted(int(r[0]) for r in ds.query(PFX + q))

fails = []

# reference: without the filter there are three solutions
assert vals("SELECT ?v WHERE { GRAPH :g { ?s :p ?o . { ?z :q ?v . { ?z :q ?v } } } }") == [1, 2, 3]

q1 = "SELECT ?v WHERE { GRAPH :g { ?s :p ?o . { ?z :q ?v . { ?z :q ?v } } FILTER NOT EXISTS { ?w :flag ?x } } }"
got = vals(q1)
if got != [1, 2, 3]:
    fails.append("GRAPH :g {... FILTER NOT EXISTS} gives ?v=%r, expected [1, 2, 3]" % got)

q2 = "SELECT ?v WHERE { GRAPH ?g { ?s :p ?o . { SELECT DISTINCT ?v WHERE { ?z :q ?v } } FILTER EXISTS { ?s :p ?o } } }"
got = vals(q2)
if got != [1, 2, 3]:
    fails.append("GRAPH ?g {... FILTER EXISTS {?s :p ?o}} gives ?v=%r, expected [1, 2, 3]" % got)

if fails:
    print("FAIL: " + "; ".join(fails))
    sys.exit(1)
print("PASS")
