"""The graph pattern of FILTER (NOT) EXISTS never gets the algebra post-processing
(_vars / lazy annotation), so MINUS, nested FILTER, BIND and OPTIONAL-with-filter *inside*
an EXISTS pattern are evaluated wrongly.

SPARQL 1.1 18.6: exists(pattern) is true for mu iff eval(D(G), substitute(pattern, mu)) is
non-empty.  Each check below compares the library with the value obtained by doing that
substitution by hand.
"""
import sys
from rdflib import Graph

g = Graph().parse(data="@prefix : <http://e/> . :a :p :b . :b :p :c .", format="turtle")
PFX = "PREFIX : <http://e/> "

def subjects(q):
    return sorted(str(b["s"]).replace("http://e/", ":") for b in g.query(PFX + q).bindings)

fails = []

# 1. MINUS whose right side shares no variable with the left side removes nothing
#    ({:a :p ?z} MINUS {?x :p ?y} == {:a :p ?z}), so EXISTS is true for both ?s.
q = "SELECT ?s WHERE { ?s :p ?o FILTER EXISTS { ?s :p ?z MINUS { ?x :p ?y } } }"
by_hand = [s for s in (":a", ":b")
           if g.query(PFX + "ASK { %s :p ?z MINUS { ?x :p ?y } }" % s).askAnswer]
got = subjects(q)
if got != by_hand:
    fails.append("MINUS inside EXISTS: got %r, by substitution %r" % (got, by_hand))

# 2. a FILTER in a nested group of the EXISTS pattern that mentions a variable bound by
#    that very group (?s is in scope there with or without substitution)
q = "SELECT ?s WHERE { ?s :p ?o FILTER EXISTS { { ?s :p ?z FILTER(?s = :a) } UNION { ?s :nope ?z } } }"
by_hand = [s for s in (":a", ":b")
           if g.query(PFX + "ASK { { %s :p ?z FILTER(%s = :a) } UNION { %s :nope ?z } }" % (s, s, s)).askAnswer]
got = subjects(q)
if got != by_hand:
    fails.append("nested FILTER inside EXISTS: got %r, by substitution %r" % (got, by_hand))

# 3. BIND inside EXISTS reading a variable of its own group
q = "SELECT ?s WHERE { ?s :p ?o FILTER EXISTS { ?s :p ?z BIND(?s AS ?k) FILTER(?k = :a) } }"
by_hand = [s for s in (":a", ":b")
           if g.query(PFX + "ASK { %s :p ?z BIND(%s AS ?k) FILTER(?k = :a) }" % (s, s)).askAnswer]
got = subjects(q)
if got != by_hand:
    fails.append("BIND inside EXISTS: got %r, by substitution %r" % (got, by_hand))

if fails:
    print("FAIL: " + "; ".join(fails))
    sys.exit(1)
print("PASS")
