"""OPTIONAL whose right-hand group starts with a sub-SELECT returns solutions that match
no triple: the bindings of the left-hand side are lost while the rest of the group is
evaluated, and then written over the result.

  ?w :p ?x OPTIONAL { { SELECT ?z WHERE { ?z :q ?k } } ?w :r ?z }

algebra: LeftJoin( BGP(?w :p ?x), Join( ToMultiSet(Project(BGP(?z :q ?k), {z})), BGP(?w :r ?z) ), true )
"""
import sys
from rdflib import Graph

g = Graph().parse(
    data="""@prefix : <http://e/> .
:a :p 1 . :b :p 2 .
:a :r :z1 . :b :r :z2 .
:z1 :q 1 . :z2 :q 2 .
""",
    format="turtle",
)
q = """PREFIX : <http://e/>
SELECT ?w ?z WHERE { ?w :p ?x OPTIONAL { { SELECT ?z WHERE { ?z :q ?k } } ?w :r ?z } }"""
got = sorted((str(r[0])[-1], str(r[1])[-2:]) for r in g.query(q))

# bottom-up: right side = {(w=a,z=z1), (w=b,z=z2)}; left-joined on ?w
expected = [("a", "z1"), ("b", "z2")]

# every returned (?w, ?z) must at least satisfy the triple pattern ?w :r ?z
E = "http://e/"
from rdflib import URIRef
bogus = [(w, z) for w, z in got if (URIRef(E + w), URIRef(E + "r"), URIRef(E + z)) not in g]

if got != expected:
    print("FAIL: got %r, expected %r; solutions with no matching `?w :r ?z` triple: %r" % (got, expected, bogus))
    sys.exit(1)
print("PASS")
