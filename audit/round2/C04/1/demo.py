"""EXISTS / NOT EXISTS used in a SELECT expression (expr AS ?v) of a query or sub-SELECT.

`BIND(EXISTS {...} AS ?e)` works; the equivalent `SELECT (EXISTS {...} AS ?e)` must give the
same solutions (both are Extend(P, ?e, expr) in the algebra).
"""
import sys
from rdflib import Graph

g = Graph().parse(
    data="@prefix : <http://e/> . :a :p :b . :b :p :c .", format="turtle"
)

PFX = "PREFIX : <http://e/> "
q_bind = PFX + "SELECT ?s ?e WHERE { ?s :p ?o BIND(EXISTS { ?o :p ?z } AS ?e) }"
q_sel = PFX + "SELECT ?s (EXISTS { ?o :p ?z } AS ?e) WHERE { ?s :p ?o }"
q_sub = PFX + "SELECT ?s ?e WHERE { { SELECT ?s (EXISTS { ?o :p ?z } AS ?e) WHERE { ?s :p ?o } } }"

def rows(q):
    return sorted((str(r[0]), str(r[1])) for r in g.query(q))

expected = [("http://e/a", "true"), ("http://e/b", "false")]
assert rows(q_bind) == expected, "reference form changed"

for name, q in (("SELECT expression", q_sel), ("sub-SELECT expression", q_sub)):
    try:
        got = rows(q)
    except Exception as e:  # noqa: BLE001
        print("FAIL: EXISTS in a %s raises %s: %s" % (name, type(e).__name__, str(e)[:90]))
        sys.exit(1)
    if got != expected:
        print("FAIL: EXISTS in a %s gives %r, expected %r" % (name, got, expected))
        sys.exit(1)
print("PASS")
