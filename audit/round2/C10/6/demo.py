r"""INSERT DATA must store the triples the request text denotes.  In SPARQL a \uXXXX
escape has exactly four hex digits (\UXXXXXXXX has eight); the characters after it
are ordinary text even if they happen to be hex digits."""
import sys
from rdflib import Graph, Literal, URIRef

problems = []

# 1. e-acute followed by "decade": 'd','e','c','a' are hex digits
g = Graph()
try:
    g.update('INSERT DATA { <urn:s> <urn:p> "\\u00e9decade" }')
    got = set(g.objects())
    if got != {Literal("\u00e9decade")}:
        problems.append("stored %r" % got)
except Exception as e:  # noqa: BLE001
    problems.append('"\\u00e9decade" -> %s: %s' % (type(e).__name__, e))

# 2. silently the wrong text: U+0001 followed by "F600" becomes U+1F600
g = Graph()
try:
    g.update('INSERT DATA { <urn:s> <urn:p> "\\u0001F600" }')
    got = set(g.objects())
    if got != {Literal("\u0001F600")}:
        problems.append('"\\u0001F600" stored as %r instead of %r' % (got, "\u0001F600"))
except Exception as e:  # noqa: BLE001
    problems.append('"\\u0001F600" -> %s: %s' % (type(e).__name__, e))

if problems:
    print("FAIL " + " | ".join(problems))
    sys.exit(1)
print("PASS")
