"""An update request with no operations (grammar: Update ::= Prologue ( Update1 ... )? )
is a valid request that changes nothing; it must not fail."""
import sys
from rdflib import Graph, Dataset, URIRef

t = (URIRef("urn:s"), URIRef("urn:p"), URIRef("urn:o"))
problems = []
for kind in (Graph, Dataset):
    for req in ("", "PREFIX ex: <urn:ex:>", "# nothing to do\n"):
        g = kind()
        g.add(t)
        try:
            g.update(req)
        except Exception as e:  # noqa: BLE001
            problems.append("%s.update(%r) raised %s: %s" % (kind.__name__, req, type(e).__name__, e))
            continue
        if len(g) != 1:
            problems.append("%s.update(%r) changed the data" % (kind.__name__, req))
if problems:
    print("FAIL " + problems[0] + " (%d cases)" % len(problems))
    sys.exit(1)
print("PASS")
