"""USING <g> / USING NAMED <g> select graphs of the dataset (the Graph Store) for the
WHERE clause.  A graph the dataset does not have is an empty graph: the WHERE clause
finds nothing in it.  It must not be fetched from its IRI, and it must not fail."""
import os
import sys
import tempfile
import warnings

warnings.simplefilter("ignore")
from rdflib import Dataset, Graph, URIRef

S, P, O = URIRef("urn:s"), URIRef("urn:p"), URIRef("urn:o")
problems = []

# 1. a document outside the dataset decides what the update does
d = tempfile.mkdtemp()
path = os.path.join(d, "outside.ttl")
with open(path, "w") as f:
    f.write("<urn:s> <urn:p> <urn:o> .\n")
iri = "file://" + path
for kind in (Dataset, Graph):
    ds = kind()
    ds.add((S, P, O))  # the only triple of the dataset, in its default graph
    try:
        ds.update("DELETE { ?s ?p ?o } USING <%s> WHERE { ?s ?p ?o }" % iri)
    except Exception as e:  # noqa: BLE001
        problems.append("%s: USING <file> raised %s" % (kind.__name__, e))
    else:
        if len(ds) != 1:
            problems.append(
                "%s: USING <%s> (no such graph in the dataset) read the file from disk "
                "and the triple of the default graph was deleted" % (kind.__name__, iri)
            )

# 2. a missing graph that cannot be fetched makes the operation fail
ds = Dataset()
ds.add((S, P, O))
try:
    ds.update("INSERT { <urn:s> <urn:p> <urn:marker> } USING NAMED <urn:no-such-graph> WHERE { }")
    if (S, P, URIRef("urn:marker")) not in ds:
        problems.append("marker not inserted")
except Exception as e:  # noqa: BLE001
    problems.append("USING NAMED <urn:no-such-graph> raised: %s" % e)

if problems:
    print("FAIL " + " | ".join(problems))
    sys.exit(1)
print("PASS")
