"""SPARQL 1.1 Update 3.2.4/3.2.5: COPY and MOVE "return failure if the input graph does
not exist" (unless SILENT).  A Dataset records which graphs exist (graph-aware store),
so COPY/MOVE from a graph it does not have must fail and leave the target alone - it
must not report success after having emptied the target."""
import sys
import warnings

warnings.simplefilter("ignore")
from rdflib import Dataset, URIRef

t = (URIRef("urn:s"), URIRef("urn:p"), URIRef("urn:o"))
problems = []
for op in ("COPY", "MOVE"):
    ds = Dataset()
    ds.graph(URIRef("urn:g")).add(t)
    assert URIRef("urn:missing") not in [g.identifier for g in ds.graphs()]
    try:
        ds.update("%s <urn:missing> TO <urn:g>" % op)
        failed = False
    except Exception:  # noqa: BLE001
        failed = True
    left = len(ds.graph(URIRef("urn:g")))
    if not failed or left != 1:
        problems.append(
            "%s <urn:missing> TO <urn:g>: %s, <urn:g> has %d triple(s) left"
            % (op, "failed" if failed else "reported success", left)
        )
if problems:
    print("FAIL " + " | ".join(problems))
    sys.exit(1)
print("PASS")
