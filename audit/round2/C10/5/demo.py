"""Operations of a request run in order, each under the prologue in force at its
place in the request.  A BASE declared for a LATER operation must not change what an
EARLIER operation inserts."""
import sys
from rdflib import Graph, URIRef

g = Graph()
g.update(
    'BASE <http://first/>  INSERT { <urn:s> <urn:p> ?i } WHERE { BIND(IRI("x") AS ?i) } ;\n'
    "BASE <http://second/> INSERT DATA { <urn:s> <urn:q> <y> }"
)
got = set(g.objects(URIRef("urn:s"), URIRef("urn:p")))
want = {URIRef("http://first/x")}
if got != want:
    print(
        "FAIL operation 1 (BASE <http://first/>) evaluated IRI(\"x\") to %s: the BASE of "
        "operation 2 leaked backwards" % sorted(got)
    )
    sys.exit(1)
print("PASS")
