"""A PREFIX (or BASE) declared in an update request must stay in force for the
following operations of the same request; the namespaces bound on the graph
(initNs) / the base argument must not override it from the second operation on."""
import sys
from rdflib import Graph, URIRef
from rdflib.plugins.sparql.processor import processUpdate

problems = []

g = Graph()
g.bind("ex", "http://graph-binding/")
g.update(
    "PREFIX ex: <http://request/> "
    "INSERT DATA { ex:s1 ex:p ex:o } ; "
    "INSERT DATA { ex:s2 ex:p ex:o }"
)
want = {
    (URIRef("http://request/s1"), URIRef("http://request/p"), URIRef("http://request/o")),
    (URIRef("http://request/s2"), URIRef("http://request/p"), URIRef("http://request/o")),
}
if set(g) != want:
    problems.append(
        "PREFIX ex: of the request is replaced by the graph's own binding in the "
        "2nd operation: %s" % sorted(s for s, _, _ in g)
    )

g = Graph()
processUpdate(
    g,
    "BASE <http://request/> INSERT DATA { <s1> <p> <o> } ; INSERT DATA { <s2> <p> <o> }",
    base="http://argument/",
)
if URIRef("http://request/s2") not in set(g.subjects()):
    problems.append(
        "BASE of the request is replaced by the base argument in the 2nd operation: %s"
        % sorted(g.subjects())
    )

if problems:
    print("FAIL " + " | ".join(problems))
    sys.exit(1)
print("PASS")
