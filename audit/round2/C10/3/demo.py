"""Operations of one request run in order - for requests of any length.
A request of 100 simple operations must be executed, not die in the parser."""
import sys
from rdflib import Graph

n = 100
req = " ;\n".join("INSERT DATA { <urn:s%d> <urn:p> %d }" % (i, i) for i in range(n))
g = Graph()
try:
    g.update(req)
except RecursionError as e:
    print("FAIL a request of %d INSERT DATA operations raises RecursionError (%s)" % (n, e))
    sys.exit(1)
if len(g) != n:
    print("FAIL expected %d triples, got %d" % (n, len(g)))
    sys.exit(1)
print("PASS")
