"""A pattern remove whose pattern has no None in it (a REGEXTerm pattern of the
library's REGEXMatching store) is logged as if the pattern were the one triple
removed: rollback inserts the pattern as a triple and restores nothing."""
import sys
from rdflib import Graph, URIRef
from rdflib.plugins.stores.auditable import AuditableStore
from rdflib.plugins.stores.memory import Memory
from rdflib.plugins.stores.regexmatching import REGEXMatching, REGEXTerm

a, b, c, d = (URIRef("urn:" + x) for x in "abcd")
gid = URIRef("urn:g")
base = Memory()
g = Graph(base, gid)
g.add((a, b, c)).add((b, b, c)).add((d, b, c))
before = set(g)

t = Graph(AuditableStore(REGEXMatching(base)), gid)
t.remove((REGEXTerm("urn:[ab]"), b, c))  # removes (a b c) and (b b c)
assert set(g) == {(d, b, c)}, set(g)
t.rollback()
after = set(g)

if after != before:
    print(
        "FAIL rollback after a REGEXTerm pattern remove: missing %r, extra %r"
        % (sorted(before - after), sorted(after - before))
    )
    sys.exit(1)
print("PASS")
