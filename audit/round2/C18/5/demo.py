"""Rolling back the removal of a quoted statement (a triple of a QuotedGraph /
formula in the formula-aware Memory store) re-adds it as an asserted statement:
it is now visible in the conjunctive graph, where it was not before."""
import sys
from rdflib import Dataset, URIRef
from rdflib.graph import QuotedGraph
from rdflib.plugins.stores.auditable import AuditableStore
from rdflib.plugins.stores.memory import Memory

a, b, c = (URIRef("urn:" + x) for x in "abc")
f = URIRef("urn:formula")
base = Memory()
QuotedGraph(base, f).add((a, b, c))


def content(store):
    return (
        sorted(QuotedGraph(store, f)),  # the formula
        sorted(Dataset(store=store, default_union=True).triples((None, None, None))),  # asserted
    )


before = content(base)
t = QuotedGraph(AuditableStore(base), f)
t.remove((a, b, c))
assert content(base) == ([], [])
t.rollback()
after = content(base)
if after != before:
    print(
        "FAIL rollback turned a quoted statement into an asserted one: "
        "asserted triples before %r, after %r" % (before[1], after[1])
    )
    sys.exit(1)
print("PASS")
