"""Rolling back an add into a graph that did not exist leaves that graph
registered (empty) in the graph-aware underlying store."""
import sys
from rdflib import Dataset, Graph, URIRef
from rdflib.plugins.stores.auditable import AuditableStore
from rdflib.plugins.stores.memory import Memory

a, b, c = (URIRef("urn:" + x) for x in "abc")
base = Memory()
ds = Dataset(store=base)
ds.add((a, b, c, URIRef("urn:g0")))
before_graphs = sorted(g.identifier for g in ds.graphs())
before = ds.serialize(format="trig")

aud = AuditableStore(base)
Graph(aud, URIRef("urn:g1")).add((a, b, c))
aud.rollback()

after_graphs = sorted(g.identifier for g in ds.graphs())
if after_graphs != before_graphs:
    print("FAIL after rollback the store has graphs %s, had %s" % (after_graphs, before_graphs))
    sys.exit(1)
print("PASS")
