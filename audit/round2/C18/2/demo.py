"""remove() without a context on an auditable store over a store that is not
context aware raises AssertionError; the library itself issues that call when
an outer auditable store rolls back through an inner one."""
import sys
from rdflib import Graph, URIRef
from rdflib.plugins.stores.auditable import AuditableStore
from rdflib.plugins.stores.memory import SimpleMemory

a, b, c, d = (URIRef("urn:" + x) for x in "abcd")
problems = []

# 1. Store API, context defaulted (Store.remove(triple, context=None))
base = SimpleMemory()
Graph(base).add((a, b, c))
aud = AuditableStore(base)
try:
    aud.remove((a, None, None))
    aud.rollback()
    if set(Graph(base)) != {(a, b, c)}:
        problems.append("store-level remove+rollback lost data: %r" % (set(Graph(base)),))
except AssertionError as e:
    problems.append("AuditableStore(SimpleMemory()).remove((a, None, None)) raised AssertionError(%s)" % e)

# 2. Graph API only: nested transactions over a context-unaware store
base = SimpleMemory()
Graph(base).add((a, b, c))
inner = AuditableStore(base)
outer = AuditableStore(inner)
g = Graph(outer)
g.add((a, b, d))
try:
    g.rollback()
except AssertionError as e:
    problems.append("rollback of the outer wrapper raised AssertionError(%s)" % e)
if set(Graph(base)) != {(a, b, c)}:
    problems.append("after outer rollback the store holds %r" % (sorted(Graph(base)),))

if problems:
    print("FAIL " + "; ".join(problems))
    sys.exit(1)
print("PASS")
