"""A Dataset cannot be wrapped in the auditable store at all."""
import sys
from rdflib import Dataset, URIRef
from rdflib.plugins.stores.auditable import AuditableStore
from rdflib.plugins.stores.memory import Memory

a, b, c, d = (URIRef("urn:" + x) for x in "abcd")
g1, g2 = URIRef("urn:g1"), URIRef("urn:g2")

base = Memory()
plain = Dataset(store=base)
plain.add((a, b, c, g1))
before = set(plain.quads((None, None, None, None)))

try:
    ds = Dataset(store=AuditableStore(base))  # graph-aware store wrapped
    ds.add((a, b, d, g1))
    ds.add((a, b, d, g2))
    ds.add((a, b, d))
    ds.remove((a, b, c, g1))
    ds.rollback()
except Exception as e:
    print("FAIL Dataset over AuditableStore(Memory()) is rejected: %r" % (e,))
    sys.exit(1)
after = set(plain.quads((None, None, None, None)))
if after != before:
    print("FAIL rollback did not restore the dataset: %r" % (after ^ before,))
    sys.exit(1)
print("PASS")
