"""pretty-xml round trip of an rdf:XMLLiteral that uses a namespace prefix on an
attribute: the RDF/XML reader of parseType="Literal" content drops the xmlns
declaration of a prefix that is first used on an attribute."""
import logging
import sys

logging.disable(logging.CRITICAL)  # (rdflib logs a traceback for the broken literal it reads back)
from rdflib import Graph, URIRef, Literal, RDF

S, P = URIRef("http://e/s"), URIRef("http://e/p")
problems = []
for lex in ('<a xmlns:q="http://y/" q:c="1"/>', '<a xmlns:q="http://y/" q:c="1"><q:b/></a>'):
    g = Graph()
    lit = Literal(lex, datatype=RDF.XMLLiteral)
    g.add((S, P, lit))
    data = g.serialize(format="pretty-xml")
    back = Graph().parse(data=data, format="xml")
    got = [str(x) for x in back.objects(S, P)]
    if not (len(got) == 1 and 'xmlns:q="http://y/"' in got[0]):
        problems.append("%r read back as %r" % (lex, got))

if problems:
    print("FAIL: namespace declaration of the XMLLiteral lost (literal is not even namespace-well-formed any more): " + "; ".join(problems))
    sys.exit(1)
print("PASS")
