"""Turtle / long Turtle / N3: doList() walks past rdf:nil when rdf:nil itself has
rdf:first / rdf:rest triples: extra list members are invented, and with
`rdf:nil rdf:rest rdf:nil` serialisation never terminates."""
import signal, sys
from rdflib import Graph, URIRef, BNode, Literal, RDF
from rdflib.compare import isomorphic

S, P = URIRef("http://e/s"), URIRef("http://e/p")


def graph(extra):
    g = Graph()
    a, b = BNode("a"), BNode("b")
    g.add((S, P, a))
    g.add((a, RDF.first, Literal("x")))
    g.add((a, RDF.rest, b))
    g.add((b, RDF.first, Literal("y")))
    g.add((b, RDF.rest, RDF.nil))
    for t in extra:
        g.add(t)
    return g


class Hang(Exception):
    pass


def on_alarm(*_):
    raise Hang()


signal.signal(signal.SIGALRM, on_alarm)
problems = []
cases = {
    "rdf:nil rdf:first 'ghost'": [(RDF.nil, RDF.first, Literal("ghost"))],
    "rdf:nil rdf:rest rdf:nil": [(RDF.nil, RDF.rest, RDF.nil)],
}
for name, extra in cases.items():
    g = graph(extra)
    for fmt, pfmt in (("turtle", "turtle"), ("longturtle", "turtle"), ("n3", "n3")):
        signal.alarm(5)
        try:
            data = g.serialize(format=fmt)
            back = Graph().parse(data=data, format=pfmt)
            if not (len(back) == len(g) and isomorphic(g, back)):
                problems.append("%s / %s: graph read back differs (%d -> %d triples)" % (name, fmt, len(g), len(back)))
        except Hang:
            problems.append("%s / %s: serialize() does not terminate" % (name, fmt))
        finally:
            signal.alarm(0)

if problems:
    print("FAIL: " + "; ".join(problems))
    sys.exit(1)
print("PASS")
