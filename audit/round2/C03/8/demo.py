"""pretty-xml with the default prefix "" bound to the RDF namespace: rdf:datatype,
rdf:nodeID etc. are written as unprefixed attributes (datatype="...",
nodeID="..."), which are in no namespace and are read as property attributes."""
import sys
from rdflib import Graph, URIRef, BNode, Literal, RDF, XSD
from rdflib.compare import isomorphic

S, T, P, Q = URIRef("http://e/s"), URIRef("http://e/t"), URIRef("http://e/p"), URIRef("http://e/q")
g = Graph()
g.bind("", str(RDF))          # e.g. taken over from a document that says <RDF xmlns="...rdf-syntax-ns#">
b = BNode("shared")
g.add((S, P, Literal("1", datatype=XSD.byte)))
g.add((S, Q, b))
g.add((T, Q, b))
g.add((b, P, Literal("x")))

problems = []
for fmt in ("xml", "pretty-xml"):
    data = g.serialize(format=fmt)
    try:
        back = Graph().parse(data=data, format="xml")
    except Exception as e:  # noqa
        problems.append("%s: output does not parse: %s" % (fmt, e))
        continue
    if not (len(back) == len(g) and isomorphic(g, back)):
        problems.append("%s: %d triples written, read back as %s" % (fmt, len(g), sorted((str(s), str(p), o.n3()) for s, p, o in back)))

if problems:
    print("FAIL: " + "; ".join(problems))
    sys.exit(1)
print("PASS")
