"""Turtle / long Turtle / N3: isValidList() accepts a list one of whose cells has
already been written as a subject (the serializer entered the structure at that
cell), so the cell is written twice and a blank node that was inlined as [ ... ]
is referenced by a label that does not exist in the document."""
import sys
from rdflib import Graph, URIRef, BNode, Literal, RDF
from rdflib.compare import isomorphic

P = URIRef("http://e/p")
# x --p--> h ;  h = ( 1  x )  i.e. the list h has the node x as its second member
# cells: h (first 1, rest c), c (first x, rest nil)
c, h, x = BNode("a_cell2"), BNode("b_head"), BNode("c_x")  # ids fix the order subjects are visited in
g = Graph()
g.add((x, P, h))
g.add((h, RDF.first, Literal(1)))
g.add((h, RDF.rest, c))
g.add((c, RDF.first, x))
g.add((c, RDF.rest, RDF.nil))

problems = []
for fmt, pfmt in (("turtle", "turtle"), ("longturtle", "turtle"), ("n3", "n3")):
    data = g.serialize(format=fmt)
    back = Graph().parse(data=data, format=pfmt)
    if not (len(back) == len(g) and isomorphic(g, back)):
        problems.append("%s: %d triples written, %d read back, not isomorphic" % (fmt, len(g), len(back)))

if problems:
    print("FAIL: list whose cell was already written as a subject: " + "; ".join(problems))
    sys.exit(1)
print("PASS")
