"""JSON-LD with a context: a string literal that is a member of an RDF list is
written as a bare JSON string under a term coerced to @id / @vocab, and is read
back as an IRI."""
import sys
from rdflib import Graph, URIRef, BNode, Literal, RDF
from rdflib.compare import isomorphic

S, Q = URIRef("http://e/s"), URIRef("http://e/q")
g = Graph()
l1 = BNode("L")
g.add((S, Q, l1))
g.add((l1, RDF.first, Literal("x")))
g.add((l1, RDF.rest, RDF.nil))

problems = []
for ctx in (
    {"q": {"@id": "http://e/q", "@type": "@id", "@container": "@list"}},
    {"q": {"@id": "http://e/q", "@type": "@vocab", "@container": "@list"}},
    {"q": {"@id": "http://e/q", "@type": "@vocab"}},
):
    data = g.serialize(format="json-ld", context=ctx)
    back = Graph().parse(data=data, format="json-ld", publicID="http://base/")
    members = sorted(back.objects(None, RDF.first))
    if not (len(back) == len(g) and isomorphic(g, back) and members == [Literal("x")]):
        problems.append("%s -> list member read back as %r" % (ctx["q"], members))

if problems:
    print("FAIL: literal list member turned into an IRI: " + "; ".join(problems))
    sys.exit(1)
print("PASS")
