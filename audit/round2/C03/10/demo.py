"""Turtle / long Turtle / N3 write whatever prefix is bound in the namespace
manager into @prefix / PREFIX and prefixed names, also when it is not a valid
Turtle prefix (PN_PREFIX): e.g. 'a.' - a perfectly valid XML namespace prefix
that the RDF/XML parser takes over from a document - or '1a'."""
import sys
from rdflib import Graph
from rdflib.compare import isomorphic

rdfxml = """<rdf:RDF xmlns:rdf="http://www.w3.org/1999/02/22-rdf-syntax-ns#" xmlns:v1.="http://e/v1/">
  <rdf:Description rdf:about="http://e/s"><v1.:name>x</v1.:name></rdf:Description>
</rdf:RDF>"""
g = Graph().parse(data=rdfxml, format="xml")       # binds the prefix 'v1.' (an NCName)
g2 = Graph().parse(data=rdfxml.replace("v1.", "v"), format="xml")
g2.bind("1a", "http://e/v1/")                      # a prefix set through the API

problems = []
for name, graph in (("prefix 'v1.' from RDF/XML", g), ("prefix '1a'", g2)):
    for fmt, pfmt in (("turtle", "turtle"), ("longturtle", "turtle"), ("n3", "n3")):
        data = graph.serialize(format=fmt)
        try:
            back = Graph().parse(data=data, format=pfmt)
        except Exception as e:  # noqa
            problems.append("%s / %s: output does not parse (%s)" % (name, fmt, type(e).__name__))
            continue
        if not isomorphic(graph, back):
            problems.append("%s / %s: graph differs" % (name, fmt))

if problems:
    print("FAIL: " + "; ".join(problems))
    sys.exit(1)
print("PASS")
