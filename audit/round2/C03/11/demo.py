"""JSON-LD auto_compact=True with the prefix '_' bound: IRIs are compacted to
'_:name', which is a blank node identifier."""
import sys
from rdflib import Graph, URIRef

g = Graph()
g.bind("_", "http://e/")
g.add((URIRef("http://e/s"), URIRef("http://e/p"), URIRef("http://e/o")))
data = g.serialize(format="json-ld", auto_compact=True)
back = Graph().parse(data=data, format="json-ld")
if set(back) == set(g):
    print("PASS")
else:
    print("FAIL: <http://e/s> <http://e/p> <http://e/o> read back as %s" % sorted(back))
    sys.exit(1)
