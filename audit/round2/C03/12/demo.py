"""JSON-LD with a context that has a default @language and a term that resets it
("@language": null): a literal in the default language is written as a bare
string under that term and is read back without its language tag."""
import sys
from rdflib import Graph, URIRef, Literal

S, Q = URIRef("http://e/s"), URIRef("http://e/q")
g = Graph()
g.add((S, Q, Literal("x", lang="de")))
ctx = {"@language": "de", "q": {"@id": "http://e/q", "@language": None}}
data = g.serialize(format="json-ld", context=ctx)
back = Graph().parse(data=data, format="json-ld")
got = [o.n3() for o in back.objects(S, Q)]
if got == ['"x"@de']:
    print("PASS")
else:
    print('FAIL: "x"@de read back as %s from %s' % (got, " ".join(data.split())))
    sys.exit(1)
