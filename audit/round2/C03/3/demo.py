"""JSON-LD with a context: the value of a term coerced to @id is an RDF list ->
only the string "_:L" is written, the list itself (all rdf:first / rdf:rest
triples) is silently dropped."""
import sys
from rdflib import Graph, URIRef, BNode, Literal, RDF
from rdflib.compare import isomorphic

S, P = URIRef("http://e/s"), URIRef("http://e/p")
g = Graph()
l1, l2 = BNode("L"), BNode("L2")
g.add((S, P, l1))
g.add((l1, RDF.first, Literal("x")))
g.add((l1, RDF.rest, l2))
g.add((l2, RDF.first, Literal("y")))
g.add((l2, RDF.rest, RDF.nil))

ctx = {"p": {"@id": "http://e/p", "@type": "@id"}}
data = g.serialize(format="json-ld", context=ctx)
back = Graph().parse(data=data, format="json-ld")
if len(back) == len(g) and isomorphic(g, back):
    print("PASS")
else:
    print("FAIL: list value of an @id-coerced term is dropped: %d triples written, %d read back: %s"
          % (len(g), len(back), " ".join(data.split())))
    sys.exit(1)
