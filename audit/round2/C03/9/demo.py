"""RDF/XML and pretty RDF/XML with a base: an absolute IRI with an empty query
component (<http://e/doc?>) loses its '?' on the way back, because the reader
passes every (also absolute) IRI through urllib's urljoin when a base of the same
scheme is in force."""
import sys
from rdflib import Graph, URIRef

P = URIRef("http://e/p")
problems = []
for iri in ("http://e/doc?", "http://e/doc?#frag"):
    u = URIRef(iri)
    g = Graph()
    g.add((u, P, u))
    for fmt in ("xml", "pretty-xml", "turtle"):   # turtle for comparison: correct
        data = g.serialize(format=fmt, base="http://example.org/")
        back = Graph().parse(data=data, format="xml" if "xml" in fmt else fmt)
        if set(back) != set(g):
            problems.append("%s <%s> read back as <%s>" % (fmt, iri, "> <".join(str(x) for x in list(back)[0])))

if problems:
    print("FAIL: " + "; ".join(problems))
    sys.exit(1)
print("PASS")
