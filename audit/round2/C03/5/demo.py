"""JSON-LD with @vocab: an IRI below the vocabulary whose remainder contains ':'
(or starts with '@', or is empty) is still written vocabulary-relative, and the
remainder is read back as an absolute IRI / compact IRI / keyword."""
import sys
from rdflib import Graph, URIRef, Literal, RDF

S, P, O = URIRef("http://e/s"), URIRef("http://e/p"), URIRef("http://e/o")
ctx = {"@vocab": "http://e/"}
problems = []
for iri in ("http://e/taxon:9606", "http://e/@foo", "http://e/"):
    u = URIRef(iri)
    for what, triple in (("predicate", (S, u, O)), ("rdf:type value", (S, RDF.type, u)), ("datatype", (S, P, Literal("v", datatype=u)))):
        g = Graph()
        g.add(triple)
        data = g.serialize(format="json-ld", context=ctx)
        back = Graph().parse(data=data, format="json-ld")
        if set(back) != set(g) or [o.datatype for o in back.objects() if isinstance(o, Literal)] != [o.datatype for o in g.objects() if isinstance(o, Literal)]:
            problems.append("<%s> as %s read back as %s" % (iri, what, [tuple(str(x) for x in t) + ((str(t[2].datatype),) if isinstance(t[2], Literal) else ()) for t in back]))

if problems:
    print("FAIL: @vocab-relative form used where it does not read back (%d cases), e.g. %s" % (len(problems), problems[0]))
    sys.exit(1)
print("PASS")
