"""pretty-xml: an rdf:XMLLiteral is copied raw into parseType="Literal" content;
when the graph has a default namespace bound (prefix ""), the un-namespaced
elements of the literal fall into that default namespace."""
import sys
from rdflib import Graph, URIRef, Literal, RDF

S, P = URIRef("http://e/s"), URIRef("http://e/p")
g = Graph()
g.bind("", "http://e/")
lit = Literal('<a b="1">t</a>', datatype=RDF.XMLLiteral)
g.add((S, P, lit))

data = g.serialize(format="pretty-xml")
back = Graph().parse(data=data, format="xml")
got = list(back.objects(S, P))
if len(got) == 1 and str(got[0]) == str(lit) and got[0].datatype == RDF.XMLLiteral:
    print("PASS")
else:
    print("FAIL: XMLLiteral %r read back as %r (default namespace of the document leaked into the literal)"
          % (str(lit), [str(x) for x in got]))
    sys.exit(1)
