"""(expr AS ?v) in the SELECT clause and BIND(expr AS ?v) at the end of the
pattern are the same algebra (Extend), but EXISTS only works in the latter:
in a SELECT expression, ORDER BY or HAVING its graph pattern is never
translated and evaluation raises."""
import sys
from collections import Counter

from rdflib import Graph

g = Graph().parse(
    data="""
@prefix : <http://ex/> .
:a :p :b , :c .
:b :p :c ; :r "x" .
""",
    format="turtle",
)
P = "PREFIX : <http://ex/> "


def ms(q):
    try:
        return Counter(
            tuple(sorted((str(k), v.n3()) for k, v in row.items()))
            for row in g.query(P + q).bindings
        )
    except Exception as e:  # noqa
        return "raised %s: %s" % (type(e).__name__, str(e)[:60])


pairs = [
    ("SELECT ?s ?e { ?s :p ?o BIND(EXISTS { ?s :r ?x } AS ?e) }",
     "SELECT ?s (EXISTS { ?s :r ?x } AS ?e) { ?s :p ?o }"),
    ("SELECT ?s ?e { ?s :p ?o BIND(IF(NOT EXISTS { ?s :r ?x }, 1, 0) AS ?e) }",
     "SELECT ?s (IF(NOT EXISTS { ?s :r ?x }, 1, 0) AS ?e) { ?s :p ?o }"),
    ("SELECT ?s ?o { ?s :p ?o BIND(EXISTS { ?s :r ?x } AS ?e) } ORDER BY ?e ?s ?o",
     "SELECT ?s ?o { ?s :p ?o } ORDER BY (EXISTS { ?s :r ?x }) ?s ?o"),
    ("SELECT ?s { ?s :p ?o FILTER EXISTS { ?s :r ?x } } GROUP BY ?s",
     "SELECT ?s { ?s :p ?o } GROUP BY ?s HAVING (EXISTS { ?s :r ?x })"),
]
bad = []
for a, b in pairs:
    ra, rb = ms(a), ms(b)
    if ra != rb:
        bad.append((b, rb))
if bad:
    print("FAIL: %d equivalent spellings differ, e.g. %r -> %s" % (len(bad), bad[0][0], bad[0][1]))
    sys.exit(1)
print("PASS")
