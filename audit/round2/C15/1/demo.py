"""Swapping the operands of a join changes the answers when one operand is a
sub-select with GROUP BY whose grouping variable is unbound in some rows."""
import sys
from collections import Counter

from rdflib import Graph

g = Graph().parse(
    data="""
@prefix : <http://ex/> .
:s1 :p :v .
:x1 :r :v .
:x2 :q 2 .
:x3 :q 3 .
""",
    format="turtle",
)

A = "{ ?s :p ?o }"
# groups: (?o = :v, ?c = 1) and (?o unbound, ?c = 2)
B = "{ SELECT ?o (COUNT(?x) AS ?c) { { ?x :r ?o } UNION { ?x :q ?y } } GROUP BY ?o }"
P = "PREFIX : <http://ex/> "


def ms(q):
    return Counter(
        tuple(sorted((str(k), v.n3()) for k, v in row.items()))
        for row in g.query(P + q).bindings
    )


ab = ms("SELECT ?s ?o ?c { %s %s }" % (A, B))
ba = ms("SELECT ?s ?o ?c { %s %s }" % (B, A))
# Join(A, B): {s1, v} is compatible with both groups -> two rows, c=1 and c=2
expected = Counter(
    {
        (("c", '"%d"^^<http://www.w3.org/2001/XMLSchema#integer>' % n), ("o", "<http://ex/v>"), ("s", "<http://ex/s1>")): 1
        for n in (1, 2)
    }
)
if ab != ba or ab != expected:
    print("FAIL: Join(A,B) and Join(B,A) differ: A,B -> %s ; B,A -> %s" % (sorted(ab.items()), sorted(ba.items())))
    sys.exit(1)
print("PASS")
