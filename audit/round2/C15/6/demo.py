"""A GRAPH pattern loses solutions when the triple patterns inside it are
already fully bound (by a VALUES / join operand evaluated first): evalGraph
resets the active graph on a context object that the still-running BGP
generator goes on using.  Swapping the join operands changes the answer."""
import sys
import warnings
from collections import Counter

warnings.simplefilter("ignore")
from rdflib import Dataset, Graph, URIRef  # noqa: E402

EX = "http://ex/"
a, b, c, p, q, r, g1 = (URIRef(EX + x) for x in ("a", "b", "c", "p", "q", "r", "g1"))
ds = Dataset()
for t in ((a, p, b), (a, q, b), (a, r, c)):
    ds.graph(g1).add(t)
plain = Graph()
for t in ds.graph(g1):
    plain.add(t)

P = "PREFIX : <http://ex/> "


def ms(graph, query):
    return Counter(
        tuple(sorted((str(k), v.n3()) for k, v in row.items()))
        for row in graph.query(P + query).bindings
    )


A = "{ VALUES (?s ?o ?z) { (:a :b :c) } }"
B = "{ GRAPH :g1 { ?s (:p|:q) ?o . ?s :r ?z } }"
ab = ms(ds, "SELECT * { %s %s }" % (A, B))
ba = ms(ds, "SELECT * { %s %s }" % (B, A))
# :a (:p|:q) :b has two solutions (one per alternative), :a :r :c one
n_ds = ms(ds, "SELECT (COUNT(*) AS ?n) { GRAPH :g1 { :a (:p|:q) :b . :a :r :c } }")
n_plain = ms(plain, "SELECT (COUNT(*) AS ?n) { :a (:p|:q) :b . :a :r :c }")
if ab != ba or n_ds != n_plain:
    print("FAIL: Join(A,B) has %d solution(s), Join(B,A) has %d; COUNT inside GRAPH :g1 = %s, over the graph itself = %s"
          % (sum(ab.values()), sum(ba.values()), list(n_ds)[0][0][1], list(n_plain)[0][0][1]))
    sys.exit(1)
print("PASS")
