"""The same named graphs held in a ConjunctiveGraph/Dataset and as a
ReadOnlyGraphAggregate answer GRAPH patterns differently: over the aggregate
GRAPH ?g {...} and GRAPH <name> {...} silently match nothing."""
import sys
import warnings
from collections import Counter

warnings.simplefilter("ignore")
from rdflib import ConjunctiveGraph, Dataset, Graph, URIRef  # noqa: E402
from rdflib.graph import ReadOnlyGraphAggregate  # noqa: E402

EX = "http://ex/"
a, b, c, p = (URIRef(EX + x) for x in "abcp")
g1 = Graph(identifier=URIRef(EX + "g1"))
g2 = Graph(identifier=URIRef(EX + "g2"))
g1.add((a, p, b))
g2.add((b, p, c))

agg = ReadOnlyGraphAggregate([g1, g2])
ds = Dataset(default_union=True)
cg = ConjunctiveGraph()
for g in (g1, g2):
    for t in g:
        ds.graph(g.identifier).add(t)
        cg.get_context(g.identifier).add(t)


def ms(graph, q):
    return Counter(
        tuple(sorted((str(k), v.n3()) for k, v in row.items()))
        for row in graph.query(q).bindings
    )


bad = []
for q in (
    "SELECT * { ?s ?p ?o }",  # sanity: the union agrees
    "SELECT ?g ?s { GRAPH ?g { ?s ?p ?o } }",
    "SELECT ?s { GRAPH <http://ex/g1> { ?s ?p ?o } }",
    "SELECT ?g (COUNT(*) AS ?n) { GRAPH ?g { ?s ?p ?o } } GROUP BY ?g",
    "SELECT ?s ?o2 { ?s ?p ?o . GRAPH ?g { ?o ?p2 ?o2 } }",
):
    ref = ms(cg, q)
    assert ref == ms(ds, q)
    got = ms(agg, q)
    if got != ref:
        bad.append((q, sorted(got.items()), sorted(ref.items())))
# the aggregate itself reports the member graphs as the contexts of its quads
assert {ctx.identifier for _, _, _, ctx in agg.quads((None, None, None))} == {g1.identifier, g2.identifier}
if bad:
    print("FAIL: %d GRAPH queries differ over the aggregate, e.g. %s -> %s, expected %s" % ((len(bad),) + bad[0]))
    sys.exit(1)
print("PASS")
