"""A relative IRI in a BASE declaration is not resolved against the base in
effect (an earlier BASE, or the base= argument), so the same IRI spelled
through it is a different (relative!) term and the query finds nothing."""
import sys

from rdflib import Graph, URIRef
from rdflib.plugins.sparql import prepareQuery

g = Graph()
g.add((URIRef("http://ex/a"), URIRef("http://ex/p"), URIRef("http://ex/b")))


def rows(q, **kw):
    return sorted(tuple(r) for r in g.query(q, **kw))


ref = rows("SELECT ?s ?o { ?s <http://ex/p> ?o }")
variants = {
    "BASE <http://ex/dir/> + <../p>": rows("BASE <http://ex/dir/> SELECT ?s ?o { ?s <../p> ?o }"),
    "BASE <http://ex/dir/> BASE <../> + <p>": rows("BASE <http://ex/dir/> BASE <../> SELECT ?s ?o { ?s <p> ?o }"),
    "base='http://ex/dir/' BASE <../> + <p>": rows("BASE <../> SELECT ?s ?o { ?s <p> ?o }", base="http://ex/dir/"),
    "prepareQuery(base=...) BASE <../> + <p>": rows(prepareQuery("BASE <../> SELECT ?s ?o { ?s <p> ?o }", base="http://ex/dir/")),
    "BASE <http://ex/dir/> BASE <../> PREFIX e: <> + e:p": rows("BASE <http://ex/dir/> BASE <../> PREFIX e: <> SELECT ?s ?o { ?s e:p ?o }"),
}
bad = [k for k, v in variants.items() if v != ref]
# the Turtle parser of the same library resolves a relative @base
t = Graph().parse(data="@base <http://ex/dir/> . @base <../> . <a> <p> <b> .", format="turtle")
assert set(t) == set(g)
if bad:
    pq = prepareQuery("BASE <http://ex/dir/> BASE <../> SELECT ?s ?o { ?s <p> ?o }")
    print("FAIL: relative BASE is not resolved (predicate became %r); differing spellings: %s" % (pq.algebra.p.p.triples[0][1], bad))
    sys.exit(1)
print("PASS")
