"""The same basic graph pattern of 120 triple patterns is answered when the
patterns are written with ';' or ',' or as separate groups, but raises
RecursionError in the parser when they are written one per line with '.'."""
import sys
from collections import Counter

from rdflib import Graph, URIRef

g = Graph()
g.add((URIRef("http://ex/a"), URIRef("http://ex/p"), URIRef("http://ex/b")))
N = 120
P = "PREFIX : <http://ex/> SELECT * WHERE { "


def ms(q):
    try:
        return Counter(
            tuple(sorted((str(k), v.n3()) for k, v in row.items()))
            for row in g.query(q).bindings
        )
    except RecursionError:
        return "RecursionError"


semis = ms(P + ":a " + " ; ".join(":p ?o%d" % i for i in range(N)) + " }")
commas = ms(P + ":a :p " + " , ".join("?o%d" % i for i in range(N)) + " }")
groups = ms(P + " ".join("{ :a :p ?o%d }" % i for i in range(N)) + " }")
dots = ms(P + " . ".join(":a :p ?o%d" % i for i in range(N)) + " }")
try:
    cons = len(g.query("PREFIX : <http://ex/> CONSTRUCT { " + " . ".join(":a :p ?o%d" % i for i in range(N)) + " } WHERE { :a :p ?o0 }").graph)
except RecursionError:
    cons = "RecursionError"
assert semis == commas == groups and len(semis) == 1
if dots != semis or cons == "RecursionError":
    print("FAIL: %d '.'-separated triple patterns -> %s (pattern), %s (CONSTRUCT template); "
          "the ';' / ',' / '{}{}' spellings give 1 solution" % (N, dots if isinstance(dots, str) else "other", cons))
    sys.exit(1)
print("PASS")
