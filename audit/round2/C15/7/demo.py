"""NOW() must be one value per query execution.  Each solution carries its own
cloned QueryContext with its own clock, so the value depends on where the
BIND is written: swapping the operands of a join changes the number of
DISTINCT rows."""
import sys

from rdflib import Graph, Literal, URIRef

g = Graph()
for i in range(300):
    g.add((URIRef("http://ex/s%d" % i), URIRef("http://ex/p"), Literal(i)))

P = "PREFIX : <http://ex/> "
A = "{ BIND(NOW() AS ?n) }"
B = "{ ?s :p ?o }"
ab = len(g.query(P + "SELECT DISTINCT ?n { %s %s }" % (A, B)).bindings)
ba = len(g.query(P + "SELECT DISTINCT ?n { %s %s }" % (B, A)).bindings)
sel = len(g.query(P + "SELECT DISTINCT (NOW() AS ?n) { ?s :p ?o }").bindings)
if not (ab == ba == sel == 1):
    print("FAIL: distinct NOW() values in one execution: Join(A,B)=%d, Join(B,A)=%d, SELECT (NOW() AS ?n)=%d (all must be 1)" % (ab, ba, sel))
    sys.exit(1)
print("PASS")
