"""A valid xsd:duration / xsd:yearMonthDuration lexical form with a long
year or month count must give a literal (not an exception), and normalisation
must keep the value."""
import logging
import re
import sys
import warnings

logging.disable(logging.CRITICAL)
warnings.simplefilter("ignore")

from rdflib import XSD, Literal


def months_of(lexical):
    m = re.fullmatch(r"(-?)P(?:([0-9]+)Y)?(?:([0-9]+)M)?", lexical)
    assert m, lexical
    total = int(m.group(2) or 0) * 12 + int(m.group(3) or 0)
    return -total if m.group(1) else total


problems = []
for lex in [
    "P1234567890123456789012345678Y5M",  # 28 digits
    "P12345678901234567890123456789Y",  # 29 digits
    "P99999999999999999999999999999M",
]:
    for dt in (XSD.duration, XSD.yearMonthDuration):
        try:
            lit = Literal(lex, datatype=dt)
        except Exception as e:
            problems.append(f"Literal({lex!r}, {dt.fragment}) raises {type(e).__name__}")
            continue
        if months_of(str(lit)) != months_of(lex):
            problems.append(f"{lex} normalised to {lit} (another value)")

if problems:
    print("FAIL " + "; ".join(problems))
    sys.exit(1)
print("PASS")
