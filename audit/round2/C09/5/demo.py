"""The zero xsd:yearMonthDuration must be written P0M (or P0Y): "P0D" is not
in the lexical space of that datatype. This holds for a zero Duration object
as for a zero timedelta (which was repaired)."""
import logging
import re
import sys
import warnings
from datetime import timedelta

logging.disable(logging.CRITICAL)
warnings.simplefilter("ignore")

from rdflib import XSD, Literal
from rdflib.xsd_datetime import Duration

YM = re.compile(r"-?P(?=[0-9])([0-9]+Y)?([0-9]+M)?")
problems = []

# reference: the timedelta case is right
assert str(Literal(timedelta(0), datatype=XSD.yearMonthDuration)) == "P0M"

lit = Literal(Duration(), datatype=XSD.yearMonthDuration)
if not YM.fullmatch(str(lit)):
    problems.append(f'Literal(Duration(), datatype=XSD.yearMonthDuration) -> "{lit}"')

# the way a zero Duration object arises in practice
a = Literal("P1Y2M", datatype=XSD.yearMonthDuration)
d = a - a
assert d.datatype == XSD.yearMonthDuration
if not YM.fullmatch(str(d)):
    problems.append(f'"P1Y2M" - "P1Y2M" (xsd:yearMonthDuration) -> "{d}"')

if problems:
    print("FAIL not a valid xsd:yearMonthDuration lexical form: " + "; ".join(problems))
    sys.exit(1)
print("PASS")
