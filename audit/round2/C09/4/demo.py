"""A datetime with a UTC offset that is not a whole number of minutes
(every pre-standard-time 'LMT' zone of the tz database, e.g. Amsterdam
+00:19:32 until 1937) must still give a literal whose lexical form is a valid
xsd:dateTime and reads back as an equal value."""
import logging
import sys
import warnings
from datetime import datetime, timedelta, timezone

logging.disable(logging.CRITICAL)
warnings.simplefilter("ignore")

from rdflib import XSD, Literal

problems = []
lmt = timezone(timedelta(minutes=19, seconds=32))
for v in (datetime(1900, 1, 1, 12, 0, 0, tzinfo=lmt), datetime(2000, 6, 1, 0, 0, 0, 5, tzinfo=lmt)):
    lit = Literal(v)
    back = Literal(str(lit), datatype=lit.datatype)
    if back.ill_typed is not False:
        problems.append(
            f'Literal({v!r}) has the lexical form "{lit}", which is not a valid '
            f"xsd:{lit.datatype.fragment} (read back: ill_typed={back.ill_typed})"
        )
    elif back.value != v:
        problems.append(f"Literal({v!r}) reads back as {back.value!r}")

if problems:
    print("FAIL " + "; ".join(problems))
    sys.exit(1)
print("PASS")
