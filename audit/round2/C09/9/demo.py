"""The Turtle shorthand 0.0000001 is the xsd:decimal literal with that lexical
form: the parser must produce a well-typed xsd:decimal literal whose lexical
form is in the lexical space of xsd:decimal (no exponent), like
Literal("0.0000001", datatype=XSD.decimal) and the SPARQL parser do."""
import logging
import re
import sys
import warnings
from decimal import Decimal

logging.disable(logging.CRITICAL)
warnings.simplefilter("ignore")

from rdflib import XSD, Graph, Literal

DECIMAL = re.compile(r"[+-]?([0-9]+(\.[0-9]*)?|\.[0-9]+)")
problems = []

ref = Literal("0.0000001", datatype=XSD.decimal)
assert ref.ill_typed is False and str(ref) == "0.0000001"

for src in ["0.0000001", "-0.00000025", "0.00000010"]:
    for fmt in ("turtle", "trig", "n3"):
        g = Graph().parse(data=f"<urn:s> <urn:p> {src} .", format=fmt)
        (o,) = g.objects()
        assert o.datatype == XSD.decimal, o.datatype
        if o.ill_typed is not False or not DECIMAL.fullmatch(str(o)):
            problems.append(
                f'{fmt}: {src} parsed as "{o}"^^xsd:decimal, ill_typed={o.ill_typed}'
            )
        elif o.value != Decimal(src):
            problems.append(f"{fmt}: {src} has value {o.value!r}")

if problems:
    print("FAIL " + "; ".join(problems[:3]) + f" ... ({len(problems)} cases)")
    sys.exit(1)
print("PASS")
