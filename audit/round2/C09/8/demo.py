"""Literal(other_literal) is a copy: same term, same value, so the same
ill_typed flag and the same answers from eq()."""
import logging
import sys
import warnings

logging.disable(logging.CRITICAL)
warnings.simplefilter("ignore")

from rdflib import XSD, Literal

problems = []
for lex, dt, probe in [
    ("300", XSD.byte, Literal(300)),
    ("-1", XSD.unsignedInt, Literal(-1)),
    ("1", XSD.integer, Literal(1)),
]:
    a = Literal(lex, datatype=dt)
    b = Literal(a)
    assert a == b and a.value == b.value
    if b.ill_typed is not a.ill_typed:
        problems.append(
            f'"{lex}"^^xsd:{dt.fragment}: ill_typed {a.ill_typed} -> {b.ill_typed} in the copy'
        )
    if a.eq(probe) != b.eq(probe):
        problems.append(
            f'"{lex}"^^xsd:{dt.fragment} eq {probe.n3()}: original {a.eq(probe)}, copy {b.eq(probe)}'
        )

if problems:
    print("FAIL Literal(literal) loses ill_typed: " + "; ".join(problems))
    sys.exit(1)
print("PASS")
