"""xsd:normalizedString and xsd:token are derived from xsd:string: their
values are strings, and a value of a derived type is the same value in the
base type. Literal.eq() ("value space, XSD subtype substitution") must agree
with Python equality of the mapped values, as it now does for the datatypes
derived from xsd:duration and from xsd:decimal."""
import logging
import sys
import warnings

logging.disable(logging.CRITICAL)
warnings.simplefilter("ignore")

from rdflib import XSD, Literal

problems = []
# reference: derived numeric and duration types compare by value
assert Literal("1", datatype=XSD.byte).eq(Literal("1", datatype=XSD.integer)) is True
assert Literal("P1D", datatype=XSD.dayTimeDuration).eq(Literal("P1D", datatype=XSD.duration)) is True

pairs = [
    (Literal("a b", datatype=XSD.token), Literal("a b", datatype=XSD.string)),
    (Literal("a b", datatype=XSD.token), Literal("a b")),
    (Literal(" a\tb ", datatype=XSD.token), Literal("a b", datatype=XSD.normalizedString)),
    (Literal("a b", datatype=XSD.normalizedString), Literal("a b", datatype=XSD.string)),
]
for x, y in pairs:
    assert x.value == y.value and type(x.value) is str
    for p, q in ((x, y), (y, x)):
        try:
            r = p.eq(q)
        except TypeError as e:
            r = f"TypeError({e})"
        if r is not True:
            problems.append(f"{p.n3()} eq {q.n3()} -> {r} (Python values equal: {p.value!r})")

if problems:
    print("FAIL " + "; ".join(problems[:3]) + f" ... ({len(problems)} pairs)")
    sys.exit(1)
print("PASS")
