"""xsd:long is the integers in [-2**63, 2**63-1], xsd:unsignedLong those in
[0, 2**64-1]: a form outside has no value in the datatype, i.e. is ill-typed
(as rdflib reports for xsd:int, xsd:short, xsd:byte and the other unsigned
types) and has no canonical form to be replaced with."""
import logging
import sys
import warnings

logging.disable(logging.CRITICAL)
warnings.simplefilter("ignore")

from rdflib import XSD, Literal

problems = []
# the siblings, for reference
assert Literal("2147483648", datatype=XSD.int).ill_typed is True
assert Literal("4294967296", datatype=XSD.unsignedInt).ill_typed is True
assert Literal("9223372036854775807", datatype=XSD.long).ill_typed is False
assert Literal("18446744073709551615", datatype=XSD.unsignedLong).ill_typed is False

for lex, dt in [
    ("9223372036854775808", XSD.long),
    ("-9223372036854775809", XSD.long),
    ("18446744073709551616", XSD.unsignedLong),
    ("0099999999999999999999", XSD.unsignedLong),
]:
    lit = Literal(lex, datatype=dt)
    if lit.ill_typed is not True:
        problems.append(f'"{lex}"^^xsd:{dt.fragment}: ill_typed={lit.ill_typed}')
    elif str(lit) != lex:
        problems.append(f'"{lex}"^^xsd:{dt.fragment}: ill-typed form replaced by "{lit}"')

if problems:
    print("FAIL out-of-range forms accepted as well-typed: " + "; ".join(problems))
    sys.exit(1)
print("PASS")
