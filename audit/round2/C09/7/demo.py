"""An ill-typed literal denotes no value of its datatype: eq() must not report
it equal (in value space) to a well-typed literal of another lexical form.
eq() honours ill_typed for the numeric and the duration datatypes, but not on
the generic same-datatype path."""
import logging
import sys
import warnings

logging.disable(logging.CRITICAL)
warnings.simplefilter("ignore")

from rdflib import XSD, Literal

problems = []

# reference: numeric datatypes - an ill-typed form is not value-compared
assert Literal("300", datatype=XSD.byte).ill_typed is True
try:
    assert Literal("300", datatype=XSD.byte).eq(Literal("300", datatype=XSD.integer)) is not True
except TypeError:
    pass

yes = Literal("yes", datatype=XSD.boolean)
maybe = Literal("maybe", datatype=XSD.boolean)
false = Literal("false", datatype=XSD.boolean)
assert yes.ill_typed is True and maybe.ill_typed is True and false.ill_typed is False


def eq(a, b):
    try:
        return a.eq(b)
    except TypeError:
        return "TypeError"  # "cannot know": acceptable


if eq(yes, false) is True:
    problems.append('"yes"^^xsd:boolean eq "false"^^xsd:boolean -> True')
if eq(false, maybe) is True:
    problems.append('"false"^^xsd:boolean eq "maybe"^^xsd:boolean -> True')
if eq(yes, False) is True:
    problems.append('"yes"^^xsd:boolean eq Python False -> True')

if problems:
    print("FAIL ill-typed literals compared by a made-up value: " + "; ".join(problems))
    sys.exit(1)
print("PASS")
