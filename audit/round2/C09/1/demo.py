"""Literal.normalize() must replace a lexical form only by another form of the
same value, and must pass an ill-typed form on unchanged (as its docstring and
the Literal() constructor do)."""
import logging
import sys
import warnings

logging.disable(logging.CRITICAL)
warnings.simplefilter("ignore")

from rdflib import XSD, Literal

problems = []

# 1. ill-typed form: no value, hence no canonical form -> must be kept
lit = Literal("yes", datatype=XSD.boolean)
assert lit.ill_typed is True and str(lit) == "yes"
n = lit.normalize()
if str(n) != "yes":
    problems.append(f'"yes"^^xsd:boolean (ill-typed) normalize() -> "{n}"')

# 2. xsd:date with a time zone: the Python date has no time zone, the
#    constructor therefore keeps the form; normalize() drops the zone
lit = Literal("2000-01-01Z", datatype=XSD.date)
assert lit.ill_typed is False and str(lit) == "2000-01-01Z"
n = lit.normalize()
if str(n) != "2000-01-01Z":
    problems.append(f'"2000-01-01Z"^^xsd:date normalize() -> "{n}" (time zone lost)')

# 3. fractional seconds beyond the microsecond
lit = Literal("12:00:00.1234567", datatype=XSD.time)
assert lit.ill_typed is False and str(lit) == "12:00:00.1234567"
n = lit.normalize()
if str(n) != "12:00:00.1234567":
    problems.append(f'"12:00:00.1234567"^^xsd:time normalize() -> "{n}" (digit lost)')

# 4. normalize() of what the constructor produced must change nothing
for lex, dt in [("2000-01-01+05:00", XSD.date), ("PT0.0000001S", XSD.duration)]:
    lit = Literal(lex, datatype=dt)
    if lit.normalize() != lit:
        problems.append(f'"{lex}" is the normalised form, normalize() -> "{lit.normalize()}"')

if problems:
    print("FAIL Literal.normalize() changes the value: " + "; ".join(problems))
    sys.exit(1)
print("PASS")
