"""Turtle-family shorthand is used for every well-typed xsd:decimal / xsd:integer
lexical form that is a valid XSD form, but not every such form is a Turtle token:
"1."^^xsd:decimal is written as the bare `1.`, a syntax error when read back."""
import sys

from rdflib import Graph, Literal, URIRef
from rdflib.namespace import XSD

S, P = URIRef("http://example.org/s"), URIRef("http://example.org/p")
problems = []
for lexical, dt in (("1.", XSD.decimal), ("-5.", XSD.decimal)):
    # non-normalised but well-typed lexical form (e.g. kept from an N-Triples file
    # parsed with rdflib.NORMALIZE_LITERALS = False)
    t = Literal(lexical, datatype=dt, normalize=False)
    assert t.ill_typed is False and str(t) == lexical
    for fmt in ("turtle", "n3", "trig", "longturtle"):
        g = Graph()
        g.add((S, P, t))
        data = g.serialize(format=fmt)
        g2 = Graph()
        try:
            g2.parse(data=data, format="turtle" if fmt == "longturtle" else fmt)
        except Exception as e:  # noqa
            line = [ln for ln in data.splitlines() if lexical in ln][0].strip()
            problems.append(f"{fmt}: {t.n3()} is written as `{line}` which does not parse ({type(e).__name__})")
            continue
        back = next(iter(g2))[2]
        if back.value != t.value or back.datatype != t.datatype:
            problems.append(f"{fmt}: {t.n3()} read back as {back.n3()}")

if problems:
    print("FAIL: " + "; ".join(problems[:3]) + (f" ... ({len(problems)} in all)" if len(problems) > 3 else ""))
    sys.exit(1)
print("PASS")
