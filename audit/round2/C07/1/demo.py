"""Literal(<language-tagged Literal>, datatype=...) builds a term with BOTH a
language tag and a datatype; it cannot be pickled/copied and its n3() reads
back as a different term. Same for Literal(<datatyped Literal>, lang=...)."""
import copy
import pickle
import sys

from rdflib import Literal
from rdflib.namespace import XSD
from rdflib.util import from_n3

problems = []


def check(label, build):
    try:
        t = build()
    except TypeError:
        # refusing the combination (as Literal("chat", lang="en", datatype=...) does) is fine
        return
    if t.language is not None and t.datatype is not None:
        problems.append(f"{label} has both language {t.language!r} and datatype {str(t.datatype)!r}")
    try:
        if pickle.loads(pickle.dumps(t)) != t:
            problems.append(f"{label}: pickled copy differs")
    except Exception as e:  # noqa
        problems.append(f"{label}: pickle raises {type(e).__name__}")
    try:
        if copy.deepcopy(t) != t:
            problems.append(f"{label}: deepcopy differs")
    except Exception as e:  # noqa
        problems.append(f"{label}: deepcopy raises {type(e).__name__}")
    back = from_n3(t.n3())
    if back != t:
        problems.append(f"{label}: n3() {t.n3()!r} reads back as a term != the original")


check("Literal(Literal('chat', lang='en'), datatype=XSD.string)", lambda: Literal(Literal("chat", lang="en"), datatype=XSD.string))
check("Literal(Literal(1), lang='en')", lambda: Literal(Literal(1), lang="en"))

if problems:
    print("FAIL: " + "; ".join(problems))
    sys.exit(1)
print("PASS")
