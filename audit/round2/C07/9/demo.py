"""Literal(<Literal>) (a plain copy through the constructor) drops the
ill_typed flag: the copy == the original, but it is ordered as a number and the
Turtle writer emits its ill-typed lexical form as a bare token."""
import logging
import sys

from rdflib import Graph, Literal, URIRef
from rdflib.namespace import XSD

logging.disable(logging.CRITICAL)

a = Literal("1_000", datatype=XSD.integer)   # ill-typed: '1_000' is not an xsd:integer
b = Literal(a)                               # copy
assert a == b and hash(a) == hash(b)
problems = []
if a.ill_typed != b.ill_typed:
    problems.append(f"ill_typed {a.ill_typed} became {b.ill_typed}")
two = Literal(2000)
if (a < two) != (b < two) or (a > two) != (b > two):
    problems.append(f"a > 2000 is {a > two} but copy > 2000 is {b > two} although a == copy")


def turtle_roundtrip(t):
    g = Graph()
    g.add((URIRef("http://example.org/s"), URIRef("http://example.org/p"), t))
    data = g.serialize(format="turtle")
    g2 = Graph()
    g2.parse(data=data, format="turtle")
    return next(iter(g2))[2]


assert turtle_roundtrip(a) == a
try:
    back = turtle_roundtrip(b)
    if back != b:
        problems.append(f"Turtle round trip of the copy gives {back.n3()}")
except Exception as e:  # noqa
    problems.append(f"Turtle written for the copy does not parse ({type(e).__name__}): bare token 1_000")

if problems:
    print("FAIL: b = Literal(Literal('1_000', datatype=XSD.integer)): " + "; ".join(problems))
    sys.exit(1)
print("PASS")
