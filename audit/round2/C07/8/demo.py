"""Well-typed xsd:duration literals are not totally ordered: day/time durations
(Python timedelta) compare by value, durations with a year/month part (Duration
objects, which define no ordering) compare with everything by lexical form."""
import itertools
import logging
import sys

from rdflib import Literal
from rdflib.namespace import XSD

logging.disable(logging.CRITICAL)

A = Literal("P9D", datatype=XSD.duration)
B = Literal("P10D", datatype=XSD.duration)
X = Literal("P1M", datatype=XSD.duration)
assert not (A.ill_typed or B.ill_typed or X.ill_typed)

problems = []
if A < B and B < X and X < A:
    problems.append("cycle P9D < P10D < P1M < P9D")
elif A < B and B < X and not A < X:
    problems.append("P9D < P10D and P10D < P1M but not P9D < P1M")
results = {tuple(str(t) for t in sorted(p)) for p in itertools.permutations([A, B, X])}
if len(results) != 1:
    problems.append(f"sorted() of the same three terms gives {len(results)} different results depending on input order: {sorted(results)}")

if problems:
    print("FAIL: " + "; ".join(problems))
    sys.exit(1)
print("PASS")
