r"""A literal whose text contains a backslash followed by uXXXX (e.g. JSON or
regex source stored as a string) is written by n3() with the backslash escaped
("\\u00e9"), which the Turtle parser and from_n3 read back correctly, but the
SPARQL parser un-escapes the \uXXXX *inside the escaped backslash pair* first:
the query is rejected or - worse - silently yields another term."""
import sys

from rdflib import Graph, Literal, URIRef
from rdflib.util import from_n3

problems = []
for text in ('{"name": "caf\\u00e9"}', "\\u0022", "x\\u005C"):
    t = Literal(text)
    n3 = t.n3()
    assert from_n3(n3) == t
    g = Graph()
    g.parse(data=f"<http://example.org/s> <http://example.org/p> {n3} .", format="turtle")
    assert next(iter(g))[2] == t
    # SPARQL query
    try:
        got = list(Graph().query(f"SELECT ({n3} AS ?x) {{}}"))[0][0]
        if got != t:
            problems.append(f"SPARQL query reads {n3} as {got!r} instead of {t!r}")
    except Exception as e:  # noqa
        problems.append(f"SPARQL query rejects {n3}: {type(e).__name__}")
    # SPARQL update
    try:
        g = Graph()
        g.update(f"INSERT DATA {{ <http://example.org/s> <http://example.org/p> {n3} }}")
        got = next(iter(g))[2]
        if got != t:
            problems.append(f"SPARQL update stores {n3} as {got!r} instead of {t!r}")
    except Exception as e:  # noqa
        problems.append(f"SPARQL update rejects {n3}: {type(e).__name__}")

if problems:
    print("FAIL: " + "; ".join(problems))
    sys.exit(1)
print("PASS")
