"""The language-tag check accepts a trailing newline ('en\\n'): such a literal is
a distinct term whose n3() text is read back by the parsers as "..."@en."""
import sys

from rdflib import Graph, Literal

try:
    t = Literal("chat", lang="en\n")
except ValueError:
    print("PASS")  # rejected like any other malformed tag ('en ', 'en\t', '')
    sys.exit(0)

problems = [f"Literal('chat', lang='en\\n') is accepted (language {t.language!r}) although 'en ' and 'en\\t' raise ValueError"]
if t != Literal("chat", lang="en"):
    n3 = t.n3()
    g = Graph()
    g.parse(data=f"<http://example.org/s> <http://example.org/p> {n3} .", format="turtle")
    back = next(iter(g))[2]
    if back != t:
        problems.append(f"its n3() {n3!r} is read back by the Turtle parser as {back!r}, a different term")
    got = list(Graph().query(f"SELECT ({n3} AS ?x) {{}}"))[0][0]
    if got != t:
        problems.append(f"and by the SPARQL parser as {got!r}")
print("FAIL: " + "; ".join(problems))
sys.exit(1)
