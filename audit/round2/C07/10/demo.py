"""owl:rational literals built from Fraction objects keep the Fraction as value,
but nothing maps the lexical form back to a Fraction: the same terms, after
pickling/copying or parsing their n3(), have no value and are ordered as strings.
A sorted list of terms changes its order by being pickled."""
import pickle
import sys
from fractions import Fraction

from rdflib import Literal
from rdflib.util import from_n3

terms = [Literal(Fraction(10, 3)), Literal(Fraction(2, 1))]
copies = pickle.loads(pickle.dumps(terms))
reread = [from_n3(t.n3()) for t in terms]
assert copies == terms and reread == terms, "precondition: the copies are equal terms"

problems = []
s0, s1, s2 = sorted(terms), sorted(copies), sorted(reread)
if s0 != s1:
    problems.append(f"sorted(terms) = {[str(t) for t in s0]} but sorted(pickled copies) = {[str(t) for t in s1]}")
if s0 != s2:
    problems.append(f"sorted(from_n3(n3())) = {[str(t) for t in s2]}")
a, b = terms
ca, cb = copies
if (a < b) != (ca < cb):
    problems.append(f"10/3 < 2 is {a < b} for the originals and {ca < cb} for their copies")
# mixing an original with a copy: equal terms, different verdicts
if (a < cb) != (a < b):
    problems.append("a < b depends on whether b is the original or its (equal) copy")

if problems:
    print("FAIL: " + "; ".join(problems))
    sys.exit(1)
print("PASS")
