"""Literal(<python value>, datatype=<other recognised datatype>) keeps the raw
Python object as .value instead of the value of its lexical form, so two EQUAL
terms are ordered differently (a == b and a > b), and a pickled copy sorts
differently from the original."""
import pickle
import sys

from rdflib import Literal
from rdflib.namespace import XSD

a = Literal(0.1, datatype=XSD.decimal)      # common idiom: a float given as xsd:decimal
b = Literal("0.1", datatype=XSD.decimal)    # the same term as the parsers build it
c = pickle.loads(pickle.dumps(a))

problems = []
assert a == b and hash(a) == hash(b) and c == a, "precondition: the three are the same term"
if a > b or a < b or b > a or b < a:
    problems.append(f"a == b but a > b is {a > b}, a < b is {a < b}")
if c < a or c > a:
    problems.append(f"pickled copy c == a but c < a is {c < a}")
# observable consequence: position relative to a third literal depends on which equal object is used
m = Literal("0.1000000000000000001", datatype=XSD.decimal)
if (a < m) != (b < m):
    problems.append(f"a < m is {a < m} but b < m is {b < m} for m={m.n3()}")

if problems:
    print("FAIL: Literal(0.1, datatype=XSD.decimal) vs Literal('0.1', datatype=XSD.decimal): " + "; ".join(problems))
    sys.exit(1)
print("PASS")
