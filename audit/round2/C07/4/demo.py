"""Literal(<python number>, datatype=<recognised datatype>) is neither checked
nor normalised against the datatype (unlike Literal(<str>, datatype=...)):
the term it builds is not the one its own n3()/Turtle text reads back as."""
import sys

from rdflib import Graph, Literal, URIRef
from rdflib.namespace import XSD
from rdflib.util import from_n3

problems = []


def turtle_roundtrip(t):
    g = Graph()
    g.add((URIRef("http://example.org/s"), URIRef("http://example.org/p"), t))
    data = g.serialize(format="turtle")
    g2 = Graph()
    g2.parse(data=data, format="turtle")
    return next(iter(g2))[2], data.strip().splitlines()[-1]


# 1. a large float stored as xsd:decimal: lexical form '1e+22' is not a decimal,
#    the Turtle writer emits it as a bare token, which is an xsd:double
t = Literal(1e22, datatype=XSD.decimal)
back, line = turtle_roundtrip(t)
if back != t:
    problems.append(f"Literal(1e22, datatype=XSD.decimal) = {t.n3()} is written to Turtle as `{line}` and read back as {back.n3()}")
if t.ill_typed is None and str(t) == "1e+22":
    problems.append("'1e+22'^^xsd:decimal has ill_typed None (Literal('1e+22', datatype=XSD.decimal).ill_typed is True)")

# 2. an int stored as xsd:double is not normalised, so its n3() does not read back as itself
t = Literal(1, datatype=XSD.double)
back = from_n3(t.n3())
if back != t:
    problems.append(f"Literal(1, datatype=XSD.double) = {t.n3()}; from_n3(n3()) = {back.n3()} != term")
if t != Literal("1", datatype=XSD.double):
    problems.append("Literal(1, datatype=XSD.double) != Literal('1', datatype=XSD.double)")

if problems:
    print("FAIL: " + "; ".join(problems))
    sys.exit(1)
print("PASS")
