"""<, > order any two literals, but <= and >= raise TypeError for literals that
have no Python value (unrecognised datatype, or ill-typed lexical form)."""
import logging
import sys

from rdflib import Literal, URIRef
from rdflib.namespace import XSD

logging.disable(logging.CRITICAL)

pairs = [
    (Literal("a", datatype=URIRef("http://example.org/dt")), Literal("b", datatype=URIRef("http://example.org/dt"))),
    (Literal("2000", datatype=XSD.gYear), Literal("2001", datatype=XSD.gYear)),
    (Literal("x", datatype=XSD.integer), Literal("y", datatype=XSD.integer)),
]
problems = []
for a, b in pairs:
    # strict order works and says a < b
    assert a < b and b > a and not (b < a) and a != b
    assert sorted([b, a]) == [a, b]
    for expr, want in (("a <= b", True), ("b >= a", True), ("b <= a", False), ("a >= b", False)):
        try:
            got = eval(expr)
        except TypeError as e:
            problems.append(f"{expr} raises TypeError for a={a.n3()} b={b.n3()}")
            continue
        if got is not want:
            problems.append(f"{expr} is {got} for a={a.n3()} b={b.n3()}")
if problems:
    print("FAIL: a < b holds but " + "; ".join(problems[:4]) + (" ..." if len(problems) > 4 else ""))
    sys.exit(1)
print("PASS")
