"""The Turtle/N3/TriG parser turns a small decimal token into an ill-typed
literal in exponent notation: 0.0000001 is read as "1E-7"^^xsd:decimal."""
import logging
import sys

from rdflib import Graph, Literal, URIRef
from rdflib.namespace import XSD
from rdflib.util import from_n3

logging.disable(logging.CRITICAL)
problems = []

t = Literal("0.0000001", datatype=XSD.decimal)
assert t.ill_typed is False and str(t) == "0.0000001"

# (a) the bare token, read by the sibling readers
readers = {}
for fmt in ("turtle", "n3"):
    g = Graph()
    g.parse(data="<http://example.org/s> <http://example.org/p> 0.0000001 .", format=fmt)
    readers[fmt] = next(iter(g))[2]
g = Graph()
g.update("INSERT DATA { <http://example.org/s> <http://example.org/p> 0.0000001 }")
readers["sparql"] = next(iter(g))[2]
readers["from_n3"] = from_n3("0.0000001")
for name, got in readers.items():
    if got != t or got.ill_typed:
        problems.append(f"{name} reads token 0.0000001 as {got.n3()} (ill_typed={got.ill_typed})")

# (b) serialize / parse round trip of the term
g = Graph()
g.add((URIRef("http://example.org/s"), URIRef("http://example.org/p"), t))
data = g.serialize(format="turtle")
g2 = Graph()
g2.parse(data=data, format="turtle")
back = next(iter(g2))[2]
if back != t:
    problems.append(f"Turtle round trip of {t.n3()} gives {back.n3()}")

if problems:
    print("FAIL: " + "; ".join(problems))
    sys.exit(1)
print("PASS")
