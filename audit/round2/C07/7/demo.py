"""The order on literals of one non-numeric datatype is cyclic when an ill-typed
literal is among them: well-typed ones compare by value, the ill-typed one
compares with each of them by lexical form. sorted() then depends on input order."""
import itertools
import logging
import sys

from rdflib import Literal
from rdflib.namespace import XSD

logging.disable(logging.CRITICAL)

A = Literal("2000-01-01T00:00:00-05:00", datatype=XSD.dateTime)  # = 05:00Z
B = Literal("2000-01-01T01:00:00+00:00", datatype=XSD.dateTime)  # = 01:00Z, earlier than A
X = Literal("2000-01-01T00:30:00x", datatype=XSD.dateTime)       # ill-typed
assert A.ill_typed is False and B.ill_typed is False and X.ill_typed is True

problems = []
if A < X and X < B and not (A < B):
    problems.append(f"A < X and X < B but not A < B (B < A is {B < A})")
if A < X and X < B and B < A:
    problems.append("cycle A < X < B < A")
results = {tuple(str(t) for t in sorted(p)) for p in itertools.permutations([A, B, X])}
if len(results) != 1:
    problems.append(f"sorted() of the same three terms gives {len(results)} different results depending on input order")

if problems:
    print("FAIL: xsd:dateTime A=%s B=%s X=%s: " % (A, B, X) + "; ".join(problems))
    sys.exit(1)
print("PASS")
