"""Iterating a SELECT result silently drops every solution in which all
projected variables are unbound, so DISTINCT / LIMIT / GROUP BY results lose rows
(while len(result), result.bindings and the serializers keep them)."""
import sys
from rdflib import Graph

g = Graph()
g.parse(
    data="""
@prefix : <http://e/> .
:a :p 1 ; :q "x" .
:b :p 2 .
:c :p 3 .
""",
    format="turtle",
)
P = "PREFIX : <http://e/> "
PAT = "WHERE { ?s :p ?v OPTIONAL { ?s :q ?q } }"

# ORDER BY ?q: the two solutions without ?q sort first; LIMIT 2 is exactly those two
res = g.query(P + "SELECT ?q %s ORDER BY ?q LIMIT 2" % PAT)
n_len = len(res)
rows = [tuple(r) for r in res]
if n_len != 2 or rows != [(None,), (None,)]:
    print("FAIL: SELECT ?q .. ORDER BY ?q LIMIT 2: len(result)=%d but iteration gives %r, expected [(None,), (None,)]" % (n_len, rows))
    sys.exit(1)

# GROUP BY ?q has two groups: 'x' and the group with no key
rows = list(g.query(P + "SELECT ?q %s GROUP BY ?q" % PAT))
if len(rows) != 2:
    print("FAIL: SELECT ?q .. GROUP BY ?q iterates %d rows, expected 2" % len(rows))
    sys.exit(1)

# DISTINCT ?q: two solutions
rows = list(g.query(P + "SELECT DISTINCT ?q %s" % PAT))
if len(rows) != 2:
    print("FAIL: SELECT DISTINCT ?q iterates %d rows, expected 2" % len(rows))
    sys.exit(1)
print("PASS")
