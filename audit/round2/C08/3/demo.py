"""EXISTS / NOT EXISTS in HAVING, ORDER BY, a SELECT expression or an aggregate
argument raises a generic Exception (the graph pattern is never translated)."""
import sys
from rdflib import Graph

g = Graph()
g.parse(
    data="""
@prefix : <http://e/> .
:a :p 1 ; :q "x" .
:b :p 2 ; :q "y" .
:c :p 3 ; :q "x" .
:d :p 4 .
""",
    format="turtle",
)
P = "PREFIX : <http://e/> "
cases = [
    # HAVING filters groups
    ("SELECT ?x WHERE { ?x :p ?v } GROUP BY ?x HAVING (EXISTS { ?x :q 'x' }) ORDER BY ?x",
     [("http://e/a",), ("http://e/c",)]),
    ("SELECT ?x (COUNT(*) AS ?n) WHERE { ?x :p ?v } GROUP BY ?x "
     "HAVING (COUNT(*) > 0 && NOT EXISTS { ?x :q ?any }) ORDER BY ?x",
     [("http://e/d", "1")]),
    # ORDER BY key: false < true
    ("SELECT ?x WHERE { ?x :p ?v } ORDER BY DESC(EXISTS { ?x :q 'x' }) ?x",
     [("http://e/a",), ("http://e/c",), ("http://e/b",), ("http://e/d",)]),
    # aggregate argument
    ("SELECT (SUM(IF(EXISTS { ?x :q 'x' }, 1, 0)) AS ?n) WHERE { ?x :p ?v }", [("2",)]),
]
for q, want in cases:
    try:
        res = g.query(P + q)
        got = [tuple(str(row[v]) for v in res.vars) for row in res.bindings]
    except Exception as e:  # noqa: BLE001
        print("FAIL: %s raised %s: %s" % (q, type(e).__name__, str(e)[:80]))
        sys.exit(1)
    if got != want:
        print("FAIL: %s gave %r, expected %r" % (q, got, want))
        sys.exit(1)
# the same test in a FILTER works
assert len(g.query(P + "SELECT ?x WHERE { ?x :p ?v FILTER EXISTS { ?x :q 'x' } }").bindings) == 2
print("PASS")
