"""In an aggregate query a SELECT expression cannot use the alias of an earlier
aggregate expression of the same SELECT clause: it comes out unbound."""
import sys
from rdflib import Graph

g = Graph()
g.parse(
    data="""
@prefix : <http://e/> .
:a :p 1 ; :q "x" .
:b :p 2 ; :q "y" .
:c :p 3 ; :q "x" .
""",
    format="turtle",
)
P = "PREFIX : <http://e/> "
q = (
    "SELECT ?q (SUM(?v) AS ?s) (COUNT(?v) AS ?n) (?s * ?n AS ?prod) "
    "WHERE { ?x :q ?q ; :p ?v } GROUP BY ?q ORDER BY ?q"
)
got = [
    (str(b["q"]), int(b["s"]), int(b["n"]), None if b.get("prod") is None else int(b["prod"]))
    for b in g.query(P + q).bindings
]
want = [("x", 4, 2, 8), ("y", 2, 1, 2)]
# without aggregation the same construct works
plain = [int(b["b"]) for b in g.query(P + "SELECT (?v + 1 AS ?a) (?a * 2 AS ?b) WHERE { :a :p ?v }").bindings]
assert plain == [4], plain
if got != want:
    print("FAIL: (?s * ?n AS ?prod) after (SUM(?v) AS ?s) (COUNT(?v) AS ?n): %r, expected %r" % (got, want))
    sys.exit(1)
print("PASS")
