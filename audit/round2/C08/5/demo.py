"""A grouped sub-select that is joined with an outer pattern binding its group
key counts the solutions with an unbound key into the outer row's group."""
import sys
from collections import Counter
from rdflib import Graph

g = Graph()
g.parse(
    data="""
@prefix : <http://e/> .
:a :p 1 ; :q "x" .
:b :p 2 ; :q "y" .
:c :p 3 ; :q "x" .
:d :p 4 .
""",
    format="turtle",
)
P = "PREFIX : <http://e/> "
SUB = "SELECT ?q (COUNT(*) AS ?c) WHERE { ?y :p ?v OPTIONAL { ?y :q ?q } } GROUP BY ?q"


def rows(q, names):
    res = g.query(P + q)
    return Counter(
        tuple(None if b.get(v) is None else str(b[v]) for v in res.vars) for b in res.bindings
    )


# on its own: three groups, x -> 2, y -> 1, (unbound) -> 1
inner = rows(SUB, None)
assert inner == Counter({("x", "2"): 1, ("y", "1"): 1, (None, "1"): 1}), inner

# joined with { ?x :q ?q }: each outer row is compatible with the group of its
# own key and with the group whose key is unbound
got = rows("SELECT ?x ?q ?c WHERE { ?x :q ?q . { %s } }" % SUB, None)
want = Counter(
    {
        ("http://e/a", "x", "2"): 1, ("http://e/a", "x", "1"): 1,
        ("http://e/b", "y", "1"): 2,
        ("http://e/c", "x", "2"): 1, ("http://e/c", "x", "1"): 1,
    }
)
if got != want:
    print("FAIL: join with grouped sub-select gave %r, expected %r" % (sorted(got.items()), sorted(want.items())))
    sys.exit(1)
print("PASS")
