"""LIMIT/OFFSET of a sub-select inside OPTIONAL is applied per outer solution,
not to the sub-select's own solution sequence."""
import sys
from rdflib import Graph

g = Graph()
g.parse(
    data="""
@prefix : <http://e/> .
:a :p 1 ; :q "x" .
:b :p 2 ; :q "y" .
:c :p 3 ; :q "x" .
:d :p 4 .
""",
    format="turtle",
)
P = "PREFIX : <http://e/> "
SUB = "SELECT ?x ?v WHERE { ?x :p ?v } ORDER BY DESC(?v) LIMIT 1"
# the sub-select on its own: exactly one solution, (:d, 4)
inner = [(str(r.x), int(r.v)) for r in g.query(P + SUB)]
assert inner == [("http://e/d", 4)], inner

# left-joining it to { ?x :q ?q } (= :a, :b, :c): (:d, 4) is compatible with none
# of them, so ?v must stay unbound in all three rows
rows = g.query(P + "SELECT ?x ?v WHERE { ?x :q ?q OPTIONAL { %s } } ORDER BY ?x" % SUB)
got = [(str(r.x), None if r.v is None else int(r.v)) for r in rows]
want = [("http://e/a", None), ("http://e/b", None), ("http://e/c", None)]

# the same with a plain join is evaluated correctly (no solutions)
joined = list(g.query(P + "SELECT ?x ?v WHERE { ?x :q ?q . { %s } }" % SUB))
assert joined == [], joined

# OFFSET: the sub-select has 4 solutions, OFFSET 1 leaves 3 of them whatever the
# order, so at least two of :a :b :c must get a value
rows2 = g.query(
    P + "SELECT ?x ?v WHERE { ?x :q ?q OPTIONAL { SELECT ?x ?v WHERE { ?x :p ?v } OFFSET 1 } }"
)
bound2 = sum(1 for r in rows2 if r.v is not None)

if got != want:
    print("FAIL: OPTIONAL { %s } bound ?v per outer row: %r (expected %r)" % (SUB, got, want))
    sys.exit(1)
if bound2 < 2:
    print("FAIL: OPTIONAL { SELECT .. OFFSET 1 } left only %d rows with ?v (expected >= 2)" % bound2)
    sys.exit(1)
print("PASS")
