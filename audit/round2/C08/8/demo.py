"""With rdflib.DAWG_LITERAL_COLLATION = True ("strict DAWG/SPARQL compliance")
ORDER BY leaves comparable literals in the wrong order as soon as a literal of
another datatype sits between them."""
import itertools
import sys
import rdflib

rdflib.DAWG_LITERAL_COLLATION = True
from rdflib import Graph, Literal, URIRef  # noqa: E402
from rdflib.namespace import XSD  # noqa: E402

VALUES = [
    Literal("b"),
    Literal("2020-01-01", datatype=XSD.date),
    Literal("a"),
    Literal(True),
    Literal("0"),
]
P = URIRef("http://e/p")
for perm in itertools.permutations(range(5)):
    g = Graph()
    for i in perm:
        g.add((URIRef("http://e/s%d" % i), P, VALUES[i]))
    for q, want in [
        ("SELECT ?v WHERE { ?s <http://e/p> ?v } ORDER BY ?v", ["0", "a", "b"]),
        ("SELECT ?v WHERE { ?s <http://e/p> ?v } ORDER BY DESC(?v)", ["b", "a", "0"]),
    ]:
        vals = [b["v"] for b in g.query(q).bindings]
        assert len(vals) == 5
        # simple literals are mutually comparable with "<": their relative order is fixed
        strings = [str(v) for v in vals if v.datatype is None]
        if strings != want:
            print("FAIL: %s puts the plain strings in the order %r (whole result %r), expected %r"
                  % (q, strings, [v.n3() for v in vals], want))
            sys.exit(1)
print("PASS")
