"""LIMIT <max long> together with OFFSET (or any LIMIT/OFFSET beyond sys.maxsize)
raises ValueError instead of returning the slice."""
import sys
from rdflib import Graph, Literal, URIRef

g = Graph()
for i in range(4):
    g.add((URIRef("http://e/s%d" % i), URIRef("http://e/p"), Literal(i)))
BASE = "SELECT ?v WHERE { ?s <http://e/p> ?v } ORDER BY ?v "
for mod, want in [
    ("LIMIT 9223372036854775807 OFFSET 1", [1, 2, 3]),  # Long.MAX_VALUE = "no limit"
    ("LIMIT 18446744073709551616", [0, 1, 2, 3]),
    ("OFFSET 18446744073709551616", []),
]:
    try:
        got = [int(b["v"]) for b in g.query(BASE + mod).bindings]
    except Exception as e:  # noqa: BLE001
        print("FAIL: %s raised %s: %s" % (mod, type(e).__name__, e))
        sys.exit(1)
    if got != want:
        print("FAIL: %s gave %r, expected %r" % (mod, got, want))
        sys.exit(1)
print("PASS")
