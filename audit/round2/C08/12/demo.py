"""SELECT * projects variables that are not in scope: those that occur only in a
FILTER expression, inside (NOT) EXISTS, or on the right-hand side of MINUS."""
import sys
from rdflib import Graph

g = Graph()
g.parse(
    data="""
@prefix : <http://e/> .
:a :p 1 ; :q "x" .
:d :p 4 .
""",
    format="turtle",
)
P = "PREFIX : <http://e/> "
for pat in [
    "{ ?s :p ?v MINUS { ?s :q ?z } }",
    "{ ?s :p ?v FILTER NOT EXISTS { ?s :q ?z } }",
    "{ ?s :p ?v FILTER(!BOUND(?z)) }",
]:
    res = g.query(P + "SELECT * WHERE " + pat)
    got = sorted(str(v) for v in res.vars)
    if got != ["s", "v"]:
        csv = res.serialize(format="csv").decode().splitlines()[0]
        print("FAIL: SELECT * WHERE %s has result variables %r (CSV header %r), expected ['s', 'v']" % (pat, got, csv))
        sys.exit(1)
print("PASS")
