"""CONSTRUCT WHERE { ... } followed by any solution modifier crashes."""
import sys
from rdflib import Graph

g = Graph()
g.parse(
    data="""
@prefix : <http://e/> .
:a :p 1 . :b :p 2 . :c :p 3 . :d :p 4 .
""",
    format="turtle",
)
P = "PREFIX : <http://e/> "
# long form: the reference
want = set(g.query(P + "CONSTRUCT { ?x :p ?v } WHERE { ?x :p ?v } ORDER BY DESC(?v) LIMIT 2").graph)
assert len(want) == 2, want
try:
    got = set(g.query(P + "CONSTRUCT WHERE { ?x :p ?v } ORDER BY DESC(?v) LIMIT 2").graph)
except Exception as e:  # noqa: BLE001
    print("FAIL: CONSTRUCT WHERE {...} ORDER BY .. LIMIT 2 raised %r" % (e,))
    sys.exit(1)
if got != want:
    print("FAIL: short form gave %r, long form %r" % (sorted(got), sorted(want)))
    sys.exit(1)
print("PASS")
