"""SUM / AVG over a group mixing an xsd:double with a large xsd:integer aborts the
whole query with a Python OverflowError."""
import sys
from rdflib import Graph, Literal, URIRef
from rdflib.namespace import XSD

g = Graph()
P = URIRef("http://e/p")
g.add((URIRef("http://e/a"), P, Literal("1.0E0", datatype=XSD.double)))
g.add((URIRef("http://e/b"), P, Literal("1" + "0" * 400, datatype=XSD.integer)))
g.add((URIRef("http://e/c"), URIRef("http://e/q"), Literal(7)))

for agg in ("SUM", "AVG"):
    q = (
        "SELECT ?n (%s(?v) AS ?s) WHERE { { ?x <http://e/p> ?v } UNION { ?y <http://e/q> ?n } } GROUP BY ?n"
        % agg
    )
    try:
        rows = g.query(q).bindings
    except Exception as e:  # noqa: BLE001
        print("FAIL: %s over {1.0E0, 10^400} raised %s: %s (the other group is lost too)" % (agg, type(e).__name__, e))
        sys.exit(1)
    # the group ?n=7 has nothing to aggregate: 0; the other one is +INF (integer
    # promoted to double) or an error, i.e. unbound - but it must be a result
    by_n = {b.get("n"): b.get("s") for b in rows}
    if len(rows) != 2 or by_n[Literal(7)] != Literal(0):
        print("FAIL: %s: unexpected rows %r" % (agg, rows))
        sys.exit(1)
    s = by_n[None]
    if s is not None and not (s.datatype == XSD.double and s.value == float("inf")):
        print("FAIL: %s gave %r" % (agg, s))
        sys.exit(1)
print("PASS")
