"""CONSTRUCT ... GROUP BY ?q: the group key is unbound when the template is filled."""
import sys
from rdflib import Graph, Literal, URIRef

g = Graph()
g.parse(
    data="""
@prefix : <http://e/> .
:a :q "x" . :b :q "y" . :c :q "x" .
""",
    format="turtle",
)
P = "PREFIX : <http://e/> "
S, Z = URIRef("http://e/s"), URIRef("http://e/z")
want = {(S, Z, Literal("x")), (S, Z, Literal("y"))}
# reference: the same grouping done in a sub-select
ref = set(g.query(P + "CONSTRUCT { :s :z ?q } WHERE { SELECT ?q WHERE { ?x :q ?q } GROUP BY ?q }").graph)
assert ref == want, ref

got = set(g.query(P + "CONSTRUCT { :s :z ?q } WHERE { ?x :q ?q } GROUP BY ?q").graph)
got2 = set(
    g.query(P + "CONSTRUCT { :s :z ?q } WHERE { ?x :q ?q } GROUP BY ?q HAVING (COUNT(*) > 1)").graph
)
if got != want:
    print("FAIL: CONSTRUCT {:s :z ?q} WHERE {?x :q ?q} GROUP BY ?q built %r, expected %r" % (sorted(got), sorted(want)))
    sys.exit(1)
if got2 != {(S, Z, Literal("x"))}:
    print("FAIL: with HAVING (COUNT(*) > 1): %r" % sorted(got2))
    sys.exit(1)
print("PASS")
