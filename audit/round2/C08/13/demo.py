"""translateAlgebra() - the algebra-to-query-text sibling of the evaluator - does
not reproduce solution modifiers / aggregates: the text it writes is not a query,
or is a different query."""
import sys
from rdflib import Graph
from rdflib.plugins.sparql import prepareQuery
from rdflib.plugins.sparql.algebra import translateAlgebra

g = Graph()
g.parse(
    data="""
@prefix : <http://e/> .
:a :p 1 ; :q "x" . :b :p 2 ; :q "y" . :c :p 3 ; :q "x" . :d :p 4 . :e :p 4 .
""",
    format="turtle",
)
P = "PREFIX : <http://e/> "
cases = [
    # OFFSET without LIMIT is written as "OFFSET 2 LIMIT None"
    "SELECT ?x WHERE { ?x :p ?v } ORDER BY DESC(?v) ?x OFFSET 2",
    # an expression over two aggregates is written as (?v/ ?v as ?a)
    "SELECT (SUM(?v)/COUNT(?v) AS ?a) WHERE { ?x :p ?v }",
    # HAVING (with a projected key) becomes a FILTER(COUNT(*) > 1) inside WHERE
    "SELECT ?q (COUNT(?v) AS ?c) WHERE { ?x :p ?v ; :q ?q } GROUP BY ?q HAVING (COUNT(*) > 1)",
    # GROUP_CONCAT(DISTINCT ..) without separator: AttributeError on None.n3()
    "SELECT (GROUP_CONCAT(DISTINCT ?q) AS ?c) WHERE { ?x :q ?q }",
]
for q in cases:
    want = [dict(b) for b in g.query(P + q).bindings]
    text = None
    try:
        text = translateAlgebra(prepareQuery(P + q))
        got = [dict(b) for b in g.query(text).bindings]
    except Exception as e:  # noqa: BLE001
        print("FAIL: %s -> %s: %s%s" % (q, type(e).__name__, str(e)[:70],
                                          "" if text is None else " [text: %s]" % " ".join(text.split())))
        sys.exit(1)
    if got != want:
        print("FAIL: %s was rewritten to %s which gives %r instead of %r" % (q, " ".join(text.split()), got, want))
        sys.exit(1)
print("PASS")
