"""AVG over xsd:float values answers with an xsd:double, while SUM of the same
values is an xsd:float (Avg = Sum / Count, float / integer -> float)."""
import sys
from rdflib import Graph, Literal, URIRef
from rdflib.namespace import XSD

g = Graph()
P = URIRef("http://e/p")
g.add((URIRef("http://e/a"), P, Literal("1.5", datatype=XSD.float)))
g.add((URIRef("http://e/b"), P, Literal("2.5", datatype=XSD.float)))
(row,) = g.query("SELECT (SUM(?v) AS ?s) (AVG(?v) AS ?a) (MIN(?v) AS ?m) WHERE { ?x <http://e/p> ?v }").bindings
assert row["s"].datatype == XSD.float and row["m"].datatype == XSD.float, row
a = row["a"]
if a.datatype != XSD.float or a.value != 2.0:
    print("FAIL: AVG of 1.5^^xsd:float and 2.5^^xsd:float is %s, expected \"2.0\"^^xsd:float" % a.n3())
    sys.exit(1)
print("PASS")
