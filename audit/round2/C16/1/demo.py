"""CSV result with a long literal: the library's own CSV output cannot be read back."""
import io
import sys

from rdflib import Literal, Variable
from rdflib.query import Result

x = Variable("x")
r = Result("SELECT")
r.vars = [x]
# 200 000 characters, e.g. the text of a document held in a literal
r.bindings = [{x: Literal("a")}, {x: Literal("b" * 200_000)}, {x: Literal("c")}]

data = r.serialize(format="csv")
try:
    back = Result.parse(io.BytesIO(data), format="csv")
except Exception as e:  # _csv.Error: field larger than field limit (131072)
    print("FAIL: CSV written by the library is not read back: %s: %s" % (type(e).__name__, e))
    sys.exit(1)

got = [str(b[x]) for b in back.bindings]
exp = [str(b[x]) for b in r.bindings]
if got != exp:
    print("FAIL: row sequence / string values differ after the CSV round trip")
    sys.exit(1)
print("PASS")
