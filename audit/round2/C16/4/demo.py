"""A TSV result whose lines end in CRLF (the canonical line break of a text/*
media type) is rejected when read from bytes."""
import io
import sys

from rdflib import Literal, URIRef, Variable
from rdflib.query import Result

lf = '?s\t?o\n<http://example.org/s1>\t"foo"\n<http://example.org/s2>\t\n'
crlf = lf.replace("\n", "\r\n")
s, o = Variable("s"), Variable("o")
expected = [
    {s: URIRef("http://example.org/s1"), o: Literal("foo")},
    {s: URIRef("http://example.org/s2")},
]

r = Result.parse(io.BytesIO(lf.encode()), format="tsv")
assert r.vars == [s, o] and [dict(b) for b in r.bindings] == expected

# the very same bytes are accepted through a text-mode stream (universal newlines) ...
r = Result.parse(io.TextIOWrapper(io.BytesIO(crlf.encode()), encoding="utf-8"), format="tsv")
assert [dict(b) for b in r.bindings] == expected

# ... and the header line is read (it is .strip()ped), but not the rows
try:
    r = Result.parse(io.BytesIO(crlf.encode()), format="tsv")
except Exception as e:
    print("FAIL: TSV with CRLF line ends is not read from a byte source: %s: %s" % (type(e).__name__, str(e)[:80]))
    sys.exit(1)
if r.vars != [s, o] or [dict(b) for b in r.bindings] != expected:
    print("FAIL: TSV with CRLF line ends read differently: %r" % r.bindings)
    sys.exit(1)
print("PASS")
