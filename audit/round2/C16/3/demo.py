"""SPARQL JSON written with an encoding other than UTF-8 cannot be read back
(stdlib json path; with orjson the serializer always writes UTF-8)."""
import io
import sys

from rdflib import Literal, Variable
from rdflib.query import Result

x = Variable("x")
r = Result("SELECT")
r.vars = [x]
r.bindings = [{x: Literal("caf\u00e9")}, {}]

failures = []
for enc in ("utf-8", "latin-1", "utf-16"):
    data = r.serialize(format="json", encoding=enc)
    try:
        back = Result.parse(io.BytesIO(data), format="json")
        if back.vars != r.vars or [dict(b) for b in back.bindings] != r.bindings:
            failures.append("%s: read back differently" % enc)
    except Exception as e:
        failures.append("%s: %s" % (enc, type(e).__name__))

# the XML form of the same result survives all three encodings
for enc in ("utf-8", "latin-1", "utf-16"):
    back = Result.parse(io.BytesIO(r.serialize(format="xml", encoding=enc)), format="xml")
    assert [dict(b) for b in back.bindings] == r.bindings

if failures:
    print("FAIL: serialize(format='json', encoding=...) output is not read back by the JSON result parser: " + "; ".join(failures))
    sys.exit(1)
print("PASS")
