"""Iterating a query result with a for loop removes the all-unbound rows from
what is serialised afterwards (JSON and XML alike; CSV too)."""
import io
import sys

from rdflib import Graph, URIRef, Variable
from rdflib.query import Result

g = Graph()
g.parse(data="<urn:a> <urn:p> <urn:b> . <urn:b> <urn:q> <urn:c> .", format="turtle")
q = "SELECT ?x { ?s ?p ?o OPTIONAL { ?o <urn:q> ?x } } ORDER BY ?x"
# two solutions: one leaves ?x unbound, one binds it to <urn:c>
expected = [{}, {Variable("x"): URIRef("urn:c")}]

for fmt in ("json", "xml"):
    fresh = g.query(q)
    back = Result.parse(io.BytesIO(fresh.serialize(format=fmt)), format=fmt)
    assert [dict(b) for b in back.bindings] == expected, "untouched result round-trips"

    res = g.query(q)
    for row in res:  # the documented way to consume a result
        pass
    back = Result.parse(io.BytesIO(res.serialize(format=fmt)), format=fmt)
    got = [dict(b) for b in back.bindings]
    if got != expected:
        print(
            "FAIL: after a for loop over the query result its %s form has %d row(s) instead of %d: "
            "the row in which nothing is bound is gone (len(result) is now %d)"
            % (fmt, len(got), len(expected), len(res))
        )
        sys.exit(1)
print("PASS")
