"""The TSV form of a SELECT result without variables (e.g. SELECT * {}) is
rejected; the CSV, JSON and XML readers accept the corresponding documents."""
import io
import sys

from rdflib import Graph
from rdflib.query import Result

res = Graph().query("SELECT * {}")  # no variables, one (empty) solution
assert res.vars == [] and [dict(b) for b in res.bindings] == [{}]

# the other exchange formats carry this result
for fmt in ("csv", "json", "xml"):
    back = Result.parse(io.BytesIO(res.serialize(format=fmt)), format=fmt)
    assert back.vars == [] and [dict(b) for b in back.bindings] == [{}], fmt

# its TSV rendering: an empty header line (no variables), one empty line per solution
tsv = b"\n\n"
try:
    back = Result.parse(io.BytesIO(tsv), format="tsv")
except Exception as e:
    print("FAIL: TSV result without variables is not read: %s: %s" % (type(e).__name__, str(e)[:60]))
    sys.exit(1)
if back.vars != [] or [dict(b) for b in back.bindings] != [{}]:
    print("FAIL: TSV result without variables read as vars=%r rows=%r" % (back.vars, back.bindings))
    sys.exit(1)
print("PASS")
