# QuotedGraph.addN / QuotedGraph += assert the triples instead of quoting them,
# unlike QuotedGraph.add: they leak into the union (conjunctive) view of the store.
import sys
import warnings

warnings.simplefilter("ignore")
from rdflib import Dataset, Literal, URIRef
from rdflib.graph import QuotedGraph
from rdflib.plugins.stores.memory import Memory

s, p = URIRef("urn:s"), URIRef("urn:p")
t_add = (s, p, Literal("via add"))
t_addn = (s, p, Literal("via addN"))
t_iadd = (s, p, Literal("via +="))

store = Memory()
formula = QuotedGraph(store, URIRef("urn:formula"))
union = Dataset(store, default_union=True)  # view of everything asserted in the store

formula.add(t_add)
formula.addN([t_addn + (formula,)])
formula += [t_iadd]

# the formula itself holds the three triples whichever way they were added
assert set(formula) == {t_add, t_addn, t_iadd}, set(formula)

leaked = [t[2] for t in (t_add, t_addn, t_iadd) if t in union]
if leaked or len(union) != 0:
    print(
        "FAIL: triples put into a QuotedGraph with addN/+= are asserted in the store "
        "(visible in the union graph, len=%d): %s; the one added with add() is not"
        % (len(union), [str(x) for x in leaked])
    )
    sys.exit(1)
print("PASS")
