# Graph.addN accepts a quad whose context is *another Graph object with the same
# name* (e.g. the same-named graph of a different store) but hands that foreign
# object to the store as the context.  The store then registers the foreign
# object as the named graph, so the named graph obtained from a Dataset over
# the store is a graph backed by the wrong store: it does not contain the
# triple that was just added to it.
import sys
import warnings

warnings.simplefilter("ignore")
from rdflib import Dataset, Graph, Literal, URIRef
from rdflib.plugins.stores.memory import Memory

name = URIRef("urn:g")
t = (URIRef("urn:s"), URIRef("urn:p"), Literal(0))

source = Graph(identifier=name)  # graph <urn:g> living in its own store
source.add(t)

store = Memory()
target = Graph(store, identifier=name)  # graph <urn:g> of `store`
target.addN((s, p, o, source) for s, p, o in source)  # copy, quads keep their graph
assert set(target) == {t} and len(target) == 1

ds = Dataset(store)
assert (t + (name,)) in set(ds.quads()), "the quad is in the dataset"

problems = []
got = ds.get_graph(name)
if got.store is not store:
    problems.append("ds.get_graph(<urn:g>) is backed by a different store")
if t not in got or len(got) != 1:
    problems.append("ds.get_graph(<urn:g>) has len %d and does not contain the triple" % len(got))
for g in ds.graphs():
    if g.identifier == name and g.store is not store:
        problems.append("ds.graphs() yields a graph of a foreign store")
t2 = (URIRef("urn:s"), URIRef("urn:p"), Literal(""))
ds.get_graph(name).add(t2)
if (t2 + (name,)) not in set(ds.quads()):
    problems.append("a triple added to ds.get_graph(<urn:g>) does not reach the dataset (it went to the other store)")
source.remove((None, None, None))  # emptying the *source* must not affect `store`
if t not in ds.get_graph(name):
    problems.append("after emptying the source graph the dataset's <urn:g> is empty")

if problems:
    print("FAIL: " + "; ".join(problems))
    sys.exit(1)
print("PASS")
