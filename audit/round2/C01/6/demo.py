# Graph.remove() of a fully bound triple given as a list raises TypeError on the
# default store, although add / set / `in` / triples() accept the same list, a
# list *pattern* with wildcards is accepted by remove(), and the simple store
# accepts it.  `g -= [[s, p, o]]` fails the same way.
import sys
import warnings

warnings.simplefilter("ignore")
from rdflib import Graph, Literal, URIRef
from rdflib.plugins.stores.memory import Memory, SimpleMemory

s, p, o = URIRef("urn:s"), URIRef("urn:p"), Literal(0)
problems = []
for store_cls in (SimpleMemory, Memory):
    g = Graph(store=store_cls())
    g.add([s, p, o])  # accepted
    g.set([s, p, o])  # accepted (the form used in Graph.set's own docstring)
    assert [s, p, o] in g and list(g.triples([s, p, o])) == [(s, p, o)]
    g.remove([s, None, o])  # a list pattern with a wildcard is accepted
    assert len(g) == 0
    g.add([s, p, o])
    try:
        g.remove([s, p, o])
    except Exception as e:  # noqa: BLE001
        problems.append("%s: g.remove([s, p, o]) raised %r" % (store_cls.__name__, e))
        continue
    if len(g) != 0:
        problems.append("%s: triple not removed" % store_cls.__name__)

if problems:
    print("FAIL: " + "; ".join(problems))
    sys.exit(1)
print("PASS")
