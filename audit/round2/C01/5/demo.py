# Slicing a graph with all three positions bound, g[s:p:o], is documented as the
# shortcut for `(s, p, o) in g` / g.triples((s, p, o)), but it yields the triple
# whether or not the graph contains it.
import sys
import warnings

warnings.simplefilter("ignore")
from rdflib import Graph, Literal, URIRef
from rdflib.plugins.stores.memory import Memory, SimpleMemory

s, p = URIRef("urn:s"), URIRef("urn:p")
present = (s, p, Literal("x"))
absent = [(s, p, Literal("")), (s, p, Literal(0)), (s, p, Literal(False)), (s, p, URIRef("urn:o"))]

problems = []
for store_cls in (Memory, SimpleMemory):
    g = Graph(store=store_cls())
    g.add(present)
    assert list(g[s:p:present[2]]) == [present]
    for t in absent:
        assert t not in g and list(g.triples(t)) == []
        got = list(g[t[0] : t[1] : t[2]])
        if got != []:
            problems.append("%s: g[s:p:%s] -> %d result(s)" % (store_cls.__name__, t[2].n3(), len(got)))
    g.remove(present)
    if list(g[s:p:present[2]]) != []:
        problems.append("%s: removed triple still returned by g[s:p:o]" % store_cls.__name__)

if problems:
    print("FAIL: g[s:p:o] yields triples that are not in the graph: " + "; ".join(problems))
    sys.exit(1)
print("PASS")
