# A graph named by a falsy identifier (the IRI <> = URIRef(""), or BNode(""))
# is silently given a fresh random blank-node name, so the triples added under
# that name can never be found (or removed) again.
import sys
import warnings

warnings.simplefilter("ignore")
from rdflib import Dataset, Graph, Literal, URIRef
from rdflib.plugins.stores.memory import Memory

t = (URIRef("urn:s"), URIRef("urn:p"), Literal(0))
problems = []

for name in (URIRef("urn:g"), URIRef("")):
    store = Memory()
    g = Graph(store, identifier=name)
    g.add(t)
    again = Graph(store, identifier=name)  # the same named graph, opened again
    if g.identifier != name:
        problems.append("Graph(identifier=%r).identifier is %r" % (name, g.identifier))
    if t not in again or len(again) != 1:
        problems.append("triple added to graph %r is not in Graph(store, %r)" % (name, name))

    ds = Dataset()
    ds.add(t + (name,))
    if t + (name,) not in ds:
        problems.append("quad added with graph name %r is not `in` the dataset" % (name,))
    ds.remove(t + (name,))
    if len(ds) != 0:
        problems.append("quad with graph name %r cannot be removed (len %d)" % (name, len(ds)))

if problems:
    print("FAIL: " + "; ".join(problems))
    sys.exit(1)
print("PASS")
