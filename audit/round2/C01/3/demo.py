# len() of a ReadOnlyGraphAggregate counts a triple once per member graph that
# holds it, while iteration / triples() / membership see it once.
import sys
import warnings

warnings.simplefilter("ignore")
from rdflib import Graph, Literal, URIRef
from rdflib.graph import ReadOnlyGraphAggregate
from rdflib.plugins.stores.memory import Memory

s, p = URIRef("urn:s"), URIRef("urn:p")
shared = (s, p, Literal(0))
only2 = (s, p, Literal(""))

store = Memory()
g1 = Graph(store, URIRef("urn:g1"))
g2 = Graph(store, URIRef("urn:g2"))
g1.add(shared)
g2.add(shared)
g2.add(only2)

agg = ReadOnlyGraphAggregate([g1, g2], store)
model = {shared, only2}

it = list(agg)
assert set(it) == model and len(it) == len(model), it
assert list(agg.triples((None, None, None))) == it

if len(agg) != len(model):
    print(
        "FAIL: len(aggregate) == %d but it iterates %d distinct triples "
        "(the triple held by both member graphs is counted twice)" % (len(agg), len(it))
    )
    sys.exit(1)
print("PASS")
