"""C12: the same document parsed into fresh graphs must give isomorphic graphs.

The document is 7 disjoint directed triangles of blank nodes (21 triples).
rdflib.compare.isomorphic() on two fresh parses of it does not come back in any
reasonable time (one canonicalisation: 4 triangles 0.65 s, 5: 5.8 s, 6: 117 s,
7: not finished after 50 minutes) - the time grows
super-exponentially with the number of triangles, although the graph is trivially
symmetric.  The demo gives the comparison 60 seconds.
"""
import signal
import sys
import time
import warnings

warnings.simplefilter("ignore")
from rdflib import Graph
from rdflib.compare import isomorphic

K = 7
LIMIT = 60
DOC = "".join(
    "_:t%dn%d <http://e/p> _:t%dn%d .\n" % (c, i, c, (i + 1) % 3)
    for c in range(K)
    for i in range(3)
)


class Timeout(Exception):
    pass


def on_alarm(*_):
    raise Timeout()


g1 = Graph().parse(data=DOC, format="nt")
g2 = Graph().parse(data=DOC, format="nt")
signal.signal(signal.SIGALRM, on_alarm)
signal.alarm(LIMIT)
start = time.time()
try:
    result = isomorphic(g1, g2)
except Timeout:
    print(
        "FAIL: isomorphic() of two fresh parses of a %d-triple document "
        "(%d disjoint blank-node triangles) did not finish within %d s"
        % (3 * K, K, LIMIT)
    )
    sys.exit(1)
finally:
    signal.alarm(0)
if not result:
    print("FAIL: two fresh parses of the same document reported as not isomorphic")
    sys.exit(1)
print("PASS (%.2fs)" % (time.time() - start))
