"""C12: the result of parsing is the RDF merge of the old content and the document.

A TriX document whose <graph> has no name (the name is optional in TriX; Jena and
the trix-jena-* files in rdflib's own test data read it as the default graph).
rdflib's TriX parser puts these triples into a brand-new graph named by a fresh
blank node instead of the graph it was asked to parse into:
  * Graph().parse(...)  -> the graph stays EMPTY, the document's triples are lost
    for the caller (they sit in an unreachable context of the store);
  * Dataset().parse(...) -> the default graph stays empty, and every further parse
    of the same kind of document creates yet another anonymous graph.
The same data as N-Quads lands in the target / default graph.
"""
import sys
import warnings

warnings.simplefilter("ignore")
from rdflib import Dataset, Graph, Literal, URIRef

TRIX = """<TriX xmlns="http://www.w3.org/2004/03/trix/trix-1/">
  <graph>
    <triple>
      <uri>http://example.org/s</uri>
      <uri>http://example.org/p</uri>
      <plainLiteral>o</plainLiteral>
    </triple>
  </graph>
</TriX>"""
NQ = '<http://example.org/s> <http://example.org/p> "o" .\n'
T = (URIRef("http://example.org/s"), URIRef("http://example.org/p"), Literal("o"))

problems = []

g = Graph()
g.add((URIRef("http://example.org/old"), URIRef("http://example.org/p"), Literal("x")))
g.parse(data=TRIX, format="trix")
if T not in g or len(g) != 2:
    problems.append("Graph.parse(format='trix'): graph has %d triple(s), document triple missing" % len(g))

ref = Dataset()
ref.parse(data=NQ, format="nquads")
ds = Dataset()
ds.parse(data=TRIX, format="trix")
if T not in ds.default_context:
    where = [str(getattr(q[3], "identifier", q[3])) for q in ds.quads(T)]
    problems.append(
        "Dataset.parse(format='trix'): triple not in the default graph but in %s "
        "(N-Quads puts it into %s)" % (where, [str(getattr(q[3], "identifier", q[3])) for q in ref.quads(T)])
    )

if problems:
    print("FAIL: unnamed TriX <graph> is not parsed into the target graph: " + "; ".join(problems))
    sys.exit(1)
print("PASS")
