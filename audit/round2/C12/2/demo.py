"""C12: the same document parsed into fresh graphs must give isomorphic graphs.

A cubic (3-regular) undirected graph on 10 blank nodes, written as 30 N-Triples
(each edge in both directions).  Colour refinement cannot split the nodes, so the
canonical labelling has to recurse into several equally scored branches; the
recursion in _TripleCanonicalizer._traces scores every branch with a stale
variable, so "the first branch wins" and the first branch depends on the random
blank node ids.  About a quarter of the fresh parses are reported as not
isomorphic to the first parse.
"""
import sys
import warnings

warnings.simplefilter("ignore")
from rdflib import Graph
from rdflib.compare import isomorphic, to_isomorphic

EDGES = [(0, 1), (0, 2), (0, 7), (1, 5), (1, 6), (2, 3), (2, 9), (3, 4),
         (3, 6), (4, 6), (4, 7), (5, 8), (5, 9), (7, 8), (8, 9)]
DOC = "".join(
    "_:b%d <http://e/p> _:b%d .\n_:b%d <http://e/p> _:b%d .\n" % (a, b, b, a)
    for a, b in EDGES
)

first = Graph().parse(data=DOC, format="nt")
digests = {to_isomorphic(first).internal_hash()}
not_iso = 0
N = 60
for _ in range(N):
    g = Graph().parse(data=DOC, format="nt")
    digests.add(to_isomorphic(g).internal_hash())
    if not isomorphic(first, g):
        not_iso += 1

if not_iso or len(digests) != 1:
    print(
        "FAIL: the same 30-triple document parsed into fresh graphs: "
        "isomorphic() returned False for %d of %d parses (%d distinct digests)"
        % (not_iso, N, len(digests))
    )
    sys.exit(1)
print("PASS")
