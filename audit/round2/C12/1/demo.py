"""C12: the same document parsed into fresh graphs must give isomorphic graphs.

A 12-triple N-Triples document over 6 blank nodes (every node has one self loop,
out-degree 2 and in-degree 2; the graph has no non-trivial automorphism).
rdflib.compare.isomorphic() says "not isomorphic" for about half of the pairs of
fresh parses, depending only on the random blank node ids of the parse.
"""
import sys
import warnings

warnings.simplefilter("ignore")
from rdflib import Graph
from rdflib.compare import isomorphic, to_isomorphic

EDGES = [(0, 0), (0, 4), (1, 1), (1, 5), (2, 2), (2, 4),
         (3, 0), (3, 3), (4, 1), (4, 5), (5, 2), (5, 3)]
DOC = "".join("_:b%d <http://e/p> _:b%d .\n" % e for e in EDGES)

first = Graph().parse(data=DOC, format="nt")
digests = {to_isomorphic(first).internal_hash()}
not_iso = 0
N = 200
for _ in range(N):
    g = Graph().parse(data=DOC, format="nt")
    digests.add(to_isomorphic(g).internal_hash())
    if not isomorphic(first, g):
        not_iso += 1

if not_iso or len(digests) != 1:
    print(
        "FAIL: the same 12-triple document parsed into fresh graphs: "
        "isomorphic() returned False for %d of %d parses (%d distinct digests)"
        % (not_iso, N, len(digests))
    )
    sys.exit(1)
print("PASS")
