"""`?s <urn:p>?o` / `?s :p?o`: by SPARQL's longest-match tokenisation the '?'
starts the variable ?o (a plain triple pattern); the path grammar grabs it as
a zero-or-one modifier and the query does not parse (or, with `?1`, is
answered as another query)."""
import sys

from rdflib import Graph, URIRef, Variable

g = Graph()
a, b, c, p = (URIRef("urn:" + x) for x in "abcp")
g.add((a, p, b))
g.add((b, p, c))

problems = []

expected = {(a, b), (b, c)}
for q in [
    "SELECT * WHERE { ?s <urn:p>?o }",
    "PREFIX : <urn:> SELECT * WHERE { ?s :p?o }",
    "PREFIX : <urn:> SELECT * WHERE { ?s :p ?o ; :p?o }",
]:
    try:
        rows = {(r[Variable("s")], r[Variable("o")]) for r in g.query(q).bindings}
    except Exception as e:  # noqa: BLE001
        problems.append("%r does not parse (%s)" % (q, type(e).__name__))
        continue
    if rows != expected:
        problems.append("%r gives %r" % (q, sorted(rows)))

# control: the forms that really carry a modifier keep working
ctl = {
    "SELECT * WHERE { <urn:a> <urn:p>??o }": {a, b},
    "SELECT * WHERE { <urn:a> <urn:p>? ?o }": {a, b},
    "SELECT * WHERE { <urn:a> <urn:p>*?o }": {a, b, c},
}
for q, exp in ctl.items():
    got = {r[Variable("o")] for r in g.query(q).bindings}
    if got != exp:
        problems.append("control %r gives %r" % (q, sorted(got)))

# ?1 is a variable too (VARNAME may start with a digit): `:a :p?1` is `:a :p ?1`
res = g.query("SELECT * WHERE { <urn:a> <urn:p>?1 }")
got = [dict(r) for r in res.bindings]
if got != [{Variable("1"): b}]:
    problems.append(
        "'<urn:a> <urn:p>?1' should bind ?1 to urn:b, got %r (read as <urn:p>? 1)" % got
    )

if problems:
    print("FAIL " + "; ".join(problems))
    sys.exit(1)
print("PASS")
