"""A path that has to cross two member graphs of a ReadOnlyGraphAggregate:
triples()/subjects()/objects()/SPARQL find the pair, `in` denies it."""
import sys

from rdflib import Graph, URIRef
from rdflib.graph import ReadOnlyGraphAggregate

a, b, c = URIRef("urn:a"), URIRef("urn:b"), URIRef("urn:c")
p, q = URIRef("urn:p"), URIRef("urn:q")

g1 = Graph()
g1.add((a, p, b))
g2 = Graph()
g2.add((b, q, c))
agg = ReadOnlyGraphAggregate([g1, g2])

problems = []
for name, path, s, o in [
    ("p/q", p / q, a, c),
    ("(p|q)+", (p | q) * "+", a, c),
    ("(p|q)*", (p | q) * "*", a, c),
    ("^q/^p", ~q / ~p, c, a),
]:
    via_triples = [(x, y) for x, _, y in agg.triples((s, path, o))]
    via_objects = o in set(agg.objects(s, path))
    via_in = (s, path, o) in agg
    if via_triples != [(s, o)] or not via_objects:
        problems.append("%s: triples/objects do not find the pair (unexpected)" % name)
    if not via_in:
        problems.append(
            "%s: triples((s, path, o)) yields the pair but (s, path, o) in aggregate is False"
            % name
        )

# the same aggregate as one graph, for reference
u = Graph()
u += g1
u += g2
assert (a, p / q, c) in u

if problems:
    print("FAIL " + "; ".join(problems))
    sys.exit(1)
print("PASS")
