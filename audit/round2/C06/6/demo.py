"""TriX serializer with the encoding option: a character outside the target
encoding raises UnicodeEncodeError (XML can express it as a character reference),
and with a multi-byte encoding such as UTF-16 the document is not well-formed."""
import os
import sys
import tempfile
import warnings

warnings.filterwarnings("ignore")
from rdflib import Dataset, Literal, Namespace

EX = Namespace("http://example.org/")

ds = Dataset()
ds.add((EX.s, EX.p, Literal("price: 5 €"), EX.g))  # EURO SIGN, not in latin-1
want = {(s, p, o, g) for s, p, o, g in ds.quads()}

problems = []
for enc in ("utf-8", "latin-1", "utf-16"):
    fd, path = tempfile.mkstemp(suffix=".trix")
    os.close(fd)
    try:
        # written to and read from a file, so that the XML parser sees the bytes
        ds.serialize(destination=path, format="trix", encoding=enc)
        back = Dataset()
        back.parse(path, format="trix")
        got = {(s, p, o, g) for s, p, o, g in back.quads()}
        if got != want:
            problems.append("%s: different quads" % enc)
    except Exception as e:
        problems.append("%s: %s" % (enc, type(e).__name__))
    finally:
        os.unlink(path)

if problems:
    print("FAIL: TriX with encoding= does not round-trip: " + "; ".join(problems))
    sys.exit(1)
print("PASS")
