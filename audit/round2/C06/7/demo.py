"""A Dataset read from JSON-LD whose context has the (legal) prefix term "3d" gets the
namespace binding 3d -> <http://example.org/3d/>. TriG and TriX then write that prefix
verbatim (@prefix 3d: / xmlns:3d=), which is neither a PN_PREFIX nor an NCName:
the output does not read back."""
import sys
import warnings

warnings.filterwarnings("ignore")
from rdflib import Dataset

SRC = """
{
  "@context": {"3d": "http://example.org/3d/"},
  "@id": "http://example.org/g",
  "@graph": [ {"@id": "http://example.org/s", "3d:model": "cube"} ]
}
"""
ds = Dataset()
ds.parse(data=SRC, format="json-ld")  # binds the prefix "3d" (Parser.parse: dataset.bind(name, term.id))
want = {(s, p, o, g) for s, p, o, g in ds.quads()}
assert len(want) == 1

problems = []
for fmt in ("nquads", "trig", "trix"):
    data = ds.serialize(format=fmt)
    back = Dataset()
    try:
        back.parse(data=data, format=fmt)
    except Exception as e:
        problems.append("%s output does not parse (%s)" % (fmt, type(e).__name__))
        continue
    if {(s, p, o, g) for s, p, o, g in back.quads()} != want:
        problems.append("%s: different quads" % fmt)

if problems:
    print("FAIL: with the prefix '3d' bound: " + "; ".join(problems))
    sys.exit(1)
print("PASS")
