"""JSON-LD: an IRI below @vocab whose remainder contains ':' is written as that
remainder ("c:d"), which reads back as the absolute IRI <c:d>."""
import sys
import warnings

warnings.filterwarnings("ignore")
from rdflib import Dataset, Literal, Namespace, URIRef

EX = Namespace("http://example.org/")
P = URIRef("http://example.org/c:d")  # e.g. <http://dbpedia.org/resource/Category:X> style names

ds = Dataset()
ds.add((EX.s, P, Literal("x"), EX.g))

data = ds.serialize(format="json-ld", context={"@vocab": str(EX)})
back = Dataset()
back.parse(data=data, format="json-ld")

want = {(s, p, o, g) for s, p, o, g in ds.quads()}
got = {(s, p, o, g) for s, p, o, g in back.quads()}
if got != want:
    print("FAIL: predicate <%s> came back as %s" % (P, sorted({q[1].n3() for q in got})))
    sys.exit(1)
print("PASS")
