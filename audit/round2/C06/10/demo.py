"""JSON-LD serializer, order dependent: a well-formed list ( ex:a ex:b ) that is the
rdf:first value of a blank node which is only reachable through a cycle of blank nodes.
Depending on set iteration order (i.e. on the random blank node ids) the second cell is
written both as a node object of its own and as a member of the folded @list: the
dataset comes back with two extra quads."""
import sys
import warnings

warnings.filterwarnings("ignore")
from rdflib import BNode, Dataset, Literal, Namespace, RDF

EX = Namespace("http://example.org/")


def build():
    ds = Dataset()
    x, c1, c2 = BNode(), BNode(), BNode()
    g = EX.g
    # x: a (cyclic) cell with an extra property; its member is the list (a b)
    for t in [
        (x, EX.q, Literal(1)), (x, RDF.first, c1), (x, RDF.rest, x),
        (c1, RDF.first, EX.a), (c1, RDF.rest, c2),
        (c2, RDF.first, EX.b), (c2, RDF.rest, RDF.nil),
    ]:
        ds.add(t + (g,))
    return ds


bad = 0
runs = 200
for _ in range(runs):
    ds = build()  # fresh blank node ids -> another iteration order
    back = Dataset()
    back.parse(data=ds.serialize(format="json-ld"), format="json-ld")
    if len(back) != len(ds):
        bad += 1
        sizes = (len(ds), len(back))

if bad:
    print("FAIL: in %d of %d runs the %d quads came back as %d (a list cell is written twice)" % (bad, runs, *sizes))
    sys.exit(1)
print("PASS")
