"""JSON-LD serializer with a context term of "@type": "@vocab": an RDF list value is
folded into @list under that term with its literal members written bare ("x", 0), so
the term's type coercion turns them into IRIs / untyped strings on reading."""
import sys
import warnings

warnings.filterwarnings("ignore")
from rdflib import BNode, Dataset, Namespace

EX = Namespace("http://example.org/")

ds = Dataset()
ds.parse(
    data="""@prefix ex: <http://example.org/> .
            ex:g { ex:s ex:p ( "x" 7 ) . }""",
    format="trig",
)

ctx = {"p": {"@id": str(EX.p), "@type": "@vocab"}}
data = ds.serialize(format="json-ld", context=ctx)
back = Dataset()
back.parse(data=data, format="json-ld", publicID="http://example.org/doc")


def members(d):
    return sorted(o.n3() for s, p, o, g in d.quads() if p.endswith("#first"))


if members(back) != members(ds):
    print("FAIL: list members %s came back as %s" % (members(ds), members(back)))
    sys.exit(1)
print("PASS")
