"""JSON-LD serializer given a Context *instance* that has a @vocab: the keys are
shortened against the vocabulary, but the @context that is written has no "@vocab",
so the properties cannot be expanded on parsing and the quads are lost."""
import sys
import warnings

warnings.filterwarnings("ignore")
from rdflib import Dataset, Literal, Namespace
from rdflib.plugins.shared.jsonld.context import Context

EX = Namespace("http://example.org/")

ds = Dataset()
ds.add((EX.s, EX.p, Literal("x"), EX.g))
ds.add((EX.s, EX.q, Literal("y")))

ctx = Context({"@vocab": str(EX)})  # the serializer accepts a Context object as context=
data = ds.serialize(format="json-ld", context=ctx)

back = Dataset()
back.parse(data=data, format="json-ld")

want = {(s, p, o, g) for s, p, o, g in ds.quads()}
got = {(s, p, o, g) for s, p, o, g in back.quads()}
if got != want:
    print(
        "FAIL: %d of %d quads lost; '@vocab' is missing from the written @context:\n%s"
        % (len(want - got), len(want), data)
    )
    sys.exit(1)
print("PASS")
