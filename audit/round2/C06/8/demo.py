"""JSON-LD serializer with a context term of "@type": "@id": when the value of that
property is an RDF list, only the reference to the list head is written - all the
rdf:first / rdf:rest statements of the list disappear."""
import sys
import warnings

warnings.filterwarnings("ignore")
from rdflib import Dataset, Namespace

EX = Namespace("http://example.org/")

ds = Dataset()
ds.parse(
    data="""@prefix ex: <http://example.org/> .
            ex:g { ex:s ex:p ( ex:a ex:b ) . }""",
    format="trig",
)
assert len(ds) == 5  # s p _:l + two cells with first/rest

ctx = {"p": {"@id": str(EX.p), "@type": "@id"}}
data = ds.serialize(format="json-ld", context=ctx)
back = Dataset()
back.parse(data=data, format="json-ld")

preds = sorted(str(p).rsplit("#")[-1].rsplit("/")[-1] for _, p, _, _ in back.quads())
if len(back) != len(ds):
    print(
        "FAIL: %d quads written for a dataset of %d (came back: %s); the list cells are not in the document:\n%s"
        % (len(back), len(ds), preds, data)
    )
    sys.exit(1)
print("PASS")
