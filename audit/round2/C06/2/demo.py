"""JSON-LD: a named graph whose IRI equals the base IRI and that holds a single node
is written as a plain node of the default graph (its relative name "" is falsy)."""
import sys
import warnings

warnings.filterwarnings("ignore")
from rdflib import Dataset, Namespace, URIRef

EX = Namespace("http://example.org/")
DOC = URIRef("http://example.org/doc")  # the document / base IRI, also the graph name

ds = Dataset()
ds.add((EX.s, EX.p, EX.o, DOC))  # one node, in the named graph <http://example.org/doc>

failed = []
for label, ser_kw, parse_kw in [
    ("base=", dict(base=str(DOC)), dict(publicID=str(DOC))),
    ("context @base", dict(context={"@base": str(DOC)}), {}),
]:
    data = ds.serialize(format="json-ld", **ser_kw)
    back = Dataset()
    back.parse(data=data, format="json-ld", **parse_kw)
    got = {(s, p, o, g) for s, p, o, g in back.quads()}
    want = {(s, p, o, g) for s, p, o, g in ds.quads()}
    if got != want:
        failed.append((label, data, got))

if failed:
    label, data, got = failed[0]
    print(
        "FAIL: with %s the quad of graph <%s> comes back in %s; document:\n%s"
        % (label, DOC, sorted(g for *_, g in got), data)
    )
    sys.exit(1)
print("PASS")
