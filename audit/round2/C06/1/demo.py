"""RDF Patch diff: a quad whose graph is named by a blank node is written with the
graph name as a (relative) IRI <label> instead of _:label."""
import sys
import warnings

warnings.filterwarnings("ignore")
from rdflib import BNode, Dataset, Namespace

EX = Namespace("http://example.org/")
g = BNode("g")

first = Dataset()
first.add((EX.s, EX.p, EX.o1, g))

second = Dataset()
second.add((EX.s, EX.p, EX.o1, g))
second.add((EX.s, EX.p, EX.o2, g))  # one more triple in the blank-node-named graph

patch = first.serialize(format="patch", target=second)


def quads(ds):
    return {(s, p, o, c) for s, p, o, c in ds.quads()}


try:
    first.parse(data=patch, format="patch")
except Exception as e:  # the row "A <s> <p> <o2> <g> ." does not even parse
    print("FAIL: diff patch does not read back (%s); patch was:\n%s" % (type(e).__name__, patch))
    sys.exit(1)

if quads(first) != quads(second):
    print("FAIL: applying diff(first, second) to first does not give second; patch was:\n" + patch)
    sys.exit(1)
print("PASS")
