"""JSON-LD serializer with a context whose term has an @index / @id / @type / @graph
container: the term is used as if it had no container, the value object is written
directly under it, and the parser then reads that object as the container map."""
import sys
import warnings

warnings.filterwarnings("ignore")
from rdflib import Dataset, Literal, Namespace

EX = Namespace("http://example.org/")

ds = Dataset()
ds.add((EX.s, EX.p, EX.o, EX.g))  # an IRI object, in the named graph <g>

bad = []
for container in ("@index", "@id", "@type", "@graph"):
    ctx = {"p": {"@id": str(EX.p), "@container": container}}
    data = ds.serialize(format="json-ld", context=ctx)
    back = Dataset()
    back.parse(data=data, format="json-ld")
    want = {(s, p, o, g) for s, p, o, g in ds.quads()}
    got = {(s, p, o, g) for s, p, o, g in back.quads()}
    if got != want:
        bad.append((container, sorted(got - want)))

if bad:
    print(
        "FAIL: <s> <p> <o> <g> does not survive when term p has container %s; e.g. %s came back as %s"
        % ([c for c, _ in bad], bad[0][0], [tuple(str(t) for t in q[:3]) + (type(q[2]).__name__,) for q in bad[0][1]])
    )
    sys.exit(1)
print("PASS")
