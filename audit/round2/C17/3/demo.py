"""The local part of a prefixed name is only checked for a trailing '.'.
With a bound namespace that ends inside a path segment the local part can
start with '-' (':-1'), and a '%' that is no %HH escape is copied: both are
written by the Turtle serializer and by URIRef.n3() and cannot be read back."""
import sys
from rdflib import Graph, URIRef

problems = []


def reads_back(g, fmt="turtle"):
    out = g.serialize(format=fmt)
    try:
        return set(Graph().parse(data=out, format=fmt)) == set(g), out
    except Exception:  # noqa: BLE001
        return False, out


# (a) empty prefix bound to a namespace that is a proper prefix of a segment
g = Graph(bind_namespaces="none")
g.bind("", "http://example.org/item")
s = URIRef("http://example.org/item-1")
g.add((URIRef("http://example.org/items"), s, URIRef("http://example.org/itemo")))
ok, out = reads_back(g)
if not ok:
    problems.append("turtle writes %r" % out.strip().split("\n")[-1])
g.bind("ex", "http://example.org/")
pname = s.n3(g.namespace_manager)
decl = "".join("@prefix %s: <%s> .\n" % pn for pn in g.namespaces())
try:
    back = Graph().parse(data=decl + "<urn:s> %s <urn:o> ." % pname, format="turtle")
    ok = set(back.predicates()) == {s}
except Exception:  # noqa: BLE001
    ok = False
if not ok:
    problems.append("n3() = %r" % pname)

# (b) a '%' that does not start a %HH escape
g = Graph(bind_namespaces="none")
g.bind("ex", "http://example.org/")
u = URIRef("http://example.org/100%")
g.add((u, URIRef("http://example.org/p"), URIRef("http://example.org/o")))
ok, out = reads_back(g)
if not ok:
    problems.append("turtle writes %r" % out.strip().split("\n")[-1])

if problems:
    print("FAIL: prefixed name with an invalid local part: " + "; ".join(problems))
    sys.exit(1)
print("PASS")
