"""URIRef.n3(namespace_manager) escapes '(' and ')' in the local part
(PN_LOCAL_ESC); rdflib.util.from_n3, the library's own reader for n3 terms,
expands the prefixed name without undoing the escapes."""
import sys
from rdflib import Graph, Literal, URIRef
from rdflib.util import from_n3

g = Graph(bind_namespaces="none")
g.bind("ex", "http://example.org/")
nm = g.namespace_manager

problems = []
for term in [
    URIRef("http://example.org/f(x)"),
    Literal("1", datatype=URIRef("http://example.org/unit(m)")),
]:
    text = term.n3(nm)
    back = from_n3(text, nsm=nm)
    if back != term:
        problems.append("%r -> n3 %s -> from_n3 %r" % (term, text, back))

if problems:
    print("FAIL: from_n3(t.n3(nm), nsm=nm) != t: " + "; ".join(problems))
    sys.exit(1)
print("PASS")
