"""Prefixes that other syntaxes allow (XML NCName 'v1.', JSON-LD term '3d') are
bound by the parsers and then written verbatim by the Turtle-family
serializers and by URIRef.n3(); neither is a Turtle PN_PREFIX, the output
cannot be read back."""
import sys
from rdflib import Graph, URIRef

RDFXML = """<?xml version="1.0"?>
<rdf:RDF xmlns:rdf="http://www.w3.org/1999/02/22-rdf-syntax-ns#"
         xmlns:v1.="http://example.org/v1.0/">
  <rdf:Description rdf:about="http://example.org/s">
    <v1.:p rdf:resource="http://example.org/o"/>
  </rdf:Description>
</rdf:RDF>"""
JSONLD = """{"@context": {"3d": "http://example.org/3d#"},
 "@id": "http://example.org/s", "3d:p": {"@id": "http://example.org/o"}}"""

problems = []
for src, sfmt, iri in [
    (RDFXML, "xml", "http://example.org/v1.0/p"),
    (JSONLD, "json-ld", "http://example.org/3d#p"),
]:
    g = Graph(bind_namespaces="none")
    g.parse(data=src, format=sfmt)
    assert len(g) == 1
    for fmt in ("turtle", "longturtle", "n3"):
        out = g.serialize(format=fmt)
        try:
            back = Graph().parse(
                data=out, format="turtle" if fmt == "longturtle" else fmt
            )
            ok = set(back) == set(g)
        except Exception:  # noqa: BLE001
            ok = False
        if not ok:
            problems.append(
                "%s -> %s: %r" % (sfmt, fmt, out.strip().split("\n")[0])
            )
    # URIRef.n3 with the namespace manager
    pname = URIRef(iri).n3(g.namespace_manager)
    decl = "".join("@prefix %s: <%s> .\n" % pn for pn in g.namespaces())
    try:
        back = Graph().parse(data=decl + "<urn:s> <urn:p> %s ." % pname, format="turtle")
        ok = set(back.objects()) == {URIRef(iri)}
    except Exception:  # noqa: BLE001
        ok = False
    if not ok:
        problems.append("n3() = %r" % pname)

if problems:
    print(
        "FAIL: prefix that is no Turtle PN_PREFIX written as is, output does not read back: "
        + "; ".join(problems)
    )
    sys.exit(1)
print("PASS")
