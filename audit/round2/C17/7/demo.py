"""Prefix '_' : the compact IRI '_:x' is blank node syntax in N3/Turtle/SPARQL
and in JSON-LD.  The Turtle serializer knows and renames the prefix; URIRef.n3()
and the JSON-LD serializer (auto_compact) use it, the IRIs come back as blank
nodes."""
import sys
from rdflib import BNode, Graph, URIRef
from rdflib.util import from_n3

g = Graph(bind_namespaces="none")
g.bind("_", "http://example.org/")
s, p, o = (URIRef("http://example.org/" + x) for x in "spo")
g.add((s, p, o))

problems = []
# control: the Turtle serializer copes
assert set(Graph().parse(data=g.serialize(format="turtle"), format="turtle")) == set(g)

out = g.serialize(format="json-ld", auto_compact=True)
back = Graph().parse(data=out, format="json-ld")
if set(back) != set(g):
    problems.append(
        "json-ld auto_compact writes %s which reads back as %r"
        % (" ".join(out.split()), sorted(back))
    )

text = s.n3(g.namespace_manager)
if isinstance(from_n3(text, nsm=g.namespace_manager), BNode) or text.startswith("_:"):
    problems.append("n3() = %r is a blank node label" % text)

if problems:
    print("FAIL: prefix '_': " + "; ".join(problems))
    sys.exit(1)
print("PASS")
