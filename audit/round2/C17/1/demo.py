"""Empty prefix bound to the RDF namespace: the RDF/XML serializers write the
rdf:about / rdf:resource / rdf:datatype attributes (pretty-xml) or every RDF
name (xml, when 'rdf' itself names another namespace) with that empty prefix."""
import sys
from rdflib import RDF, Graph, Literal, URIRef

problems = []


def build(rebind_rdf):
    g = Graph(bind_namespaces="none")
    if rebind_rdf:
        g.bind("rdf", "http://example.org/")
    g.bind("", RDF)
    s = URIRef("http://example.org/s")
    g.add((s, RDF.type, URIRef("http://example.org/C")))
    g.add((s, URIRef("http://example.org/p"), URIRef("http://example.org/o")))
    g.add(
        (
            s,
            URIRef("http://example.org/q"),
            Literal("1", datatype=URIRef("http://example.org/dt")),
        )
    )
    return g


for fmt, rebind in [("pretty-xml", False), ("xml", True)]:
    g = build(rebind)
    data = g.serialize(format=fmt)
    try:
        back = Graph().parse(data=data, format="xml")
    except Exception as e:  # noqa: BLE001
        problems.append(
            "%s output is not even well-formed XML (%s): %r"
            % (fmt, type(e).__name__, data.split("\n")[1])
        )
        continue
    if set(back) != set(g):
        problems.append(
            "%s output reads back as a different graph (%d of %d triples survive)"
            % (fmt, len(set(back) & set(g)), len(g))
        )

if problems:
    print("FAIL: '' bound to the RDF namespace: " + "; ".join(problems))
    sys.exit(1)
print("PASS")
