"""The RDF/XML serializers declare the prefix the namespace manager has (or
generates) for the XML namespace.  Only the built-in prefix 'xml' may be bound
to http://www.w3.org/XML/1998/namespace: the document is not well-formed."""
import sys
from rdflib import Graph, URIRef

XMLNS = "http://www.w3.org/XML/1998/namespace"
problems = []
for bind in (None, "x"):
    for fmt in ("xml", "pretty-xml"):
        g = Graph(bind_namespaces="none")
        if bind:
            g.bind(bind, XMLNS)
        g.add((URIRef("http://example.org/s"), URIRef(XMLNS + "id"), URIRef("http://example.org/o")))
        out = g.serialize(format=fmt)
        try:
            ok = set(Graph().parse(data=out, format="xml")) == set(g)
            why = "different graph"
        except Exception as e:  # noqa: BLE001
            ok = False
            why = str(e).split(": ", 1)[-1]
        if not ok:
            decl = [l.strip() for l in out.split("\n") if XMLNS in l]
            problems.append("%s (prefix %r): %s -> %s" % (fmt, bind or "generated", decl, why))

if problems:
    print("FAIL: " + "; ".join(problems))
    sys.exit(1)
print("PASS")
