"""A namespace that merely was *looked at* (never bound) stays in the namespace
manager's trie and wins the longest-namespace lookup afterwards: the same
question gets a different answer depending on earlier, failed, lookups."""
import sys
from rdflib import Graph, URIRef

problems = []

g = Graph(bind_namespaces="none")
g.bind("ex", "http://example.org/")
nm = g.namespace_manager

first = nm.curie("http://example.org/1b", generate=False)  # 'ex:1b'
try:
    # a strict (XML) qname is asked for without permission to generate: fails,
    # must not change anything
    nm.compute_qname_strict("http://example.org/1a", generate=False)
except KeyError:
    pass

# 1. curie(generate=False) of an IRI in the bound namespace now raises
try:
    second = nm.curie("http://example.org/1c", generate=False)
    if nm.expand_curie(second) != URIRef("http://example.org/1c"):
        problems.append("curie() = %r does not expand back" % second)
except KeyError as e:
    problems.append(
        "curie('http://example.org/1c', generate=False) raises %r although "
        "ex: <http://example.org/> is bound (before the failed lookup: %r)" % (e, first)
    )

# 2. n3(), which writes <iri> for namespaces without prefix and never is meant
#    to generate, now binds a new prefix as a side effect
before = dict(g.namespaces())
pname = URIRef("http://example.org/1d").n3(nm)
after = dict(g.namespaces())
if after != before:
    problems.append(
        "n3() = %r changed the bindings: new %r"
        % (pname, sorted(set(after.items()) - set(before.items())))
    )

if problems:
    print("FAIL: " + "; ".join(problems))
    sys.exit(1)
print("PASS")
