import logging, sys, threading, warnings
from http.server import BaseHTTPRequestHandler, HTTPServer
from urllib.parse import parse_qs, urlparse

warnings.simplefilter("ignore")
logging.disable(logging.CRITICAL)

from rdflib import Dataset, Graph, Literal, URIRef  # noqa: E402
from rdflib.plugins.stores.sparqlstore import SPARQLUpdateStore  # noqa: E402


class Endpoint:
    """A minimal in-process SPARQL 1.1 protocol endpoint over an in-memory Dataset."""

    def __init__(self):
        self.ds = Dataset()
        self.sent = []  # texts of the queries / updates received
        ep = self

        class H(BaseHTTPRequestHandler):
            def log_message(self, *a):
                pass

            def reply(self, code, ctype, body):
                self.send_response(code)
                self.send_header("Content-Type", ctype)
                self.send_header("Content-Length", str(len(body)))
                self.end_headers()
                self.wfile.write(body)

            def run(self, kind, text, params):
                ep.sent.append(text)
                try:
                    if kind == "update":
                        ep.ds.update(text)
                        return self.reply(200, "text/plain", b"ok")
                    target = ep.ds
                    if params.get("default-graph-uri"):
                        target = Dataset()
                        for u in params["default-graph-uri"]:
                            for t in ep.ds.get_context(URIRef(u)):
                                target.add(t)
                    res = target.query(text)
                    if "json" in self.headers.get("Accept", "") and "xml" not in self.headers.get("Accept", ""):
                        self.reply(200, "application/sparql-results+json", res.serialize(format="json"))
                    else:
                        self.reply(200, "application/sparql-results+xml", res.serialize(format="xml"))
                except Exception as e:
                    self.reply(400, "text/plain", str(e).encode())

            def do_GET(self):
                p = parse_qs(urlparse(self.path).query)
                self.run("query", p["query"][0], p)

            def do_POST(self):
                p = parse_qs(urlparse(self.path).query)
                body = self.rfile.read(int(self.headers.get("Content-Length", 0))).decode("utf-8")
                ct = (self.headers.get("Content-Type") or "").split(";")[0].strip()
                if ct == "application/sparql-update":
                    self.run("update", body, p)
                elif ct == "application/sparql-query":
                    self.run("query", body, p)
                else:
                    p.update(parse_qs(body))
                    self.run("query", p["query"][0], p)

        self.srv = HTTPServer(("127.0.0.1", 0), H)
        self.url = "http://127.0.0.1:%d/sparql" % self.srv.server_address[1]
        threading.Thread(target=self.srv.serve_forever, daemon=True).start()


def finish(ok, msg):
    print(("PASS" if ok else "FAIL") + " " + msg)
    sys.exit(0 if ok else 1)


ep = Endpoint()
g = URIRef("urn:g")
a, p = URIRef("urn:a"), URIRef("urn:p")
old, new = (a, p, Literal("old")), (a, p, Literal("new"))
ep.ds.get_context(g).add(old)  # what the endpoint holds to begin with

store = SPARQLUpdateStore(ep.url, ep.url, autocommit=False, dirty_reads=True)
remote = Dataset(store=store)
local = Dataset()
local.get_context(g).add(old)

for ds in (local, remote):
    graph = ds.get_context(g)
    graph.remove(old)
    ds.add(new + (graph,))  # a quad whose context is the graph object of this very dataset
    ds.commit()

want = sorted(local.quads())
got = sorted(ep.ds.quads())
updates = [" ".join(s.split()) for s in ep.sent if not s.lstrip().startswith("SELECT")]
finish(got == want, "after remove(old); add(new); commit() the endpoint holds %r, expected %r (updates sent: %r)" % (
    [q[2].toPython() for q in got], [q[2].toPython() for q in want], updates))
