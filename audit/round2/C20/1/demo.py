import logging, sys, threading, warnings
from http.server import BaseHTTPRequestHandler, HTTPServer
from urllib.parse import parse_qs, urlparse

warnings.simplefilter("ignore")
logging.disable(logging.CRITICAL)

from rdflib import Dataset, Graph, Literal, URIRef  # noqa: E402
from rdflib.plugins.stores.sparqlstore import SPARQLUpdateStore  # noqa: E402


class Endpoint:
    """A minimal in-process SPARQL 1.1 protocol endpoint over an in-memory Dataset."""

    def __init__(self):
        self.ds = Dataset()
        self.sent = []  # texts of the queries / updates received
        ep = self

        class H(BaseHTTPRequestHandler):
            def log_message(self, *a):
                pass

            def reply(self, code, ctype, body):
                self.send_response(code)
                self.send_header("Content-Type", ctype)
                self.send_header("Content-Length", str(len(body)))
                self.end_headers()
                self.wfile.write(body)

            def run(self, kind, text, params):
                ep.sent.append(text)
                try:
                    if kind == "update":
                        ep.ds.update(text)
                        return self.reply(200, "text/plain", b"ok")
                    target = ep.ds
                    if params.get("default-graph-uri"):
                        target = Dataset()
                        for u in params["default-graph-uri"]:
                            for t in ep.ds.get_context(URIRef(u)):
                                target.add(t)
                    res = target.query(text)
                    if "json" in self.headers.get("Accept", "") and "xml" not in self.headers.get("Accept", ""):
                        self.reply(200, "application/sparql-results+json", res.serialize(format="json"))
                    else:
                        self.reply(200, "application/sparql-results+xml", res.serialize(format="xml"))
                except Exception as e:
                    self.reply(400, "text/plain", str(e).encode())

            def do_GET(self):
                p = parse_qs(urlparse(self.path).query)
                self.run("query", p["query"][0], p)

            def do_POST(self):
                p = parse_qs(urlparse(self.path).query)
                body = self.rfile.read(int(self.headers.get("Content-Length", 0))).decode("utf-8")
                ct = (self.headers.get("Content-Type") or "").split(";")[0].strip()
                if ct == "application/sparql-update":
                    self.run("update", body, p)
                elif ct == "application/sparql-query":
                    self.run("query", body, p)
                else:
                    p.update(parse_qs(body))
                    self.run("query", p["query"][0], p)

        self.srv = HTTPServer(("127.0.0.1", 0), H)
        self.url = "http://127.0.0.1:%d/sparql" % self.srv.server_address[1]
        threading.Thread(target=self.srv.serve_forever, daemon=True).start()


def finish(ok, msg):
    print(("PASS" if ok else "FAIL") + " " + msg)
    sys.exit(0 if ok else 1)


ep = Endpoint()
store = SPARQLUpdateStore(ep.url, ep.url)
remote = Graph(store, identifier=URIRef("urn:g"))
local = Graph(identifier=URIRef("urn:g"))
t = (URIRef("urn:a"), URIRef("urn:b"), Literal("p"))
for g in (remote, local):
    g.add(t)

problems = []
for pattern in [(None, None, Literal("p")), (URIRef("urn:a"), None, Literal("p"))]:
    want = sorted(local.triples(pattern))
    got = sorted(remote.triples(pattern))
    if got != want:
        problems.append("triples(%r) -> %r, expected %r" % (pattern, got, want))
finish(not problems, "; ".join(problems) or "bound terms named like a variable come back unchanged")
