"""Listing the properties of an ontology with infixowl.AllProperties() writes
new (and wrong) rdf:type triples into the graph that is listed."""
import sys

from rdflib import Graph
from rdflib.extras.infixowl import AllProperties

g = Graph().parse(
    format="turtle",
    data="""
@prefix owl: <http://www.w3.org/2002/07/owl#> .
@prefix : <http://e/> .
:p a owl:FunctionalProperty .
:q a owl:AnnotationProperty .
""",
)
before = set(g)
names = sorted(str(p.identifier) for p in AllProperties(g))
added = set(g) - before
assert names == ["http://e/p", "http://e/q"], names
if added:
    print(
        "FAIL: enumerating AllProperties(g) added %d triples to g: %s"
        % (len(added), sorted(" ".join(t.n3(g.namespace_manager) for t in tr) for tr in added))
    )
    sys.exit(1)
print("PASS")
