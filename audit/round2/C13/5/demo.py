"""Reading the equivalentClass / disjointWith attributes of an infixowl Class
(or just printing the class) adds rdf:type owl:Class triples to the graph."""
import sys

from rdflib import OWL, RDF, Graph, URIRef
from rdflib.extras.infixowl import Class

g = Graph().parse(
    format="turtle",
    data="""
@prefix owl: <http://www.w3.org/2002/07/owl#> .
@prefix rdfs: <http://www.w3.org/2000/01/rdf-schema#> .
@prefix : <http://e/> .
:C a owl:Class ;
   rdfs:subClassOf :S ;
   owl:equivalentClass :Q ;
   owl:disjointWith :D .
""",
)
c = Class(URIRef("http://e/C"), graph=g)  # :C is an owl:Class already
before = set(g)
list(c.subClassOf)  # this getter leaves the graph alone ...
assert set(g) == before
list(c.equivalentClass)  # ... these two do not
list(c.disjointWith)
added = set(g) - before
if added:
    print(
        "FAIL: reading Class.equivalentClass / Class.disjointWith added to the graph: %s"
        % sorted(" ".join(t.n3(g.namespace_manager) for t in tr) for tr in added)
    )
    sys.exit(1)
print("PASS")
