"""Iterating over a SELECT result twice gives two different answers when the
first iteration was left early."""
import sys

from rdflib import Graph, Literal, URIRef

g = Graph()
for i in range(3):
    g.add((URIRef("http://e/s%d" % i), URIRef("http://e/p"), Literal(i)))
before = set(g)

expected = sorted(int(row[0]) for row in g.query("SELECT ?o { ?s ?p ?o }"))

r = g.query("SELECT ?o { ?s ?p ?o }")
for row in r:  # look at the first row only
    break
second = sorted(int(row[0]) for row in r)  # iterate the same result again
third = sorted(int(row[0]) for row in r)  # ... and once more

assert set(g) == before
if not (second == third == expected):
    print(
        "FAIL: iterating the same SELECT result again after a 'for row in r: break' "
        "gives %r, then %r (all rows are %r)" % (second, third, expected)
    )
    sys.exit(1)
print("PASS")
