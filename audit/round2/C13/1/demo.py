"""Serialising the same, unchanged graph to Turtle twice in a row gives two
different documents."""
import sys

from rdflib import Graph, Literal, URIRef

failures = []


def check(label, g, fmt):
    triples_before = set(g)
    first = g.serialize(format=fmt)
    second = g.serialize(format=fmt)
    assert set(g) == triples_before
    if first != second:
        failures.append(
            "%s: 1st and 2nd serialize(format=%r) differ:\n--- 1st\n%s\n--- 2nd\n%s"
            % (label, fmt, first.strip(), second.strip())
        )


# (a) the predicate's local name ends with "." so it cannot be written as a
#     prefixed name; a prefix is generated and bound for it all the same, is
#     not declared in the first document, and is picked up by the subject in
#     the second one.
for fmt in ("turtle", "longturtle", "n3", "trig"):
    g = Graph()
    g.add((URIRef("http://e/s"), URIRef("http://e/p."), Literal("x")))
    check("(a)", g, fmt)

if failures:
    print(
        "FAIL: serialising an unchanged graph twice in a row gives different "
        "output (%d cases); first: %s" % (len(failures), failures[0].replace("\n", " | "))
    )
    sys.exit(1)
print("PASS")
