"""Iterating over a SELECT result changes what the result says afterwards:
solutions that bind no variable are dropped from it by a for loop."""
import json
import sys

from rdflib import RDF, RDFS, Graph, Literal, URIRef

g = Graph()
C = URIRef("http://e/C")
g.add((URIRef("http://e/a"), RDF.type, C))
g.add((URIRef("http://e/b"), RDF.type, C))
g.add((URIRef("http://e/b"), RDFS.label, Literal("b")))
before = set(g)

# two solutions: one binds ?label, the other one binds nothing
q = """SELECT ?label { ?s a <http://e/C> OPTIONAL { ?s rdfs:label ?label } }"""


def answers(r):
    return (len(r), len(json.loads(r.serialize(format="json"))["results"]["bindings"]))


fresh = answers(g.query(q))

r = g.query(q)
for row in r:  # a plain read of the result
    pass
after_loop = answers(r)

assert set(g) == before
if fresh != after_loop:
    print(
        "FAIL: (len(result), number of JSON bindings) is %r for a fresh result but %r "
        "for the same result after 'for row in result: pass'" % (fresh, after_loop)
    )
    sys.exit(1)
print("PASS")
