"""rdf:parseType="Literal": the XML literal must carry the namespace
declarations its content needs (it is the exclusive canonical form of the
content).  rdflib forgets the declaration of a namespace that is used by an
attribute, and the xmlns="" that takes a child element out of the default
namespace."""
import logging
import sys
import xml.dom.minidom

from rdflib import Graph

logging.disable(logging.CRITICAL)

HEAD = (
    '<rdf:RDF xmlns:rdf="http://www.w3.org/1999/02/22-rdf-syntax-ns#" '
    'xmlns:ex="http://x/" xmlns:f="http://f/">'
    '<rdf:Description rdf:about="http://x/s"><ex:p rdf:parseType="Literal">'
)
TAIL = "</ex:p></rdf:Description></rdf:RDF>"


def literal_of(content):
    g = Graph().parse(data=HEAD + content + TAIL, format="xml")
    return str(next(g.objects()))


problems = []

# 1. attribute in a namespace (prefix declared on an ancestor outside the literal)
lex = literal_of('<e xmlns="http://d/" f:a="1">t</e>')
try:
    el = xml.dom.minidom.parseString(lex).documentElement
    if not el.hasAttributeNS("http://f/", "a"):
        problems.append("attribute {http://f/}a lost in %r" % lex)
except Exception as exc:
    problems.append("literal %r is not namespace-well-formed XML (%s)" % (lex, exc))

# 2. same, the prefix is declared inside the literal
lex = literal_of('<e xmlns="http://d/" xmlns:g="http://g/" g:a="1"><g:c/></e>')
try:
    el = xml.dom.minidom.parseString(lex).documentElement
    if not el.hasAttributeNS("http://g/", "a"):
        problems.append("attribute {http://g/}a lost in %r" % lex)
except Exception as exc:
    problems.append("literal %r is not namespace-well-formed XML (%s)" % (lex, exc))

# 3. xmlns="" puts <h> in no namespace; in the literal it ends up in http://d/
lex = literal_of('<e xmlns="http://d/"><h xmlns=""/></e>')
try:
    h = xml.dom.minidom.parseString(lex).documentElement.firstChild
    if h.namespaceURI is not None:
        problems.append("element h moved into namespace %r in %r" % (h.namespaceURI, lex))
except Exception as exc:
    problems.append("literal %r is not well-formed XML (%s)" % (lex, exc))

if problems:
    print("FAIL rdf:parseType='Literal' loses namespace declarations: " + " | ".join(problems))
    sys.exit(1)
print("PASS")
