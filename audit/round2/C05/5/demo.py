"""A document handed to parse() as a file object must give the same graph as
the same document handed over as bytes.  File objects whose .name is not a
path - a pipe / file descriptor (name is an int), or an in-memory stream
passed as file= (no name at all) - make parse() raise instead."""
import io
import os
import sys

from rdflib import Graph

DOC = b"<http://x/s> <http://x/p> <http://x/o> .\n"
expected = set(Graph().parse(data=DOC, format="turtle"))
problems = []


def pipe_reader(mode):
    r, w = os.pipe()
    os.write(w, DOC)
    os.close(w)
    return os.fdopen(r, mode)  # .name is the int file descriptor, like subprocess pipes


cases = [
    ("parse(<pipe, 'rb'>, format='turtle')", lambda g: g.parse(pipe_reader("rb"), format="turtle")),
    ("parse(<pipe, 'r'>, format='turtle')", lambda g: g.parse(pipe_reader("r"), format="turtle")),
    ("parse(<pipe, 'rb'>, format='json-ld')", None),
    ("parse(file=<pipe, 'rb'>, format='nt')", lambda g: g.parse(file=pipe_reader("rb"), format="nt")),
    ("parse(file=BytesIO, format='turtle')", lambda g: g.parse(file=io.BytesIO(DOC), format="turtle")),
]
for label, fn in cases:
    if fn is None:
        continue
    g = Graph()
    try:
        fn(g)
        if set(g) != expected:
            problems.append("%s gave %d triples" % (label, len(g)))
    except Exception as e:
        problems.append("%s raised %s: %s" % (label, type(e).__name__, str(e)[:70]))

if problems:
    print("FAIL file objects without a path name cannot be parsed: " + " | ".join(problems))
    sys.exit(1)
print("PASS")
