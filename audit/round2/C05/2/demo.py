"""A JSON-LD context may define any string as a term.  rdflib binds every term
whose IRI ends in '#', '/' or ':' as a namespace prefix of the graph without
checking that the term can be a prefix: a term with a space makes parse()
raise KeyError, other non-NCName terms make the later RDF/XML output malformed
and the Turtle output unreadable."""
import json
import sys
import xml.dom.minidom

from rdflib import Graph, Literal, URIRef

problems = []

# 1. legal JSON-LD, term with a space mapped to a vocabulary IRI
doc1 = {
    "@context": {"my vocab": "http://example.org/vocab#", "name": "http://example.org/vocab#name"},
    "@id": "http://example.org/s",
    "name": "x",
}
expected = {(URIRef("http://example.org/s"), URIRef("http://example.org/vocab#name"), Literal("x"))}
try:
    g = Graph().parse(data=json.dumps(doc1), format="json-ld")
    if set(g) != expected:
        problems.append("doc1 parsed to %r" % sorted(g))
except Exception as e:  # KeyError('Prefixes may not contain spaces.')
    problems.append("parse of doc1 raised %s: %s" % (type(e).__name__, e))

# 2. legal JSON-LD, terms that are not XML names, used as compact-IRI prefixes
doc2 = {
    "@context": {"1st": "http://example.org/first#", "a<b": "http://example.org/ab#"},
    "@id": "http://example.org/s",
    "1st:p": "v",
    "a<b:q": "w",
}
g = Graph().parse(data=json.dumps(doc2), format="json-ld")
if len(g) != 2:
    problems.append("doc2 parsed to %d triples" % len(g))
for fmt in ("xml", "pretty-xml"):
    out = g.serialize(format=fmt)
    try:
        xml.dom.minidom.parseString(out.encode("utf-8"))
    except Exception as e:
        problems.append("%s output of doc2 is not well-formed XML (%s)" % (fmt, e))
out = g.serialize(format="turtle")
try:
    if set(Graph().parse(data=out, format="turtle")) != set(g):
        problems.append("turtle output of doc2 reads back differently")
except Exception as e:
    problems.append("turtle output of doc2 cannot be read back (%s)" % type(e).__name__)

if problems:
    print("FAIL JSON-LD term names bound as namespace prefixes unchecked: " + " | ".join(problems))
    sys.exit(1)
print("PASS")
