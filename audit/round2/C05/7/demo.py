"""Legal Turtle / TriG / JSON-LD documents whose blank nodes are nested a few
hundred levels deep (a chain s -p-> [] -p-> [] ... written with nested
brackets) make the recursive-descent parsers raise RecursionError; the same
graph written flat in N-Triples, or nested in RDF/XML, parses fine."""
import sys

from rdflib import Dataset, Graph

DEPTH = 200
problems = []

nt = "<http://x/s> <http://x/p> _:b0 .\n"
for i in range(DEPTH - 1):
    nt += "_:b%d <http://x/p> _:b%d .\n" % (i, i + 1)
nt += '_:b%d <http://x/p> "end" .\n' % (DEPTH - 1)
expected = len(Graph().parse(data=nt, format="nt"))  # DEPTH + 1 triples

docs = {
    "turtle": "<http://x/s> <http://x/p> " + "[ <http://x/p> " * DEPTH + '"end"' + " ]" * DEPTH + " .",
    "trig": "<http://x/g> { <http://x/s> <http://x/p> " + "[ <http://x/p> " * DEPTH + '"end"' + " ]" * DEPTH + " }",
    "json-ld": '{"@id": "http://x/s", "http://x/p": ' + '{"http://x/p": ' * (2 * DEPTH) + '"end"' + "}" * (2 * DEPTH) + "}",
    "xml": '<rdf:RDF xmlns:rdf="http://www.w3.org/1999/02/22-rdf-syntax-ns#" xmlns:e="http://x/">'
    '<rdf:Description rdf:about="http://x/s"><e:p>'
    + "<rdf:Description><e:p>" * (DEPTH - 1)
    + "<rdf:Description><e:p>end</e:p></rdf:Description>"
    + "</e:p></rdf:Description>" * (DEPTH - 1)
    + "</e:p></rdf:Description></rdf:RDF>",
}
want = {"turtle": expected, "trig": expected, "xml": expected, "json-ld": 2 * DEPTH + 1}
for fmt, doc in docs.items():
    g = Dataset() if fmt == "trig" else Graph()
    try:
        g.parse(data=doc, format=fmt)
        if len(g) != want[fmt]:
            problems.append("%s: %d triples instead of %d" % (fmt, len(g), want[fmt]))
    except RecursionError:
        problems.append("%s: RecursionError" % fmt)

if problems:
    print("FAIL documents with blank nodes nested %d deep are not parsed: %s" % (DEPTH, " | ".join(problems)))
    sys.exit(1)
print("PASS")
