"""The same document handed to parse() as an open file object and as a path
must give the same graph.  With a file whose name contains a character that
is special in IRIs (a space, '#', '%', non-ASCII ...) it does not."""
import os
import sys
import tempfile
import warnings
import logging

from rdflib import Graph

logging.disable(logging.CRITICAL)
warnings.simplefilter("ignore")

d = tempfile.mkdtemp()
os.chdir(d)
problems = []

# 1. Turtle, file name with a space
fn = "my file.ttl"
with open(fn, "w") as f:
    f.write("<> <http://x/p> <#me> , <other> .\n")
by_path = Graph().parse(fn, format="turtle")
with open(fn, "rb") as f:
    by_file = Graph().parse(f, format="turtle")
if set(by_path) != set(by_file):
    problems.append(
        "turtle %r: path gives %s, open file gives %s"
        % (fn, sorted(map(str, by_path.objects())), sorted(map(str, by_file.objects())))
    )

# 2. Turtle, file name with '#': the rest of the name is cut off as a fragment
fn = "a#b.ttl"
with open(fn, "w") as f:
    f.write("<> <http://x/p> <#me> .\n")
by_path = Graph().parse(fn, format="turtle")
with open(fn, "rb") as f:
    by_file = Graph().parse(f, format="turtle")
if set(by_path) != set(by_file):
    problems.append(
        "turtle %r: path gives subject %s, open file gives %s"
        % (fn, [str(s) for s in by_path.subjects()], [str(s) for s in by_file.subjects()])
    )

# 3. JSON-LD, file name with a space: the open file gives an EMPTY graph
fn = "my data.jsonld"
with open(fn, "w") as f:
    f.write('{"@id": "", "http://x/p": [{"@id": "#me"}, {"@id": "other"}]}')
by_path = Graph().parse(fn, format="json-ld")
with open(fn, "rb") as f:
    by_file = Graph().parse(f, format="json-ld")
if set(by_path) != set(by_file):
    problems.append(
        "json-ld %r: path gives %d triples, open file gives %d"
        % (fn, len(by_path), len(by_file))
    )

if problems:
    print("FAIL parse(<open file>) and parse(<path>) disagree: " + " | ".join(problems))
    sys.exit(1)
print("PASS")
