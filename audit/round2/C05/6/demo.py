"""JSON-LD 1.1 "@propagate": false: the context applies to the node object
that carries it, but not to the node objects nested in it.  rdflib drops such
a context for the carrying node as well: an embedded one is ignored, a
top-level one makes parse() crash (object document) or lose the whole node
(array document)."""
import json
import sys

from rdflib import Graph
from rdflib.compare import isomorphic

problems = []


def check(label, doc, expected_nt):
    want = Graph().parse(data=expected_nt, format="nt")
    try:
        got = Graph().parse(data=json.dumps(doc), format="json-ld")
    except Exception as e:
        problems.append("%s: parse raised %s: %s" % (label, type(e).__name__, e))
        return
    if not isomorphic(got, want):
        problems.append(
            "%s: got %s" % (label, sorted(got.serialize(format="nt").split("\n"))[1:] or "an empty graph")
        )


CTX = {"@version": 1.1, "@propagate": False, "@vocab": "http://v/"}
BODY = {"@id": "http://a/s", "p": "1", "q": {"p": "2", "http://abs/r": "3"}}
# the nested node is outside the context: its term p is undefined there and is dropped
EXPECTED = (
    '<http://a/s> <http://v/p> "1" .\n'
    "<http://a/s> <http://v/q> _:b .\n"
    '_:b <http://abs/r> "3" .\n'
)
check("top-level object", dict({"@context": CTX}, **BODY), EXPECTED)
check("top-level array", [dict({"@context": CTX}, **BODY)], EXPECTED)
check(
    "embedded context",
    {
        "@context": {"@vocab": "http://v/"},
        "@id": "http://a/s",
        "q": {"@context": {"@propagate": False, "p": "http://x/p"}, "p": "1", "r": {"p": "2"}},
    },
    "<http://a/s> <http://v/q> _:b .\n"
    '_:b <http://x/p> "1" .\n'
    "_:b <http://v/r> _:c .\n"
    '_:c <http://v/p> "2" .\n',
)

if problems:
    print('FAIL JSON-LD context with "@propagate": false is not applied to its own node: ' + " | ".join(problems))
    sys.exit(1)
print("PASS")
