"""JSON-LD: a graph object without @id (a property value {"@graph": [...]},
a value of an "@container": "@graph" term, or a top-level object that has
@graph next to other properties) denotes a named graph named by a fresh blank
node.  rdflib puts its triples into the default graph instead.  The same
dataset written in TriG is read correctly."""
import json
import sys

from rdflib import BNode, Dataset, Literal, URIRef

S, P, X, Q = (URIRef("http://a/s"), URIRef("http://v/p"), URIRef("http://a/x"), URIRef("http://v/q"))
INNER = (X, Q, Literal("y"))


def shape(ds):
    """(is the inner triple in the default graph?, is it in the graph named by the object of S P?)"""
    name = ds.default_graph.value(S, P)
    in_default = INNER in ds.default_graph
    in_named = isinstance(name, BNode) and INNER in ds.graph(name)
    return in_default, in_named


trig = '<http://a/s> <http://v/p> _:g . _:g { <http://a/x> <http://v/q> "y" }'
reference = shape(Dataset().parse(data=trig, format="trig"))
assert reference == (False, True), reference

docs = {
    "value {'@graph': [...]}": {
        "@context": {"@vocab": "http://v/"},
        "@id": "http://a/s",
        "p": {"@graph": [{"@id": "http://a/x", "q": "y"}]},
    },
    "'@container': '@graph'": {
        "@context": {"@vocab": "http://v/", "p": {"@id": "http://v/p", "@container": "@graph"}},
        "@id": "http://a/s",
        "p": {"@id": "http://a/x", "q": "y"},
    },
}
problems = []
for label, doc in docs.items():
    got = shape(Dataset().parse(data=json.dumps(doc), format="json-ld"))
    if got != reference:
        problems.append("%s: inner triple in default graph=%s, in the blank-node-named graph=%s" % ((label,) + got))

if problems:
    print("FAIL JSON-LD implicit named graph is merged into the default graph: " + " | ".join(problems))
    sys.exit(1)
print("PASS")
