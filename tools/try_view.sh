#!/bin/bash
# try_view.sh <seed id> <PROP>: apply seeded/<id>/patch.diff to a scratch copy and show, per view, what the rules of <PROP> say
S=$1; P=$2; D=/tmp/sc/tv_$S
rm -rf $D; mkdir -p $D; cp -r /repo/rdflib $D/; (cd $D && git init -q . && git apply --whitespace=nowarn /verif/seeded/$S/patch.diff) || exit 2
VERIF_VIEWS_DEBUG=1 VERIF_REPO=$D VERIF_EVIDENCE_DIR=$D/ev /venv/bin/python /verif/check.py $P | grep "VIEW-DEBUG\|^$P \|ANALYSIS" | cut -c1-${3:-400}
echo "tree kept at $D"
