#!/venv/bin/python
"""show_view.py <kind> <module> <qualname> [root]: print a function as the equivalent view `kind` (vlib/views.py) shows it."""
import ast, sys, os
sys.path.insert(0, '/verif')
if len(sys.argv) > 4:
    os.environ['VERIF_REPO'] = sys.argv[4]
from vlib.core import Repo
from pathlib import Path
r = Repo(Path(sys.argv[4]) if len(sys.argv) > 4 else None)
v = r.view(sys.argv[1]) if sys.argv[1] != 'as-is' else r
print(ast.unparse(v.mod(sys.argv[2]).get(sys.argv[3])))
