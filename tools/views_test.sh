#!/bin/bash
# views_test.sh <kind>: VALIDATION OF THE TOOL, not a check: writes the equivalent view <kind> (vlib/views.py) of /repo as a source tree under /tmp/vw_<kind> and runs the repository test suite on it; the views are meant to have the behaviour of the tree, so the suite must pass as on the tree (minus tests of log output and doctests of helpers that the view drops). Remove /tmp/vw_<kind>* afterwards.
k=$1; D=/tmp/vw_$k
/venv/bin/python /verif/tools/views_build.py $k $D > $D.build.log 2>&1 || { echo "$k BUILD FAILED"; tail -3 $D.build.log; exit 1; }
cp -r /repo/test $D/test; cp /repo/pyproject.toml /repo/README.md $D/ 2>/dev/null; mkdir -p $D/test_reports; cp -r /repo/examples $D/examples; cp -r /repo/docs $D/docs 2>/dev/null
cd $D && /venv/bin/python -m pytest -q -p no:cacheprovider --timeout=900 --continue-on-collection-errors > $D.log 2>&1
grep "^FAILED\|^ERROR" $D.log | sed 's/ - .*//' | sort -u > $D.failed
echo "$k: $(tail -1 $D.log)"; echo "NEW failures:"; comm -23 $D.failed /verif/tools/baseline_failed.txt | head -40
