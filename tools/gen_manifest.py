#!/venv/bin/python
"""Regenerate /verif/MANIFEST.json from the table below and the checks present
under /verif/checks.  Properties without a check module are listed under
not_applicable with the reason given in NOT_APPLICABLE / PENDING."""
import json
import sys
from pathlib import Path

V = Path(__file__).resolve().parent.parent
sys.path.insert(0, str(V))

CLAIMS = {
    # id: (design_ref, what the check decides, not decided / trusted base, technique)
    "C01": ("DESIGN.md §2 C01",
            "Static proof-by-rule of the structural part: the three Memory indexes are written/deleted/read with one consistent key order each, all 8 pattern shapes read an index keyed by exactly the bound positions with complete enumeration of unbound ones, boundness is by identity, no yield inside a loop over live index state, default-context dict is copy-on-write, Graph set operators build the named Venn regions into fresh graphs, the per-triple context map and the per-context triple set are updated together, Graph.add/remove/triples forward the pattern unchanged with context=self, no Graph method mutates self while iterating self lazily, the stores' __len__ is computed from the index (no free-running counter).",
            "Not decided: the contextTriples/tripleContexts relational invariant over all histories (runtime dict contents); multi-threading. Trusted: CPython ast, rule tables.",
            "abstract interpretation of index key roles over 8 pattern shapes + snapshot-before-yield loop rule (ast)"),
    "C02": ("DESIGN.md §2 C02",
            "Decides: an empty Graph given as context is never confused with 'no graph' (typed truthiness rule), context resolution on read paths never writes (call-graph effect rule), context key depends on identifier kind and value, default graph is re-registered after removal, Memory.remove drops the union entry only when no context remains, ConjunctiveGraph/Dataset write paths (add/addN/remove/__contains__) resolve the target graph through _graph()/_spoc and never map the default graph to the union for writing; a quad written with graph None goes to the default graph; quads() of a named graph yields that graph only (open known finding F50); graphs are looked up by term equality; removing triples keeps a graph registered on a graph-aware store; no swapped same-named arguments (E8) in graph.py and the stores.",
            "Not decided: per-graph sets under default-context compression for every history. Trusted: mypy inference, ast, Store API contract.",
            "typed truthiness lint (mypy types) + call-graph effect analysis + CFG must-follow"),
    "C03": ("DESIGN.md §2 C03",
            "Decides: serialisation terminates on cyclic/malformed rdf:List chains (every rdf:rest link-walk loop is bounded, guarded by a visited set, consumes the link or is called only under a guarded validator); N-Triples/Turtle string escape tables of writer and reader agree; RDF/XML xmlns declarations and element names use the same strict qname split; the JSON-LD reader tests converted values with `is None` (falsy literals kept); recursive Turtle-family writers mark a node done before writing its description; serializer memos are key-complete; the JSON-LD writer visits every blank-node subject and folds into @list only cells without a second referrer; the Turtle-family and pretty-xml collection abbreviations are chosen only by validators that require unshared blank cells with exactly rdf:first/rdf:rest (and, for parseType=Collection, no literal members) and mark every cell written; no serializer loop reads a stale variable of an earlier loop; XMLWriter never writes text with a CR into CDATA; turtle-family serialize() starts from reset(); a relative IRI form is kept only if it resolves back against the base.",
            "Not decided: equality of the reparsed graph (value-level: numeric shorthand, qname splitting, bnode inlining, RDF/XML nesting, JSON-LD conversion).",
            "link-walk termination rule + writer/reader escape-table comparison (ast)"),
    "C04": ("DESIGN.md §2 C04",
            "Decides: solution streams are only materialised by multiplicity-preserving constructors outside the algebra's multiplicity-insensitive places; every algebra node the translator can emit has an evaluator arm and every expression Comp has an eval function; filter errors evaluate to false through _ebv; the operand that _join/_minus re-iterate is materialised; boundness of a variable is decided by identity/key membership; GRAPH ?g enumerates every named graph (only the default graph is skipped); DISTINCT/REDUCED remember whole solutions; CONSTRUCT instantiates the template once per solution of the multiset; a sub-SELECT sees only the outer bindings of its projected variables; VALUES variables are part of the scope sets (open known finding F45); && stops at the first false operand; no swapped same-named arguments in the evaluator.",
            "Not decided: top-down vs bottom-up scoping equivalence (semantic).",
            "dataflow of solution streams into set()/dict + dispatch exhaustiveness tables (ast)"),
    "C05": ("DESIGN.md §2 C05",
            "Decides the output side only: N-Triples/N-Quads literal writer escapes exactly the grammar's forbidden raw characters; every non-constant string interpolated into XML markup passes an escape/quoteattr sanitiser; JSON outputs come from json.dumps and no NaN/Infinity can reach it; on the input side three structural clauses: relative-IRI resolvers of the parsers agree on keeping empty query/parameter components (sibling agreement, known finding F30), parser memos (bnode label maps, resolved-reference caches) are key-complete with respect to re-bound parser state (@base), xml:lang=\"\" is a value (identity tests); pretty-xml declares the RDF namespace under the prefix it writes; containers inherited down the RDF/XML element stack are copied before they are extended.",
            "Not decided (no static argument in reach): that the hand-written parsers accept every legal spelling and that str/bytes/file/path inputs agree. Open known finding F30 (urljoin-based resolution in RDF/XML and JSON-LD).",
            "taint-style escape discipline over XML writers + escape-table check (ast)"),
    "C06": ("DESIGN.md §2 C06",
            "Decides one necessary clause: a quad serializer never merges one enumerated context into a graph emitted under another name (no context folding), and graph-name emission sites test the default graph by identifier, not truthiness; TriX reader resets its current-graph state per graph element; RDF Patch deletes are graph-scoped; the TriG writer counts a blank-node graph label as a reference (never written as anonymous [ ]); no swapped same-named graph arguments in quad parsers/serializers (E8); a quad serializer reads a graph's rows through that graph's view, never through dataset.triples(context=...); the TriX reader gives an unnamed <graph> a fresh blank-node graph (writer/reader agreement).",
            "Not decided: value-level round trip, RDF Patch diff algebra. Known finding: JSON-LD folds blank-node-named graphs into the default graph.",
            "effect analysis of graph-to-graph copies inside quad serializers (ast + mypy types)"),
    "C07": ("DESIGN.md §2 C07",
            "Decides: eq/hash coherence by construction for every Node subclass (fields and normalisers read by __hash__ are those compared by __eq__), _ORDERING ranks distinct with BNode<Variable<URIRef<Literal and symmetric lookup, pickle reconstruction covers every field __eq__ compares; n3() string escape tables agree with the readers; from_n3 forwards its resolution context to the datatype; the SPARQL prologue never re-bases an IRI that has a scheme; SPARQL request text is parsed with tabs preserved (pyparsing parseWithTabs on every entry element); from_n3 has a branch for ?variables and builds decimals without float().",
            "Not decided: transitivity of Literal ordering across datatypes, n3()/from_n3 text round trip (value-level).",
            "field/normaliser table agreement between sibling dunder methods (ast)"),
    "C08": ("DESIGN.md §2 C08",
            "Decides: every Aggregate_* name of the grammar has an accumulator class and vice versa; every modifier node has an evaluator arm; DISTINCT bookkeeping is uniform across Accumulator siblings; slice bounds are start and start+length; ORDER BY applies keys least-significant first on a stable sort without mutating the algebra; accumulators test running values by identity (falsy literals are values); DISTINCT/Project remember whole solutions; HAVING and ORDER BY variables are sampled per group unconditionally; MIN/MAX bind the extreme term itself; SUM and AVG agree on non-numeric members (numeric() before .datatype, SPARQLTypeError handled); DISTINCT / REDUCED map to their own algebra nodes.",
            "Not decided: numeric promotion, mixed-term ordering, HAVING after aliasing (value-level).",
            "dispatch-table exhaustiveness + sibling agreement (ast)"),
    "C09": ("DESIGN.md §2 C09",
            "Decides table consistency: first-match order of the Python->XSD rules respects subclassing (bool before int, datetime before date), each listed Python type maps to a datatype whose XSDToPython converter exists, well-formedness checkers are keyed by datatypes that have converters, accept both ends of the XSD value space of their integer datatype (constant folding of the comparison chains) and admit every Python type the converter can return; %Y strftime output of lexicalisers is zero-padded; Duration.__eq__/__ne__ cover the timedelta that parse_xsd_duration returns; float has a lexicaliser writing INF/-INF/NaN; `.value` is never tested by truthiness in Literal's value-space methods; no one-argument str() is applied to an expression whose static type includes bytes; _parseBoolean knows every form _well_formed_boolean accepts; the xsd:token / normalizedString helpers use XSD white space only; Literal.eq covers every duration datatype.",
            "Not decided: lexical<->value faithfulness over value spaces, normalisation idempotence (runtime values).",
            "table extraction and consistency comparison (ast)"),
    "C10": ("DESIGN.md §2 C10",
            "Decides ordering clauses: solutions are materialised before any mutation (WHERE evaluated once on the pre-state), all deletions for all solutions precede any insertion in evalModify, template blank nodes are created per solution, unbound template terms are skipped by identity tests, evalUpdate runs operations in request order with an arm for every update node, source==target short-circuit precedes the destructive step in ADD/MOVE/COPY, quads blocks naming one graph accumulate, update translation is not cached, writes outside GRAPH target the real default graph (never ctx.graph, the union view), the solution multiset is kept (no set()/dict.fromkeys over WHERE results), each operation of a request is translated under the prologue in force at its position, and - by path-sensitive reaching definitions of the query context in evalModify under each USING/WITH presence combination - WITH selects the active graph of WHERE iff no USING is present and of the templates always, USING's scratch dataset is never the template target.",
            "Not decided: per-solution GRAPH ?g template targeting, what the union-default switch makes WHERE see.",
            "CFG ordering (must-precede, loop separation, materialise-before-mutate) over update evaluators (ast)"),
    "C11": ("DESIGN.md §2 C11",
            "Decides: bound path ends are tested by identity (typed truthiness rule incl. signature inheritance for untyped overrides), no pattern-variable clobber in re-executed loops (package-wide), closure helpers recurse only under a visited-set guard and driver yields pass a done filter, the zero-length clause yields for a bound end without consulting the graph, every evaluator forwards both ends; the visited set prunes expansion only (an edge closing a cycle is still yielded); composition loops pass every pair on unfiltered; no path mutates an operand list it may share with another path; eval never assigns path attributes; every Comp node of the path grammar has a translatePath arm; NegatedPath.eval enumerates reversed edges for inverse members (open known finding F37b for the Python-level -~p, pinned by a doctest).",
            "Not decided: that composition/closure equal the relational definition (semantic).",
            "typed truthiness lint (mypy types) + loop-shape rules (ast)"),
    "C12": ("DESIGN.md §2 C12",
            "Decides: no parser derives blank-node identity from document text (every BNode(arg) argument is generated or opt-in), every label->BNode map is owned by an object created per parse() call, parser modules only add to the sink (removals only of graphs proven empty); every source of the N3 position-id prefix is a constructor parameter no parser passes or uniqueURI(); label maps are keyed by the label alone (no parser state in the key).",
            "Not decided: isomorphism of two parses (follows from the above plus determinism). Known finding: HexTuples parser uses BNode(label) (tests pin it).",
            "dataflow classification of BNode(arg) sites + map lifetime + who-may-call on sink graphs (ast)"),
    "C13": ("DESIGN.md §2 C13",
            "Decides: from every read-only entry point (12 serializers, evalQuery and everything evalPart dispatches to, paths, compare, Graph/ConjunctiveGraph/Dataset read API) no store-mutating call is reachable on a receiver that may alias the source; store read methods contain no write to the index dictionaries; class-level mutable defaults of serializers are not mutated in place.",
            "Not decided: determinism of repeated reads. Trusted: mypy call resolution, ownership lattice tables.",
            "whole-package call graph (mypy-resolved, override-closed) + ownership lattice FRESH/OUT-PARAM/SOURCE"),
    "C15": ("DESIGN.md §2 C15",
            "Decides state clauses: the algebra tree is not mutated at evaluation time (sole exception Expr.eval's ctx set/cleared in finally), BGP reordering builds a new list, ReadOnlyGraphAggregate.triples handles a Path predicate without clobber; the translated algebra of a request is used for that call only (no cache keyed by a part of its inputs); paths are stateless; re-binding in QueryContext/Bindings is decided by membership; a prologue resolves every prefix it declares (own map); PN_LOCAL escapes are removed by a parse action.",
            "Not decided: permutation/rename/prefix invariance, initBindings == VALUES (semantic).",
            "effect analysis with CompValue-typed receivers (mypy types + ast)"),
    "C16": ("DESIGN.md §2 C16",
            "Decides table agreement: JSON type tags and keys written by termToJSON are inverted by parseJsonTerm to the same class; XML element/attribute names written per term class are those parseTerm dispatches on; unbound cells tested by identity in all four writers; SAX characters() always gets str(value) (falsy literals are not dropped); writers take rows from result.bindings (all-unbound rows kept); record readers do not use str.splitlines(); JSON cells are parsed individually; the XML datatype attribute is written whenever a datatype is present; Result.bindings extends the rows already collected; literal text is written with CR as &#13; (as the repository's XMLWriter does); a text layer over a binary result source does not translate line ends; <results> is opened on every SELECT path; Result.__iter__ records a row before yielding it.",
            "Not decided: TSV grammar, CSV quoting, control characters (value-level).",
            "writer/reader tag-table extraction and comparison (ast) + typed truthiness lint"),
    "C17": ("DESIGN.md §2 C17",
            "Decides memo invalidation: on every path of a NamespaceManager method that reaches store.bind both qname memo dicts are cleared; wherever one memo is invalidated the other is too; memo reads are keyed by the IRI; Store.bind primitives keep the two maps inverse on the override path; normalizeUri assembles prefix and local name from one compute_qname result; graph views of one dataset share one NamespaceManager (open known finding F27 for the default-graph object); namespace/prefix memos are key-complete; bind() of the in-memory stores writes only the requested (prefix, namespace) pair, never an entry assembled from two looked-up bindings; prefix registration is skipped only in predicate position.",
            "Not decided: inverse-ness of the store's two dicts (value reasoning; observed defect F6 out of reach).",
            "pairing rule on CFG paths: bind => invalidate both memos (ast)"),
    "C18": ("DESIGN.md §2 C18",
            "Decides undo-log discipline of AuditableStore: every path reaching the wrapped mutator logs the same quad, no-op guard returns before logging, cancel-or-append shape, tags logged are dispatched by rollback to the inverse operation, commit/rollback clear the log, wildcard removes are expanded before logging; only add/remove/rollback/destroy call the wrapped mutators (rollback replays on the wrapped store, found through a log alias too); presence guards and the single-quad branch test see the context; the logged quad is the mutated quad; the context handed to the wrapped store is re-homed by identity tests (an empty graph is still a graph); rollback resets the log under the lock.",
            "Not decided: two-wrapper interleavings (schedules).",
            "CFG must-pass-through + tag table agreement (ast)"),
    "C19": ("DESIGN.md §2 C19",
            "Decides: Collection members are tested by identity not truthiness; every rdf:rest walk in Collection/Graph.items terminates on cyclic chains (counter, visited set or link removal); no stale cached cell after deletions; append/__iadd__/clear/__delitem__ keep the chain well-formed (terminating rdf:nil, relink on delete); walk errors propagate instead of being reported as `absent`; mutating loops do not iterate a lazy walk of the chain they change and new cells are fresh blank nodes; _get_container never returns rdf:nil as a cell, negative indices are normalised by len, __delitem__ asks for a predecessor only for key > 0 (open known finding F39b: c[len(c)] = x appends, pinned by an infixowl test); cell occupancy is read from the graph per item; __iadd__ works on a materialised, non-empty input.",
            "Not decided: index arithmetic (negative indices, IndexError vs KeyError, head deletion).",
            "typed truthiness lint + link-walk termination rule (ast + mypy types)"),
    "C20": ("DESIGN.md §2 C20",
            "Decides queue/flush discipline: every read of SPARQLUpdateStore flushes pending edits unless dirty_reads, every write enqueues via _transaction and commits under autocommit, commit sends in order and clears, rollback only clears; pattern wildcards tested by identity; per-request connector arguments are deep copies of the shared kwargs; no loop reads the stale target of an earlier loop; JSON result cells are parsed individually.",
            "Not decided: that the generated SPARQL text means the intended pattern at a real endpoint.",
            "CFG dominance (flush-before-read) + enqueue discipline + typed truthiness lint"),
}

NOT_APPLICABLE = {
    "C14": "Correctness of colour refinement + individualisation search over all graphs is an algorithmic property of runtime data; no clause of it is a code-shape fact beyond purity of compare.* (covered by C13). No sound static argument in reach; see DESIGN.md §2 C14.",
}


def _rules(pid: str) -> str:
    """rule ids (with instance counts) from the last evidence file, so the claim names exactly what the check runs"""
    try:
        ev = json.load(open(V / "evidence" / (pid + ".json")))
        rs = ev["coverage"]["rules"]
        return " Rules on this revision (instances): " + ", ".join("%s (%d)" % (k, v["instances"]) for k, v in rs.items()) + "."
    except Exception:
        return ""


def main() -> None:
    checks = []
    na = [{"property_id": k, "reason": v} for k, v in NOT_APPLICABLE.items()]
    for pid, (ref, text, note, tech) in sorted(CLAIMS.items()):
        if not (V / "checks" / (pid.lower() + ".py")).exists():
            na.append({"property_id": pid, "reason": "static check not built yet in this revision (planned, see %s); not claimed until it exists" % ref})
            continue
        checks.append(
            {
                "property_id": pid,
                "quick_cmd": "/venv/bin/python check.py %s --tier quick" % pid,
                "thorough_cmd": "/venv/bin/python check.py %s --tier thorough" % pid,
                "evidence_file": "evidence/%s.json" % pid,
                "replay_cmd_template": "/venv/bin/python check.py %s --tier quick  # static: re-analyses the tree; finding described in {path}" % pid,
                "engine": "static-rules",
                "level_claimed": {
                    "category": "other",
                    "text": "Static analysis (no execution of rdflib): " + text + " Every rule instance found in the source is an obligation; all must hold. This is a necessary-condition check of the named clauses, not a proof of the behaviour." + _rules(pid),
                    "design_ref": ref,
                },
                "level_note": note,
                "technique": "static analysis: " + tech,
            }
        )
    man = {
        "version": 1,
        "setup_cmd": "/venv/bin/python tools/setup_check.py",
        "hooks": {
            "guard": "RDFLIB_VERIF",
            "enable": "none needed: the checks are static and read /repo's working tree; no source line of /repo reads the guard",
            "baseline_off_cmd": "cd /repo && /venv/bin/python -m pytest -ra -q -p no:cacheprovider --timeout=900 --continue-on-collection-errors",
            "source_commits": [],
            "add_only": True,
        },
        "engines": [
            {"name": "static-rules", "path": "check.py", "serves_properties": [c["property_id"] for c in checks],
             "kind_free_text": "repository-specific static analysis: stdlib ast over every rdflib/**/*.py + the type-checked program from mypy used as a library (types of expressions, resolved callees, class hierarchy); rules in checks/cNN.py, engines in vlib/"},
        ],
        "checks": checks,
        "notes": "All checks are static (ast / mypy-as-library); nothing under /repo is imported or executed. exit 0 = all rule instances hold, exit 1 + VIOLATION line = a rule instance is violated, exit 2 + ANALYSIS-ERROR = the analysis lost an anchor or met an unmodelled idiom (never a silent pass). Known findings: known_findings.json.",
        "not_applicable": na,
    }
    json.dump(man, open(V / "MANIFEST.json", "w"), indent=1)
    print("checks:", [c["property_id"] for c in checks])
    print("not_applicable:", [n["property_id"] for n in na])


if __name__ == "__main__":
    main()
