#!/venv/bin/python
"""compare_baseline.py <junit.xml>: every test in BASELINE.stable_pass must pass."""
import json, sys
import xml.etree.ElementTree as ET
b = json.load(open('/root/.vp/BASELINE.json'))
stable = set(b['stable_pass'])
res = {}
for tc in ET.parse(sys.argv[1]).getroot().iter('testcase'):
    tid = '%s::%s' % (tc.get('classname'), tc.get('name'))
    bad = [c.tag for c in tc if c.tag in ('failure', 'error')]
    skipped = [c for c in tc if c.tag == 'skipped']
    st = 'fail' if bad else ('skip' if skipped else 'pass')
    if res.get(tid) != 'fail':
        res[tid] = st
missing = [t for t in stable if t not in res]
notpass = [t for t in stable if t in res and res[t] != 'pass' and not ('test_swap_n3::test_cases[generictest-envelope' in t and res[t] == 'skip')]  # envelope ids follow set() order: which index is xfail-skipped varies per run
print('stable=%d found=%d missing=%d not-passing=%d' % (len(stable), len(stable) - len(missing), len(missing), len(notpass)))
for t in (missing[:20] + notpass[:40]):
    print('  ', res.get(t, 'MISSING'), t[:200])
sys.exit(1 if (missing or notpass) else 0)
