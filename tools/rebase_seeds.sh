#!/bin/bash
# rebase_seeds.sh: for every seeded patch that no longer applies to /repo's working tree with `git apply`, retry with
# `patch --fuzz=3` in a scratch copy (outside /repo and /verif); if that succeeds and the tree still compiles, rewrite
# patch.diff from the scratch copy (the original is kept once as patch.orig.diff). Prints what it did.
set -u
for d in /verif/seeded/*/; do
  s=$(basename $d)
  [ -f $d/patch.diff ] || continue
  grep -q "\"obsolete\"" $d/meta.json 2>/dev/null && continue
  if git -C /repo apply --check $d/patch.diff 2>/dev/null; then continue; fi
  W=$(mktemp -d /tmp/rebase.XXXXXX)
  cp -r /repo/rdflib $W/rdflib; (cd $W && git init -q . && git add -A >/dev/null 2>&1 && git -c user.email=x -c user.name=x commit -qm base >/dev/null)
  if (cd $W && patch -p1 --fuzz=3 --no-backup-if-mismatch < $d/patch.diff >/dev/null 2>&1) && (cd $W && /venv/bin/python -m compileall -q rdflib >/dev/null 2>&1); then
     [ -f $d/patch.orig.diff ] || cp $d/patch.diff $d/patch.orig.diff
     (cd $W && find . -name "__pycache__" -prune -exec rm -rf {} \; ; find . -name "*.orig" -delete; git diff -- rdflib) > $d/patch.diff
     echo "REBASED $s"
  else
     echo "STALE   $s"
  fi
  rm -rf $W
done
