import ast, sys, shutil, os, time
sys.path.insert(0,'/verif')
from vlib import views
from pathlib import Path
kind=sys.argv[1]; dst=Path(sys.argv[2])
src=Path(os.environ.get('SRC','/repo'))
trees={}
for p in sorted((src/'rdflib').rglob('*.py')):
    trees[str(p.relative_to(src))]=ast.parse(p.read_text())
amb=views.ambiguous_method_names(trees)
views.UNSTABLE_ATTRS.update(views.unstable_attribute_names(trees))
ext={}
for rel,t in trees.items():
    for r_ in views.private_refs(t): ext.setdefault(r_,set()).add(rel)
t0=time.time(); tot=0
if dst.exists(): shutil.rmtree(dst)
shutil.copytree(src/'rdflib', dst/'rdflib')
for rel,t in trees.items():
    new,st=views.transform(t,kind,amb,ext,rel); tot+=st['inlined_calls']
    code=ast.unparse(new)
    compile(code,rel,'exec')
    # keep `from __future__` first: unparse keeps order
    (dst/rel).write_text(code+'\n')
print(kind,'inlined',tot,'%.1fs'%(time.time()-t0))
