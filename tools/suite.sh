#!/bin/bash
# suite.sh <tree>: run the baseline test command in <tree> (a scratch worktree of /repo) and print the tests that fail there
# but not on the clean tree (tools/baseline_failed.txt).  Exit 0 if there are none.
T=$1; L=/tmp/suite.$(basename $T).log
cd $T || exit 2
/venv/bin/python -m pytest -q -p no:cacheprovider --timeout=900 --continue-on-collection-errors > $L 2>&1
git checkout -q -- test_reports 2>/dev/null
grep "^FAILED" $L | sed 's/ - .*//' | sort -u > $L.failed
echo "NEW failures vs clean tree:"; comm -23 $L.failed /verif/tools/baseline_failed.txt
tail -1 $L
[ $(comm -23 $L.failed /verif/tools/baseline_failed.txt | wc -l) -eq 0 ]
