#!/bin/bash
# triage_round.sh <PROP> : quick static triage of round-2 seeds of one property (own check + listed extra checks)
P=$1; shift
for k in 1 2 3; do
  d=/tmp/wt/${P}b/_seeded/$k
  [ -f $d/patch.diff ] || continue
  echo "== $P-$((k+3)) files: $(grep '^+++ b/' $d/patch.diff | sed 's#+++ b/##' | tr '\n' ' ')"
  /verif/tools/try_patch.sh $d/patch.diff $P "$@" | grep -E "VIOLATION|ANALYSIS-ERROR|PATCH-FAILED" | cut -c1-330 | head -4
done
