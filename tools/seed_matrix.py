#!/venv/bin/python
"""seed_matrix.py [ids...]: for every /verif/seeded/<id>/patch.diff apply it to a scratch copy of /repo's
working tree (outside /repo and /verif, removed afterwards), run every claimed check statically on it and
record which checks report a VIOLATION.  Writes seeded/MATRIX.json and seeded/MATRIX.md."""
import json, os, shutil, subprocess, sys, tempfile
from concurrent.futures import ThreadPoolExecutor
from pathlib import Path

V = Path('/verif')
man = json.load(open(V / 'MANIFEST.json'))
PIDS = [c['property_id'] for c in man['checks']]
seeds = sorted(p.name for p in (V / 'seeded').iterdir() if not p.name.startswith(('P-', 'Q-')) and (p / 'patch.diff').exists() and 'obsolete' not in json.load(open(p / 'meta.json')))
if len(sys.argv) > 1:
    seeds = [s for s in seeds if s in sys.argv[1:]]


def run_seed(sid):
    d = Path(tempfile.mkdtemp(prefix='seedmx.', dir='/tmp'))
    try:
        shutil.copytree('/repo/rdflib', d / 'rdflib')
        subprocess.run(['git', 'init', '-q', '.'], cwd=d, capture_output=True)
        r = subprocess.run(['git', 'apply', '--whitespace=nowarn', str(V / 'seeded' / sid / 'patch.diff')], cwd=d, capture_output=True, text=True)
        if r.returncode != 0:
            return sid, {'error': 'patch does not apply to the current tree: ' + r.stderr[:200]}
        env = dict(os.environ, VERIF_REPO=str(d), VERIF_EVIDENCE_DIR=str(d / 'ev'))
        out = {}
        for pid in PIDS:
            r = subprocess.run(['/venv/bin/python', str(V / 'check.py'), pid], capture_output=True, text=True, env=env)
            viol = [l for l in r.stdout.splitlines() if l.startswith('VIOLATION')]
            out[pid] = {'exit': r.returncode, 'violations': len(viol), 'first': (viol[0].split('# ', 1)[-1][:260] if viol else '')}
        return sid, out
    finally:
        shutil.rmtree(d, ignore_errors=True)


with ThreadPoolExecutor(max_workers=12) as ex:
    results = dict(ex.map(run_seed, seeds))
mx = {}
for sid, out in results.items():
    meta = json.load(open(V / 'seeded' / sid / 'meta.json'))
    prop = meta.get('property', sid.split('-')[0])
    if 'error' in out:
        mx[sid] = {'property': prop, 'error': out['error']}
        continue
    caught = sorted(p for p, o in out.items() if o['exit'] == 1)
    broken = sorted(p for p, o in out.items() if o['exit'] not in (0, 1))
    mx[sid] = {'property': prop, 'summary': meta.get('summary', '')[:300], 'caught_by': caught, 'caught_by_own_property_check': prop in caught,
               'analysis_errors': broken, 'first_report': {p: out[p]['first'] for p in caught}}
old = {}
if (V / 'seeded' / 'MATRIX.json').exists() and len(sys.argv) > 1:
    old = json.load(open(V / 'seeded' / 'MATRIX.json'))
old.update(mx)
json.dump(old, open(V / 'seeded' / 'MATRIX.json', 'w'), indent=1, sort_keys=True)
lines = ['| seed | property | caught by | first report |', '|---|---|---|---|']
for sid in sorted(old):
    m = old[sid]
    if 'error' in m:
        lines.append('| %s | %s | (patch no longer applies) | %s |' % (sid, m['property'], m['error'][:80]))
        continue
    fr = next(iter(m['first_report'].values()), '') if m['caught_by'] else 'MISSED: ' + m['summary'][:150]
    lines.append('| %s | %s | %s | %s |' % (sid, m['property'], ', '.join(m['caught_by']) or '**none**', fr.replace('|', '/')[:200]))
open(V / 'seeded' / 'MATRIX.md', 'w').write('\n'.join(lines) + '\n')
n = len([m for m in old.values() if 'error' not in m]); c = len([m for m in old.values() if m.get('caught_by')])
print('seeds %d, caught %d, missed %d' % (n, c, n - c))
for sid in sorted(old):
    m = old[sid]
    print(sid, m.get('caught_by', m.get('error')), 'ERR:%s' % m['analysis_errors'] if m.get('analysis_errors') else '')
