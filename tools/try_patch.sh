#!/bin/bash
# try_patch.sh <patch.diff> <PID> [PID...] : run checks on a scratch copy of /repo/rdflib with the patch applied
set -u
P=$1; shift
D=$(mktemp -d /tmp/sc/try.XXXXXX)
mkdir -p $D/rdflib && cp -r /repo/rdflib/. $D/rdflib/ && (cd $D && git init -q . 2>/dev/null; git -C $D apply --whitespace=nowarn $P) || { echo "PATCH-FAILED $P"; rm -rf $D; exit 3; }
for pid in "$@"; do
  VERIF_REPO=$D VERIF_EVIDENCE_DIR=$D/ev /venv/bin/python /verif/check.py $pid 2>&1 | grep -E "VIOLATION|ANALYSIS|KNOWN|quick:" | cut -c1-400
done
rm -rf $D
