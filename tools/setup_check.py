#!/venv/bin/python
"""Offline setup: nothing to build or install.  Verifies the interpreter and
mypy (the repository's own dev dependency) are present and pre-computes the
typed-program cache for the current tree (the checks recompute it themselves
whenever the sources change)."""
import sys
from pathlib import Path

V = Path(__file__).resolve().parent.parent
sys.path.insert(0, str(V))
try:
    import mypy.build  # noqa: F401
except Exception as e:  # pragma: no cover
    print("setup: mypy not importable from /venv: %r" % e)
    sys.exit(1)
from vlib.core import Repo

r = Repo()
t = r.typed
print("setup ok: %d modules, typed exprs %s, cached=%s" % (len(r.modules), t.stats.get("typed_exprs"), t.cached))
