#!/venv/bin/python
"""keep_seed.py <src-dir> <seed-id>: copy a confirmed seeded change into /verif/seeded/<id>/"""
import json, shutil, sys
from pathlib import Path
src, sid = Path(sys.argv[1]), sys.argv[2]
res = json.load(open('/tmp/seedres/%s.json' % sid))
ok = res.get('demo_clean_exit') == 0 and res.get('demo_patched_exit') == 1 and res.get('compiles') and (
    res.get('new_failures_vs_clean', 0) == 0)
if not ok:
    print('NOT CONFIRMED', sid, res); sys.exit(1)
dst = Path('/verif/seeded') / sid
dst.mkdir(parents=True, exist_ok=True)
shutil.copy(src / 'patch.diff', dst / 'patch.diff')
shutil.copy(src / 'demo.py', dst / 'demo.py')
meta = json.load(open(src / 'meta.json'))
meta['confirmed'] = {
    'demo_on_clean_tree_exit': res['demo_clean_exit'], 'demo_with_patch_exit': res['demo_patched_exit'],
    'compiles': res['compiles'], 'full_suite_with_patch': res.get('suite_tail'),
    'new_failures_vs_clean_tree': res.get('new_failures_vs_clean', 0),
    'how': 'tools/confirm_seed.sh: scratch worktree of /repo HEAD, demo.py on clean tree and with patch, full baseline pytest command with patch, failing set compared with the clean tree (tools/baseline_failed.txt)',
}
json.dump(meta, open(dst / 'meta.json', 'w'), indent=1)
print('kept', sid)
