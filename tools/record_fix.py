#!/venv/bin/python
"""record_fix.py <property> <Fnn> <what failed...>: record /repo's HEAD commit as a `fixed:` entry of known_findings.json and
create the revert-of-fix variant seeded/R-<commit>/ (patch.diff = reverse of that commit)."""
import json, os, subprocess, sys
prop, fid, text = sys.argv[1], sys.argv[2], " ".join(sys.argv[3:])
c = subprocess.run(['git', '-C', '/repo', 'log', '-1', '--format=%h', '--abbrev=8'], capture_output=True, text=True).stdout.strip()
subj = subprocess.run(['git', '-C', '/repo', 'log', '-1', '--format=%s'], capture_output=True, text=True).stdout.strip()
p = '/verif/known_findings.json'
k = json.load(open(p))
key = [x for x in k if isinstance(k[x], list)][0]
k[key].append({"property": prop, "status": "fixed", "commit": c, "text": "fixed: property=%s %s %s (%s)" % (prop, c, text, fid)})
json.dump(k, open(p, 'w'), indent=1)
d = '/verif/seeded/R-%s' % c
os.makedirs(d, exist_ok=True)
json.dump({"property": "(revert)", "summary": "reverse of /repo fix commit %s: %s" % (c, subj), "needs": "re-introduces the genuine defect that the fix commit repaired (see known_findings.json)", "kind": "revert-of-fix", "files": []}, open(d + '/meta.json', 'w'), indent=1)
open(d + '/patch.diff', 'w').write(subprocess.run(['git', '-C', '/repo', 'diff', c, c + '~1', '--', 'rdflib'], capture_output=True, text=True).stdout)
print('recorded', c, fid)
