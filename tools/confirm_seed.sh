#!/bin/bash
# confirm_seed.sh <seed-src-dir> <seed-id>
#  seed-src-dir holds patch.diff demo.py meta.json.  Confirms, in a scratch worktree of /repo HEAD:
#   demo PASSes on the clean tree, FAILs with the patch, and the baseline suite still passes with the patch.
#  Writes /tmp/seedres/<seed-id>.json ; removes the worktree afterwards.
set -u
SRC=$1; ID=$2
mkdir -p /tmp/seedres /tmp/wtc
WT=/tmp/wtc/$ID
rm -rf $WT; git -C /repo worktree prune
git -C /repo worktree add -q --detach $WT HEAD || exit 3
cd $WT
clean=$(PYTHONPATH=$WT timeout 300 /venv/bin/python $SRC/demo.py >/tmp/seedres/$ID.clean.out 2>&1; echo $?)
git apply --whitespace=nowarn $SRC/patch.diff || { echo "{\"id\":\"$ID\",\"error\":\"patch failed\"}" > /tmp/seedres/$ID.json; cd /; git -C /repo worktree remove --force $WT; exit 3; }
/venv/bin/python -c "import compileall,sys; sys.exit(0 if compileall.compile_dir('rdflib',quiet=2) else 1)"; comp=$?
patched=$(PYTHONPATH=$WT timeout 300 /venv/bin/python $SRC/demo.py >/tmp/seedres/$ID.patched.out 2>&1; echo $?)
/venv/bin/python -m pytest -q -p no:cacheprovider --timeout=900 --continue-on-collection-errors --junitxml=/tmp/seedres/$ID.junit.xml > /tmp/seedres/$ID.suite.log 2>&1
sed -i "s#/tmp/wtc/$ID#/repo#g" /tmp/seedres/$ID.junit.xml
/venv/bin/python /verif/tools/compare_baseline.py /tmp/seedres/$ID.junit.xml > /tmp/seedres/$ID.cmp 2>&1; cmp=$?
grep "^FAILED" /tmp/seedres/$ID.suite.log | sed 's/ - .*//' | sort > /tmp/seedres/$ID.failed
newfail=$(comm -23 /tmp/seedres/$ID.failed /verif/tools/baseline_failed.txt | wc -l)
tailline=$(tail -1 /tmp/seedres/$ID.suite.log)
cd /
git -C /repo worktree remove --force $WT
find /tmp/seedres -name "$ID.junit.xml" -delete
/venv/bin/python - <<PY
import json
json.dump({"id":"$ID","demo_clean_exit":$clean,"compiles":$comp==0,"demo_patched_exit":$patched,"suite_baseline_ok":$cmp==0,"new_failures_vs_clean":$newfail,"suite_tail":"""$tailline""","cmp":open("/tmp/seedres/$ID.cmp").read()[:1500]}, open("/tmp/seedres/$ID.json","w"), indent=1)
PY
cat /tmp/seedres/$ID.json | head -12
