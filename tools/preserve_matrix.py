#!/venv/bin/python
"""preserve_matrix.py [ids...]: for every /verif/seeded/P-*/patch.diff (a behaviour-preserving refactoring of the code a
property is anchored in, see DESIGN §14) apply it to a scratch copy of /repo's working tree (outside /repo and /verif,
removed afterwards) and run every claimed check on it: every check must exit as it does on the unchanged tree (0).
Writes seeded/PRESERVE.json; prints one line per variant that raises an alarm."""
import json, os, shutil, subprocess, sys, tempfile
from concurrent.futures import ThreadPoolExecutor
from pathlib import Path

V = Path('/verif')
man = json.load(open(V / 'MANIFEST.json'))
PIDS = [c['property_id'] for c in man['checks']]
seeds = sorted(p.name for p in (V / 'seeded').iterdir() if p.name.startswith(('P-', 'Q-')) and (p / 'patch.diff').exists()
               and 'obsolete' not in json.load(open(p / 'meta.json')))
if len(sys.argv) > 1:
    seeds = [s for s in seeds if s in sys.argv[1:]]


def run_seed(sid):
    d = Path(tempfile.mkdtemp(prefix='presmx.', dir='/tmp'))
    try:
        shutil.copytree('/repo/rdflib', d / 'rdflib')
        subprocess.run(['git', 'init', '-q', '.'], cwd=d, capture_output=True)
        r = subprocess.run(['git', 'apply', '--whitespace=nowarn', str(V / 'seeded' / sid / 'patch.diff')], cwd=d, capture_output=True, text=True)
        if r.returncode != 0:
            return sid, {'error': 'patch does not apply to the current tree: ' + r.stderr[:200]}
        env = dict(os.environ, VERIF_REPO=str(d), VERIF_EVIDENCE_DIR=str(d / 'ev'))
        out = {}
        for pid in PIDS:
            r = subprocess.run(['/venv/bin/python', str(V / 'check.py'), pid], capture_output=True, text=True, env=env)
            bad = [l for l in r.stdout.splitlines() if l.startswith(('VIOLATION', 'ANALYSIS-ERROR'))]
            if r.returncode != 0 or bad:
                out[pid] = {'exit': r.returncode, 'first': [b.split('# ', 1)[-1][:400] for b in bad[:4]] or [(r.stderr or r.stdout)[-300:]]}
        return sid, out
    finally:
        shutil.rmtree(d, ignore_errors=True)


with ThreadPoolExecutor(max_workers=12) as ex:
    results = dict(ex.map(run_seed, seeds))
old = {}
if (V / 'seeded' / 'PRESERVE.json').exists() and len(sys.argv) > 1:
    old = json.load(open(V / 'seeded' / 'PRESERVE.json'))
old.update(results)
json.dump(old, open(V / 'seeded' / 'PRESERVE.json', 'w'), indent=1, sort_keys=True)
n = len(results); alarms = {s: o for s, o in results.items() if o and 'error' not in o}
print('preserving variants %d, silent %d, alarms %d, stale %d' % (n, sum(1 for o in results.values() if not o), len(alarms), sum(1 for o in results.values() if 'error' in o)))
for s, o in sorted(alarms.items()):
    for pid, x in o.items():
        print('ALARM', s, pid, 'exit', x['exit'], '|', ' || '.join(x['first'])[:700])
for s, o in sorted(results.items()):
    if 'error' in o:
        print('STALE', s, o['error'][:120])
