"""E6 - loop-shape rules (pure ast)."""
from __future__ import annotations

import ast
from typing import Iterator, Optional

from .core import AnalysisError, Module, Repo, Report, norm, own_nodes


def names(node: ast.AST, ctx) -> set[str]:
    return {n.id for n in ast.walk(node) if isinstance(n, ast.Name) and isinstance(n.ctx, ctx)}


# ------------------------------------------------------------ pattern clobber


def _assigned_before(body: list[ast.stmt], stop: ast.AST, name: str) -> bool:
    """Is `name` (re)bound by a plain statement of `body` that precedes the
    statement containing `stop`?  (Straight-line approximation: only top-level
    assignments of the outer loop body count, which is what re-establishing a
    pattern variable per outer iteration looks like.)"""
    for st in body:
        if any(n is stop for n in ast.walk(st)):
            return False
        if isinstance(st, (ast.Assign, ast.AnnAssign, ast.AugAssign)):
            tg = st.targets if isinstance(st, ast.Assign) else [st.target]
            for t in tg:
                if name in names(t, ast.Store):
                    return True
    return False


def clobber_scan(rep: Report, rule: str, mod: Module, fn: ast.AST, where: str) -> int:
    """A `for` whose target rebinds a name that its own iterable reads is
    re-evaluated with the clobbered value whenever the loop statement is
    executed again: inside an enclosing loop, unless the name is re-established
    in that enclosing loop's body before the inner loop.

    Instance = every for-loop with (target names ∩ names read by its iterable) != {}.
    """
    n = 0

    def visit(stmts: list[ast.stmt], outer: list[ast.AST]) -> None:
        nonlocal n
        for st in stmts:
            if isinstance(st, (ast.FunctionDef, ast.AsyncFunctionDef, ast.ClassDef)):
                continue
            if isinstance(st, (ast.For, ast.AsyncFor)):
                tgt = names(st.target, ast.Store)
                used = names(st.iter, ast.Load)
                clob = sorted(tgt & used)
                if clob:
                    n += 1
                    bad = []
                    for nm in clob:
                        for o in outer:
                            obody = o.body  # type: ignore[attr-defined]
                            otgt = names(o.target, ast.Store) if isinstance(o, (ast.For, ast.AsyncFor)) else set()
                            if nm in otgt or _assigned_before(obody, st, nm):
                                continue
                            bad.append(nm)
                            break
                    rep.ob(
                        rule,
                        mod,
                        where,
                        "for %s in %s" % (norm(st.target), norm(st.iter)),
                        not bad,
                        (
                            "loop target rebinds %s, which the loop's own iterable reads, and the loop is "
                            "re-executed by an enclosing loop without re-establishing it: later iterations "
                            "evaluate the pattern with the clobbered value" % bad
                        )
                        if bad
                        else "target rebinds %s read by its iterable, but the statement runs once per binding (no enclosing loop re-executes it with the clobbered value)" % clob,
                        node=st,
                    )
                visit(st.body, outer + [st])
                visit(st.orelse, outer)
            elif isinstance(st, ast.While):
                visit(st.body, outer + [st])
                visit(st.orelse, outer)
            else:
                for f in ("body", "orelse", "finalbody"):
                    v = getattr(st, f, None)
                    if v:
                        visit(v, outer)
                for h in getattr(st, "handlers", []) or []:
                    visit(h.body, outer)
                if isinstance(st, ast.Match):
                    for c in st.cases:
                        visit(c.body, outer)

    visit(fn.body, [])  # type: ignore[attr-defined]
    return n


# ------------------------------------------------------------ rdf:rest link walk


def _is_rest(e: ast.AST) -> bool:
    """RDF.rest / RDF['rest'] / self.RDF.rest ..."""
    return (isinstance(e, ast.Attribute) and e.attr == "rest") or (
        isinstance(e, ast.Subscript) and isinstance(e.slice, ast.Constant) and e.slice.value == "rest"
    )


def _rest_lookup_of(e: ast.AST, cursor: str) -> bool:
    """Does expression e contain a lookup `<g>.value(cursor, RDF.rest)` /
    `<g>.objects(cursor, RDF.rest)` / triples((cursor, RDF.rest, None))?"""
    for c in ast.walk(e):
        if isinstance(c, ast.Call):
            args = list(c.args) + [k.value for k in c.keywords]
            flat: list[ast.AST] = []
            for a in args:
                if isinstance(a, ast.Tuple):
                    flat += a.elts
                else:
                    flat.append(a)
            has_rest = any(_is_rest(a) for a in flat)
            has_cur = any(isinstance(a, ast.Name) and a.id == cursor for a in flat) or any(
                isinstance(a, ast.Call) and any(isinstance(x, ast.Name) and x.id == cursor for x in ast.walk(a))
                for a in flat
            )
            if has_rest and has_cur:
                return True
    return False


def link_walk_loops(fn: ast.AST) -> Iterator[tuple[ast.While, str]]:
    """while-loops whose cursor is reassigned (directly or through one
    temporary) from a lookup of the cursor's own rdf:rest."""
    for n in own_nodes(fn, include_nested=False):
        if not isinstance(n, ast.While):
            continue
        # temporaries assigned from a rest lookup of some cursor
        assigns = [a for a in ast.walk(n) if isinstance(a, (ast.Assign, ast.AnnAssign, ast.NamedExpr))]
        cursors: set[str] = set()
        for a in assigns:
            if isinstance(a, ast.Assign):
                tgts, val = a.targets, a.value
            elif isinstance(a, ast.AnnAssign):
                tgts, val = [a.target], a.value
            else:
                tgts, val = [a.target], a.value
            if val is None:
                continue
            for t in tgts:
                if isinstance(t, ast.Name):
                    tn = t.id
                    # direct: cur = value(cur, rest)
                    if _rest_lookup_of(val, tn):
                        cursors.add(tn)
        # one temporary: tmp = value(cur, rest); ... cur = tmp / cast(T, tmp) / tmp[0]
        for a in assigns:
            if isinstance(a, ast.Assign):
                tgts, val = a.targets, a.value
            elif isinstance(a, ast.AnnAssign):
                tgts, val = [a.target], a.value
            else:
                tgts, val = [a.target], a.value
            if val is None:
                continue
            for t in tgts:
                if not isinstance(t, ast.Name):
                    continue
                tmp = t.id
                for b in assigns:
                    if isinstance(b, ast.Assign):
                        btg, bval = b.targets, b.value
                    elif isinstance(b, ast.AnnAssign):
                        btg, bval = [b.target], b.value
                    else:
                        btg, bval = [b.target], b.value
                    if bval is None:
                        continue
                    for bt in btg:
                        if isinstance(bt, ast.Name) and bt.id != tmp:
                            cur = bt.id
                            if tmp in names(bval, ast.Load) and _rest_lookup_of(val, cur):
                                cursors.add(cur)
        for c in sorted(cursors):
            yield n, c


def _visited_guard(loop: ast.While, cursor: str, fn: ast.AST) -> Optional[str]:
    """(ii) a visited-collection: `if cursor in V: raise/return/break` (or the
    cursor's alias) inside the loop and `V.add(cursor)` / `V.append(cursor)` /
    `V[cursor] = ..` inside the loop."""
    aliases = {cursor}
    for a in ast.walk(loop):
        if isinstance(a, ast.Assign) and len(a.targets) == 1 and isinstance(a.targets[0], ast.Name):
            if cursor in names(a.value, ast.Load) or any(x in names(a.value, ast.Load) for x in aliases):
                pass
    colls = set()
    for t in ast.walk(loop):
        if isinstance(t, ast.If):
            for c in ast.walk(t.test):
                if isinstance(c, ast.Compare) and len(c.ops) == 1 and isinstance(c.ops[0], (ast.In,)):
                    if isinstance(c.left, ast.Name) and isinstance(c.comparators[0], (ast.Name, ast.Attribute)):
                        # exits the loop?
                        if any(isinstance(x, (ast.Raise, ast.Return, ast.Break)) for s in t.body for x in ast.walk(s)):
                            colls.add((c.left.id, norm(c.comparators[0])))
    for left, coll in colls:
        for c in ast.walk(loop):
            if isinstance(c, ast.Call) and isinstance(c.func, ast.Attribute) and c.func.attr in ("add", "append"):
                if norm(c.func.value) == coll and c.args and isinstance(c.args[0], ast.Name):
                    if c.args[0].id == left:
                        return "visited-set %s: membership test on %s exits the loop and every iteration adds it" % (coll, left)
    return None


def _counter_bound(loop: ast.While) -> Optional[str]:
    """(i) the loop test compares a counter that the body increments."""
    for c in ast.walk(loop.test):
        if isinstance(c, ast.Compare) and isinstance(c.left, ast.Name):
            nm = c.left.id
            for a in ast.walk(loop):
                if isinstance(a, ast.AugAssign) and isinstance(a.target, ast.Name) and a.target.id == nm:
                    return "counter %s bounds the loop" % nm
    return None


def _removes_link(loop: ast.While, cursor: str) -> Optional[str]:
    """(iii) the loop removes the rest link it follows: remove((cursor, RDF.rest, ..))
    or remove((cursor, None, None))."""
    for c in ast.walk(loop):
        if isinstance(c, ast.Call) and isinstance(c.func, ast.Attribute) and c.func.attr == "remove" and c.args:
            a = c.args[0]
            if isinstance(a, ast.Tuple) and len(a.elts) == 3:
                s, p, o = a.elts
                if isinstance(s, ast.Name) and (
                    _is_rest(p) or (isinstance(p, ast.Constant) and p.value is None)
                ):
                    return "removes the links of the cell it leaves (%s)" % norm(c)
    return None


def link_walk_guard(loop: ast.While, cursor: str, fn: ast.AST) -> Optional[str]:
    return _counter_bound(loop) or _visited_guard(loop, cursor, fn) or _removes_link(loop, cursor)


def stale_loop_variable_reads(f: ast.AST):
    """-> [(later_loop, sorted(names))]: a loop of f that reads a name whose only bindings in f are the targets of earlier, already
    finished loops (not enclosing it): every iteration sees that earlier loop's LAST element.  A bare annotation (`x: T`) is not a binding."""
    from .core import own_nodes

    loops_ = [n for n in own_nodes(f) if isinstance(n, (ast.For, ast.AsyncFor))]
    out = []
    if len(loops_) < 2:
        return out
    args = getattr(f, "args", None)
    params = {a.arg for a in ast.walk(args) if isinstance(a, ast.arg)} if args is not None else set()
    for l2 in sorted(loops_, key=lambda n: n.lineno):
        earlier = [l1 for l1 in loops_ if l1.lineno < l2.lineno and not any(l2 is x for x in ast.walk(l1))]
        if not earlier:
            continue
        bound_elsewhere = set(params)
        for n in own_nodes(f):
            if isinstance(n, ast.Name) and isinstance(n.ctx, ast.Store):
                if any(any(n is x for x in ast.walk(l1.target)) for l1 in earlier):
                    continue
                bound_elsewhere.add(n.id)
        # bare annotations are Store-context names without a value: not bindings
        for n in own_nodes(f):
            if isinstance(n, ast.AnnAssign) and n.value is None and isinstance(n.target, ast.Name):
                others = [x for x in own_nodes(f) if isinstance(x, ast.Name) and isinstance(x.ctx, ast.Store) and x.id == n.target.id and x is not n.target
                          and not any(any(x is y for y in ast.walk(l1.target)) for l1 in earlier)]
                if not others:
                    bound_elsewhere.discard(n.target.id)
        stale = set()
        for l1 in earlier:
            for nm in names(l1.target, ast.Store):
                if nm in bound_elsewhere or nm in names(l2.target, ast.Store):
                    continue
                # a loop nested in l2 (or l2 itself) that re-binds nm hides it
                rebound = any(isinstance(x, (ast.For, ast.AsyncFor, ast.comprehension)) and nm in names(x.target, ast.Store) for x in ast.walk(l2) if x is not l2)
                reads = [x for x in ast.walk(l2) if isinstance(x, ast.Name) and x.id == nm and isinstance(x.ctx, ast.Load)]
                if reads and not rebound:
                    stale.add(nm)
        if stale:
            out.append((l2, sorted(stale)))
    return out
