"""E3 - statement-level control-flow graph of one function and the path queries
the ordering rules need (must-pass-through, must-follow, reachability).

Node kinds: 'entry', 'exit' (normal return / fall off the end), 'raise'
(exceptional exit), 'stmt' (simple statement), 'test' (if/while test),
'iter' (for head), 'with', 'handler', 'match', 'def'.

Exceptions are modelled for explicit `raise` and for try/except: every
statement inside a try body has an edge to every handler of that try (any
statement may raise).  Outside a try, implicit exceptions leave the function
and are not paths on which an obligation has to hold.
"""
from __future__ import annotations

import ast
from typing import Iterable, Optional

from .core import AnalysisError


class Node:
    __slots__ = ("id", "kind", "ast", "label")

    def __init__(self, id: int, kind: str, node: Optional[ast.AST], label: str = ""):
        self.id = id
        self.kind = kind
        self.ast = node
        self.label = label

    def __repr__(self) -> str:
        ln = getattr(self.ast, "lineno", "")
        return "<%s %s %s>" % (self.kind, ln, self.label)


def _const_true(e: ast.expr) -> bool:
    return isinstance(e, ast.Constant) and bool(e.value) is True and e.value is not None


class CFG:
    def __init__(self, fn: ast.AST):
        self.fn = fn
        self.nodes: list[Node] = []
        self.succ: dict[int, set[int]] = {}
        self.pred: dict[int, set[int]] = {}
        self.edge_label: dict[tuple[int, int], str] = {}
        self.by_ast: dict[int, int] = {}  # id(ast stmt) -> node id
        self.entry = self._new("entry", None)
        self.exit = self._new("exit", None)
        self.raise_exit = self._new("raise", None)
        self._loops: list[tuple[int, list[int]]] = []  # (head, break sources)
        self._handlers: list[list[int]] = []  # stack of handler-entry lists
        self._finals: list[int] = []
        out = self._block(fn.body, {self.entry})  # type: ignore[attr-defined]
        for o in out:
            self._edge(o, self.exit)

    # -- construction
    def _new(self, kind: str, node: Optional[ast.AST], label: str = "") -> int:
        n = Node(len(self.nodes), kind, node, label)
        self.nodes.append(n)
        self.succ[n.id] = set()
        self.pred[n.id] = set()
        if node is not None and id(node) not in self.by_ast:
            self.by_ast[id(node)] = n.id
        return n.id

    def _edge(self, a: int, b: int, label: str = "") -> None:
        self.succ[a].add(b)
        self.pred[b].add(a)
        if label:
            self.edge_label[(a, b)] = label

    def _stmt_node(self, kind: str, st: ast.AST, preds: Iterable[int], label: str = "", elabel: dict[int, str] | None = None) -> int:
        n = self._new(kind, st)
        for p in preds:
            self._edge(p, n, (elabel or {}).get(p, ""))
        # may raise into enclosing handlers
        if self._handlers:
            for h in self._handlers[-1]:
                self._edge(n, h, "exc")
        return n

    def _block(self, stmts: list[ast.stmt], preds: set[int], plabels: dict[int, str] | None = None) -> set[int]:
        cur = set(preds)
        labels = dict(plabels or {})
        for st in stmts:
            cur = self._stmt(st, cur, labels)
            labels = {}
        return cur

    def _stmt(self, st: ast.stmt, preds: set[int], plabels: dict[int, str]) -> set[int]:
        if isinstance(st, ast.If):
            t = self._stmt_node("test", st, preds, elabel=plabels)
            a = self._block(st.body, {t}, {t: "true"})
            if st.orelse:
                b = self._block(st.orelse, {t}, {t: "false"})
            else:
                b = {t}
            return a | b
        if isinstance(st, ast.While):
            t = self._stmt_node("test", st, preds, elabel=plabels)
            self._loops.append((t, []))
            body_out = self._block(st.body, {t}, {t: "true"})
            for o in body_out:
                self._edge(o, t, "back")
            _, breaks = self._loops.pop()
            out: set[int] = set(breaks)
            if not _const_true(st.test):
                if st.orelse:
                    out |= self._block(st.orelse, {t}, {t: "false"})
                else:
                    out.add(t)
            return out
        if isinstance(st, (ast.For, ast.AsyncFor)):
            h = self._stmt_node("iter", st, preds, elabel=plabels)
            self._loops.append((h, []))
            body_out = self._block(st.body, {h}, {h: "true"})
            for o in body_out:
                self._edge(o, h, "back")
            _, breaks = self._loops.pop()
            out = set(breaks)
            if st.orelse:
                out |= self._block(st.orelse, {h}, {h: "false"})
            else:
                out.add(h)
            return out
        if isinstance(st, ast.Break):
            n = self._stmt_node("stmt", st, preds, elabel=plabels)
            if not self._loops:
                raise AnalysisError("break outside loop")
            self._loops[-1][1].append(n)
            return set()
        if isinstance(st, ast.Continue):
            n = self._stmt_node("stmt", st, preds, elabel=plabels)
            self._edge(n, self._loops[-1][0], "back")
            return set()
        if isinstance(st, ast.Return):
            n = self._stmt_node("stmt", st, preds, elabel=plabels)
            if self._finals:
                self._edge(n, self._finals[-1], "return-via-finally")
            else:
                self._edge(n, self.exit)
            return set()
        if isinstance(st, ast.Raise):
            n = self._stmt_node("stmt", st, preds, elabel=plabels)
            if not self._handlers:
                if self._finals:
                    self._edge(n, self._finals[-1], "raise-via-finally")
                else:
                    self._edge(n, self.raise_exit)
            return set()
        if isinstance(st, (ast.Try, getattr(ast, "TryStar", ast.Try))):
            fin_entry = None
            if st.finalbody:
                fin_entry = self._new("stmt", None, "finally-entry")
                self._finals.append(fin_entry)
            hentries = [self._new("handler", h) for h in st.handlers]
            # body, with edges from every body statement to every handler
            self._handlers.append(hentries if hentries else (self._handlers[-1] if self._handlers else []))
            if not hentries and fin_entry is not None:
                # try/finally without handlers: statements may raise into finally
                self._handlers[-1] = [fin_entry] + list(self._handlers[-1])
            body_out = self._block(st.body, preds, plabels)
            self._handlers.pop()
            outs: set[int] = set()
            if st.orelse:
                outs |= self._block(st.orelse, body_out)
            else:
                outs |= body_out
            for h, he in zip(st.handlers, hentries):
                outs |= self._block(h.body, {he})
            if fin_entry is not None:
                self._finals.pop()
                for o in outs:
                    self._edge(o, fin_entry)
                fout = self._block(st.finalbody, {fin_entry})
                # a finally reached through return/raise continues to the exits
                if any(l in ("return-via-finally",) for (a, b), l in self.edge_label.items() if b == fin_entry):
                    for o in fout:
                        self._edge(o, self.exit)
                if any(l in ("raise-via-finally", "exc") for (a, b), l in self.edge_label.items() if b == fin_entry):
                    for o in fout:
                        self._edge(o, self.raise_exit)
                return fout
            return outs
        if isinstance(st, (ast.With, ast.AsyncWith)):
            n = self._stmt_node("with", st, preds, elabel=plabels)
            return self._block(st.body, {n})
        if isinstance(st, ast.Match):
            n = self._stmt_node("match", st, preds, elabel=plabels)
            outs = {n}
            for c in st.cases:
                outs |= self._block(c.body, {n})
            return outs
        if isinstance(st, (ast.FunctionDef, ast.AsyncFunctionDef, ast.ClassDef)):
            n = self._stmt_node("def", st, preds, elabel=plabels)
            return {n}
        n = self._stmt_node("stmt", st, preds, elabel=plabels)
        return {n}

    # -- lookup
    def node_of(self, node: ast.AST, mod=None) -> int:
        """CFG node of a statement, or of the statement/head that evaluates the
        given expression (needs mod for parent links)."""
        if id(node) in self.by_ast:
            return self.by_ast[id(node)]
        if mod is not None:
            child = node
            for p in mod.parents(node):
                if id(p) in self.by_ast:
                    nid = self.by_ast[id(p)]
                    k = self.nodes[nid].kind
                    if k in ("test", "iter", "with", "match"):
                        # the expression belongs to the head only if it is in the
                        # test/iter/items part, not in the body
                        if isinstance(p, (ast.If, ast.While)) and child is p.test:
                            return nid
                        if isinstance(p, (ast.For, ast.AsyncFor)) and (child is p.iter or child is p.target):
                            return nid
                        if isinstance(p, (ast.With, ast.AsyncWith)) and child in p.items:
                            return nid
                        if isinstance(p, ast.Match) and child is p.subject:
                            return nid
                    else:
                        return nid
                if p is self.fn:
                    break
                child = p
        raise AnalysisError("no CFG node for %s" % ast.dump(node)[:80])

    # -- queries
    def reach(self, src: int, avoid: Iterable[int] = (), forward: bool = True, include_src: bool = False, skip_exc: bool = False) -> set[int]:
        av = set(avoid)
        adj = self.succ if forward else self.pred
        if skip_exc:
            # ignore the "any statement in a try body may raise" edges
            def nbrs(n):
                return [x for x in adj[n] if self.edge_label.get((n, x) if forward else (x, n)) != "exc"]
        else:
            def nbrs(n):
                return adj[n]
        seen: set[int] = set()
        stack = [x for x in nbrs(src) if x not in av]
        if include_src:
            seen.add(src)
        while stack:
            n = stack.pop()
            if n in seen:
                continue
            seen.add(n)
            stack.extend(x for x in nbrs(n) if x not in av and x not in seen)
        return seen

    def reachable(self, n: int) -> bool:
        return n == self.entry or n in self.reach(self.entry)

    def must_pass_before(self, target: int, through: Iterable[int]) -> bool:
        """Every path entry -> target passes through one of `through`."""
        th = set(through)
        if target in th:
            return True
        return target not in self.reach(self.entry, avoid=th)

    def must_pass_after(self, src: int, through: Iterable[int], exits: Iterable[int] | None = None, skip_exc: bool = False) -> bool:
        """Every path src -> normal exit passes through one of `through`."""
        th = set(through)
        ex = set(exits) if exits is not None else {self.exit}
        r = self.reach(src, avoid=th, skip_exc=skip_exc)
        return not (r & ex)

    def can_follow(self, a: int, b: int) -> bool:
        """Is there a path on which b executes after a?"""
        return b in self.reach(a)

    def stmts(self) -> list[Node]:
        return [n for n in self.nodes if n.ast is not None]


# ---------------------------------------------------------------------------------------------------------------------
# path-sensitive reaching definitions under a fixed truth assignment of invariant conditions
# ---------------------------------------------------------------------------------------------------------------------
def eval3(test: ast.expr, env: dict[str, Optional[bool]]) -> Optional[bool]:
    """three-valued truth of a branch condition: atoms are looked up by their normalised text in env (missing = unknown)"""
    if isinstance(test, ast.BoolOp):
        vals = [eval3(v, env) for v in test.values]
        if isinstance(test.op, ast.And):
            if any(v is False for v in vals):
                return False
            return True if all(v is True for v in vals) else None
        if any(v is True for v in vals):
            return True
        return False if all(v is False for v in vals) else None
    if isinstance(test, ast.UnaryOp) and isinstance(test.op, ast.Not):
        v = eval3(test.operand, env)
        return None if v is None else (not v)
    if isinstance(test, ast.Constant):
        return bool(test.value)
    return env.get(" ".join(ast.unparse(test).split()))


def _assigned_names(st: ast.AST) -> set[str]:
    """names (re)bound by the head of a CFG node's statement (not by nested bodies)"""
    out: set[str] = set()

    def tgt(t: ast.AST) -> None:
        if isinstance(t, ast.Name):
            out.add(t.id)
        elif isinstance(t, (ast.Tuple, ast.List)):
            for e in t.elts:
                tgt(e)
        elif isinstance(t, ast.Starred):
            tgt(t.value)

    if isinstance(st, ast.Assign):
        for t in st.targets:
            tgt(t)
    elif isinstance(st, (ast.AugAssign, ast.AnnAssign)):
        if not (isinstance(st, ast.AnnAssign) and st.value is None):
            tgt(st.target)
    elif isinstance(st, (ast.For, ast.AsyncFor)):
        tgt(st.target)
    elif isinstance(st, (ast.With, ast.AsyncWith)):
        for it in st.items:
            if it.optional_vars is not None:
                tgt(it.optional_vars)
    elif isinstance(st, ast.ExceptHandler) and st.name:
        out.add(st.name)
    if isinstance(st, (ast.Assign, ast.AugAssign, ast.AnnAssign, ast.Expr, ast.Return)):
        for n in ast.walk(st):
            if isinstance(n, ast.NamedExpr) and isinstance(n.target, ast.Name):
                out.add(n.target.id)
    return out


def bool_flags(fn: ast.AST) -> set[str]:
    """local names whose every binding in fn is `name = True|False` (one-bit state the path analysis tracks exactly)"""
    good: set[str] = set()
    bad: set[str] = set()
    for n in ast.walk(fn):
        if isinstance(n, ast.Assign) and len(n.targets) == 1 and isinstance(n.targets[0], ast.Name) \
                and isinstance(n.value, ast.Constant) and isinstance(n.value.value, bool):
            good.add(n.targets[0].id)
        elif isinstance(n, ast.Name) and isinstance(n.ctx, (ast.Store, ast.Del)):
            bad.add(n.id)
    # a Store Name that is the target of a constant-bool assignment was added to both sets: remove those counted once per such assignment
    cnt_good: dict[str, int] = {}
    cnt_all: dict[str, int] = {}
    for n in ast.walk(fn):
        if isinstance(n, ast.Name) and isinstance(n.ctx, (ast.Store, ast.Del)):
            cnt_all[n.id] = cnt_all.get(n.id, 0) + 1
        if isinstance(n, ast.Assign) and len(n.targets) == 1 and isinstance(n.targets[0], ast.Name) \
                and isinstance(n.value, ast.Constant) and isinstance(n.value.value, bool):
            cnt_good[n.targets[0].id] = cnt_good.get(n.targets[0].id, 0) + 1
    args = {a.arg for a in ast.walk(fn) if isinstance(a, ast.arg)}
    return {k for k in good if cnt_good.get(k) == cnt_all.get(k) and k not in args}


def reaching_defs(g: CFG, target: int, var: str, assume: dict[str, bool] | None = None, skip_exc: bool = True) -> set[int]:
    """CFG node ids of the bindings of `var` that can be the LAST one executed on a feasible path entry -> target
    (g.entry stands for `the value at function entry`).  Feasibility: a branch edge is pruned when its condition, evaluated in
    three-valued logic over `assume` (atoms that the function never changes, by normalised text) and the exactly tracked
    one-bit local flags (bool_flags), contradicts the edge."""
    assume = dict(assume or {})
    flags = sorted(bool_flags(g.fn))
    fidx = {f: i for i, f in enumerate(flags)}
    start = (g.entry, tuple([None] * len(flags)), g.entry)
    seen = {start}
    stack = [start]
    out: set[int] = set()
    while stack:
        nid, fl, last = stack.pop()
        if nid == target:
            out.add(last)
        node = g.nodes[nid]
        st = node.ast
        nfl = fl
        nlast = last
        if st is not None and node.kind not in ("test",):
            names = _assigned_names(st)
            if var in names:
                nlast = nid
            for f in names & set(flags):
                v = st.value.value if isinstance(st, ast.Assign) and isinstance(st.value, ast.Constant) else None
                l = list(nfl)
                l[fidx[f]] = v
                nfl = tuple(l)
        elif st is not None and node.kind == "test":
            if var in {n.target.id for n in ast.walk(st.test) if isinstance(n, ast.NamedExpr) and isinstance(n.target, ast.Name)}:  # type: ignore[attr-defined]
                nlast = nid
        verdict = None
        if node.kind == "test" and st is not None:
            env: dict[str, Optional[bool]] = dict(assume)
            for f, v in zip(flags, nfl):
                env[f] = v
            verdict = eval3(st.test, env)  # type: ignore[attr-defined]
        for m in g.succ[nid]:
            lab = g.edge_label.get((nid, m), "")
            if lab == "exc" and skip_exc:
                continue
            if node.kind == "test" and lab != "exc":
                is_true_edge = lab == "true"
                if verdict is True and not is_true_edge:
                    continue
                if verdict is False and is_true_edge:
                    continue
            s2 = (m, nfl, nlast)
            if s2 not in seen:
                seen.add(s2)
                stack.append(s2)
    return out
