"""Helpers of the C20 check (checks/c20.py): constant folding of the string constants regular expressions are built
from, a small matcher over `re._parser` trees (decides 'does this alternative match a prefix of that literal'),
def-use resolution of local names and backward expression slices.  Pure `ast` / `re._parser`: nothing of the analysed
library is imported or run."""
from __future__ import annotations

import ast
import re
from typing import Iterable, Iterator, Optional

try:  # Python >= 3.11
    import re._constants as _sc
    import re._parser as _sp
except ImportError:  # pragma: no cover
    import sre_constants as _sc  # type: ignore[no-redef]
    import sre_parse as _sp  # type: ignore[no-redef]

from .core import AnalysisError, Module, norm, own_nodes

# ----------------------------------------------------------------------------------------------------------------------
# string constants at module / class level
# ----------------------------------------------------------------------------------------------------------------------


class StrEnv:
    """Values of the names bound to string constants in a module body and (optionally) one class body; expressions are
    folded over Constant, +, %, f-strings and references to other such names (`X`, `self.X`, `cls.X`, `Class.X`)."""

    def __init__(self, mod: Module, cls: Optional[str] = None):
        self.mod = mod
        self.cls = cls
        self.scopes: list[dict[str, ast.expr]] = []
        if cls is not None:
            self.scopes.append(self._assigns(mod.cls(cls).body))
        self.scopes.append(self._assigns(mod.tree.body))
        self._busy: set[str] = set()

    @staticmethod
    def _assigns(body: list[ast.stmt]) -> dict[str, ast.expr]:
        out: dict[str, ast.expr] = {}
        for st in body:
            if isinstance(st, ast.Assign) and len(st.targets) == 1 and isinstance(st.targets[0], ast.Name):
                out[st.targets[0].id] = st.value
            elif isinstance(st, ast.AnnAssign) and isinstance(st.target, ast.Name) and st.value is not None:
                out[st.target.id] = st.value
        return out

    def lookup(self, name: str) -> Optional[ast.expr]:
        for sc in self.scopes:
            if name in sc:
                return sc[name]
        return None

    def value(self, e: ast.expr):
        """str / bytes / tuple value of a constant expression, or None when it is not one"""
        if isinstance(e, ast.Constant) and isinstance(e.value, (str, bytes, int)):
            return e.value
        if isinstance(e, ast.Name) or (isinstance(e, ast.Attribute) and isinstance(e.value, ast.Name) and e.value.id in ("self", "cls", self.cls)):
            nm = e.id if isinstance(e, ast.Name) else e.attr
            if nm in self._busy:
                return None
            tgt = self.lookup(nm)
            if tgt is None:
                return None
            self._busy.add(nm)
            try:
                return self.value(tgt)
            finally:
                self._busy.discard(nm)
        if isinstance(e, ast.Tuple):
            vals = [self.value(x) for x in e.elts]
            return None if any(v is None for v in vals) else tuple(vals)
        if isinstance(e, ast.BinOp) and isinstance(e.op, (ast.Add, ast.Mod)):
            l, r = self.value(e.left), self.value(e.right)
            if l is None or r is None:
                return None
            try:
                return l + r if isinstance(e.op, ast.Add) else l % r
            except Exception:
                return None
        if isinstance(e, ast.JoinedStr):
            out = ""
            for v in e.values:
                if isinstance(v, ast.Constant):
                    out += str(v.value)
                elif isinstance(v, ast.FormattedValue) and v.format_spec is None and v.conversion == -1:
                    x = self.value(v.value)
                    if not isinstance(x, str):
                        return None
                    out += x
                else:
                    return None
            return out
        return None


def is_re_compile(e: ast.AST) -> bool:
    return isinstance(e, ast.Call) and norm(e.func) in ("re.compile", "compile") and bool(e.args)


def re_flags(call: ast.Call) -> int:
    """flags of a `re.compile(p, re.A | re.B)` call (0 when absent); unknown flag expressions fail closed"""
    fe = call.args[1] if len(call.args) > 1 else next((k.value for k in call.keywords if k.arg == "flags"), None)
    if fe is None:
        return 0

    def ev(x: ast.expr) -> int:
        if isinstance(x, ast.BinOp) and isinstance(x.op, ast.BitOr):
            return ev(x.left) | ev(x.right)
        if isinstance(x, ast.Attribute) and isinstance(x.value, ast.Name) and x.value.id == "re" and isinstance(getattr(re, x.attr, None), int):
            return int(getattr(re, x.attr))
        if isinstance(x, ast.Constant) and isinstance(x.value, int):
            return x.value
        raise AnalysisError("regular-expression flags not understood: %s" % norm(x))

    return ev(fe)


def compiled_patterns(mod: Module) -> Iterator[tuple[str, ast.Call, str, int]]:
    """(qualified name, re.compile call, pattern text, flags) for every `NAME = re.compile(<constant expression>)` in the
    module body and in every class body of the module"""
    scopes: list[tuple[Optional[str], list[ast.stmt]]] = [(None, mod.tree.body)]
    scopes += [(q, n.body) for q, n in mod.defs.items() if isinstance(n, ast.ClassDef)]
    for cls, body in scopes:
        env = StrEnv(mod, cls)
        for st in body:
            if isinstance(st, ast.Assign) and len(st.targets) == 1 and isinstance(st.targets[0], ast.Name) and is_re_compile(st.value):
                pat = env.value(st.value.args[0])
                q = (cls + "." if cls else "") + st.targets[0].id
                if not isinstance(pat, (str, bytes)):
                    raise AnalysisError("%s:%s: pattern of re.compile is not a foldable constant (%s)" % (mod.rel, q, norm(st.value.args[0])[:60]))
                yield q, st.value, pat if isinstance(pat, str) else pat.decode("latin-1"), re_flags(st.value)


# ----------------------------------------------------------------------------------------------------------------------
# re._parser trees
# ----------------------------------------------------------------------------------------------------------------------

_REPEATS = tuple(getattr(_sc, n) for n in ("MAX_REPEAT", "MIN_REPEAT", "POSSESSIVE_REPEAT") if hasattr(_sc, n))
_GROUPS = tuple(getattr(_sc, n) for n in ("SUBPATTERN", "ATOMIC_GROUP") if hasattr(_sc, n))


def parse_regex(pattern: str, flags: int = 0):
    try:
        return list(_sp.parse(pattern, flags))
    except Exception as e:
        raise AnalysisError("regular expression does not parse: %s (%s)" % (pattern[:60], e)) from None


def _group_items(av) -> list:
    return list(av[-1]) if isinstance(av, tuple) else list(av)


def leaf_alternatives(items: list) -> list[list]:
    """The ordered choice a pattern makes at its END, flattened: when the last item of a sequence is an alternation (or a
    group whose content ends in one) nothing follows the alternatives, so the first alternative that matches decides the
    whole match and the alternatives are tried exactly in the returned order."""
    if not items:
        return [[]]
    op, av = items[-1]
    head = items[:-1]
    if op is _sc.BRANCH:
        out: list[list] = []
        for alt in av[1]:
            out.extend(leaf_alternatives(head + list(alt)))
        return out
    if op in _GROUPS:
        inner = _group_items(av)
        subs = leaf_alternatives(inner)
        if len(subs) > 1:
            return [head + s for s in subs]
    return [items]


def literal_prefix(items: Iterable) -> str:
    """the text every match of the sequence must begin with (leading literals, through groups)"""
    out = ""
    for op, av in items:
        if op is _sc.LITERAL:
            out += chr(av)
            continue
        if op in _GROUPS:
            inner = _group_items(av)
            p = literal_prefix(inner)
            out += p
            if all(o is _sc.LITERAL for o, _ in inner):
                continue
        break
    return out


def _in_set(av, ch: str, flags: int) -> bool:
    neg = False
    hit = False
    cands = {ch, ch.lower(), ch.upper()} if flags & re.IGNORECASE else {ch}
    for op, a in av:
        if op is _sc.NEGATE:
            neg = True
        elif op is _sc.LITERAL:
            hit = hit or chr(a) in cands
        elif op is _sc.RANGE:
            hit = hit or any(a[0] <= ord(c) <= a[1] for c in cands)
        elif op is _sc.CATEGORY:
            hit = hit or _category(a, ch)
        else:
            raise AnalysisError("regular-expression set item not modelled: %s" % (op,))
    return hit != neg


def _category(cat, ch: str) -> bool:
    name = getattr(cat, "name", str(cat))
    table = {"CATEGORY_DIGIT": ch.isdigit(), "CATEGORY_SPACE": ch.isspace(), "CATEGORY_WORD": ch.isalnum() or ch == "_"}
    for k, v in table.items():
        if name == k:
            return v
        if name == k.replace("CATEGORY_", "CATEGORY_NOT_"):
            return not v
    raise AnalysisError("regular-expression category not modelled: %s" % name)


def match_ends(items: list, text: str, pos: int = 0, flags: int = 0) -> set[int]:
    """all positions at which a match of the sequence that starts at `pos` of `text` can end (set-based, no backtracking
    order: 'can the sequence match text[pos:k] exactly').  Look-around and back-references are not modelled (fail closed)."""
    cur = {pos}
    for op, av in items:
        nxt: set[int] = set()
        for p in cur:
            nxt |= _step(op, av, text, p, flags)
        cur = nxt
        if not cur:
            break
    return cur


def _step(op, av, text: str, p: int, flags: int) -> set[int]:
    ch = text[p] if p < len(text) else None
    if op is _sc.LITERAL:
        if ch is None:
            return set()
        same = ch == chr(av) or (flags & re.IGNORECASE and ch.lower() == chr(av).lower())
        return {p + 1} if same else set()
    if op is _sc.NOT_LITERAL:
        return {p + 1} if ch is not None and ch != chr(av) else set()
    if op is _sc.ANY:
        return {p + 1} if ch is not None and (ch != "\n" or flags & re.DOTALL) else set()
    if op is _sc.IN:
        return {p + 1} if ch is not None and _in_set(av, ch, flags) else set()
    if op is _sc.BRANCH:
        out: set[int] = set()
        for alt in av[1]:
            out |= match_ends(list(alt), text, p, flags)
        return out
    if op in _GROUPS:
        return match_ends(_group_items(av), text, p, flags)
    if op in _REPEATS:
        lo, hi, sub = av
        sub = list(sub)
        out = {p} if lo == 0 else set()
        level = {p}
        seen = {p}
        k = 0
        while level and k < min(int(hi), len(text) + 2):
            k += 1
            nl: set[int] = set()
            for q in level:
                nl |= match_ends(sub, text, q, flags)
            if k >= lo:
                out |= nl
            if k >= lo and nl <= seen:
                break
            seen |= nl
            level = nl
        return out
    if op is _sc.AT:
        name = getattr(av, "name", str(av))
        if name in ("AT_BEGINNING", "AT_BEGINNING_STRING"):
            return {p} if p == 0 else set()
        if name in ("AT_END", "AT_END_STRING"):
            return {p} if p == len(text) else set()
    raise AnalysisError("regular-expression construct not modelled: %s" % (op,))


# ----------------------------------------------------------------------------------------------------------------------
# def-use inside one function
# ----------------------------------------------------------------------------------------------------------------------


def local_defs(fn: ast.AST) -> dict[str, list[tuple[ast.AST, Optional[ast.expr]]]]:
    """name -> [(binding statement, value expression or None)] for the plain bindings of a function body
    (tuple targets, loop targets, with/except names give value None = 'bound to something not tracked')"""
    out: dict[str, list[tuple[ast.AST, Optional[ast.expr]]]] = {}

    def bind(t: ast.AST, st: ast.AST, v: Optional[ast.expr]) -> None:
        if isinstance(t, ast.Name):
            out.setdefault(t.id, []).append((st, v))
        elif isinstance(t, (ast.Tuple, ast.List)):
            for x in t.elts:
                bind(x, st, None)
        elif isinstance(t, ast.Starred):
            bind(t.value, st, None)

    for n in own_nodes(fn):
        if isinstance(n, ast.Assign):
            for t in n.targets:
                bind(t, n, n.value)
        elif isinstance(n, ast.AnnAssign) and n.value is not None:
            bind(n.target, n, n.value)
        elif isinstance(n, ast.AugAssign):
            bind(n.target, n, None)
        elif isinstance(n, (ast.For, ast.AsyncFor)):
            bind(n.target, n, None)
        elif isinstance(n, ast.NamedExpr):
            bind(n.target, n, n.value)
        elif isinstance(n, (ast.With, ast.AsyncWith)):
            for it in n.items:
                if it.optional_vars is not None:
                    bind(it.optional_vars, n, None)
        elif isinstance(n, ast.comprehension):
            bind(n.target, n, None)
    return out


def backward_slice(expr: ast.AST, fn: ast.AST, mod: Module, depth: int = 6) -> list[ast.AST]:
    """every AST node the value of `expr` is computed from inside `fn`: the expression itself, the values assigned to the
    local names it reads (transitively, with the conditions of the `if`s those bindings sit in) and the return expressions of
    the module-level functions it calls"""
    seen: set[int] = set()
    out: list[ast.AST] = []
    defs_cache: dict[int, dict] = {}

    def defs_of(f: ast.AST) -> dict:
        if id(f) not in defs_cache:
            defs_cache[id(f)] = local_defs(f)
        return defs_cache[id(f)]

    def visit(e: ast.AST, f: ast.AST, d: int) -> None:
        for n in ast.walk(e):
            if id(n) in seen:
                continue
            seen.add(id(n))
            out.append(n)
            if d <= 0:
                continue
            if isinstance(n, ast.Name) and isinstance(n.ctx, ast.Load):
                for st, v in defs_of(f).get(n.id, []):
                    if v is not None and id(v) not in seen:
                        visit(v, f, d - 1)
                    # control dependence: the conditions under which this binding is the one that takes effect
                    for p in mod.parents(st):
                        if p is f:
                            break
                        if isinstance(p, (ast.If, ast.While)) and id(p.test) not in seen:
                            visit(p.test, f, d - 1)
            if isinstance(n, ast.Call) and isinstance(n.func, ast.Name) and n.func.id not in defs_of(f):
                callee = mod.defs.get(n.func.id)
                if isinstance(callee, (ast.FunctionDef, ast.AsyncFunctionDef)):
                    for r in own_nodes(callee):
                        if isinstance(r, ast.Return) and r.value is not None:
                            visit(r.value, callee, d - 1)

    visit(expr, fn, depth)
    return out


def mentions(expr: ast.AST, names: set[str], fn: Optional[ast.AST], mod: Module, depth: int = 4) -> bool:
    """does the value of `expr` depend on one of the (module-level) names - directly, through a local of `fn`, or through
    another module-level constant"""
    top = StrEnv._assigns(mod.tree.body)
    seen: set[int] = set()

    def visit(e: ast.AST, d: int) -> bool:
        for n in ast.walk(e):
            if isinstance(n, ast.Name) and isinstance(n.ctx, ast.Load):
                if n.id in names:
                    return True
                if d > 0 and id(n) not in seen:
                    seen.add(id(n))
                    vals = [v for _s, v in (local_defs(fn).get(n.id, []) if fn is not None else []) if v is not None]
                    if not vals and n.id in top:
                        vals = [top[n.id]]
                    if any(visit(v, d - 1) for v in vals):
                        return True
        return False

    return visit(expr, depth)


def imported_as(mod: Module, module_suffix: str, name: str) -> set[str]:
    """local names under which `name` of a module whose dotted name ends with module_suffix is imported"""
    out = set()
    for n in ast.walk(mod.tree):
        if isinstance(n, ast.ImportFrom) and n.module and (n.module == module_suffix or n.module.endswith("." + module_suffix) or module_suffix.endswith(n.module)):
            for a in n.names:
                if a.name == name:
                    out.add(a.asname or a.name)
    return out


def branch_of(mod: Module, node: ast.AST, stop: ast.AST) -> Iterator[tuple[ast.AST, str]]:
    """(enclosing If / IfExp / While, 'body' | 'orelse' | 'test') for every conditional that encloses node inside `stop`,
    innermost first"""
    child = node
    for p in mod.parents(node):
        if isinstance(p, (ast.If, ast.While)):
            if child is p.test:
                yield p, "test"
            elif any(child is s for s in p.body):
                yield p, "body"
            elif any(child is s for s in p.orelse):
                yield p, "orelse"
        elif isinstance(p, ast.IfExp):
            yield p, "test" if child is p.test else ("body" if child is p.body else "orelse")
        if p is stop:
            return
        child = p
