"""Helpers of the C20 check (checks/c20.py): constant folding of the string constants regular expressions are built
from, a small matcher over `re._parser` trees (decides 'does this alternative match a prefix of that literal'),
def-use resolution of local names and backward expression slices.  Pure `ast` / `re._parser`: nothing of the analysed
library is imported or run."""
from __future__ import annotations

import ast
import re
from typing import Callable, Iterable, Iterator, Optional

try:  # Python >= 3.11
    import re._constants as _sc
    import re._parser as _sp
except ImportError:  # pragma: no cover
    import sre_constants as _sc  # type: ignore[no-redef]
    import sre_parse as _sp  # type: ignore[no-redef]

from .core import AnalysisError, Module, norm, own_nodes

# ----------------------------------------------------------------------------------------------------------------------
# string constants at module / class level
# ----------------------------------------------------------------------------------------------------------------------


class StrEnv:
    """Values of the names bound to string constants in a module body and (optionally) one class body; expressions are
    folded over Constant, +, %, f-strings and references to other such names (`X`, `self.X`, `cls.X`, `Class.X`)."""

    def __init__(self, mod: Module, cls: Optional[str] = None):
        self.mod = mod
        self.cls = cls
        self.scopes: list[dict[str, ast.expr]] = []
        if cls is not None:
            self.scopes.append(self._assigns(mod.cls(cls).body))
        self.scopes.append(self._assigns(mod.tree.body))
        self._busy: set[str] = set()

    @staticmethod
    def _assigns(body: list[ast.stmt]) -> dict[str, ast.expr]:
        out: dict[str, ast.expr] = {}
        for st in body:
            if isinstance(st, ast.Assign) and len(st.targets) == 1 and isinstance(st.targets[0], ast.Name):
                out[st.targets[0].id] = st.value
            elif isinstance(st, ast.AnnAssign) and isinstance(st.target, ast.Name) and st.value is not None:
                out[st.target.id] = st.value
        return out

    def lookup(self, name: str) -> Optional[ast.expr]:
        for sc in self.scopes:
            if name in sc:
                return sc[name]
        return None

    def value(self, e: ast.expr):
        """str / bytes / tuple value of a constant expression, or None when it is not one"""
        if isinstance(e, ast.Constant) and isinstance(e.value, (str, bytes, int)):
            return e.value
        if isinstance(e, ast.Name) or (isinstance(e, ast.Attribute) and isinstance(e.value, ast.Name) and e.value.id in ("self", "cls", self.cls)):
            nm = e.id if isinstance(e, ast.Name) else e.attr
            if nm in self._busy:
                return None
            tgt = self.lookup(nm)
            if tgt is None:
                return None
            self._busy.add(nm)
            try:
                return self.value(tgt)
            finally:
                self._busy.discard(nm)
        if isinstance(e, ast.Tuple):
            vals = [self.value(x) for x in e.elts]
            return None if any(v is None for v in vals) else tuple(vals)
        if isinstance(e, ast.BinOp) and isinstance(e.op, (ast.Add, ast.Mod)):
            l, r = self.value(e.left), self.value(e.right)
            if l is None or r is None:
                return None
            try:
                return l + r if isinstance(e.op, ast.Add) else l % r
            except Exception:
                return None
        if isinstance(e, ast.JoinedStr):
            out = ""
            for v in e.values:
                if isinstance(v, ast.Constant):
                    out += str(v.value)
                elif isinstance(v, ast.FormattedValue) and v.format_spec is None and v.conversion == -1:
                    x = self.value(v.value)
                    if not isinstance(x, str):
                        return None
                    out += x
                else:
                    return None
            return out
        return None


def is_re_compile(e: ast.AST) -> bool:
    return isinstance(e, ast.Call) and norm(e.func) in ("re.compile", "compile") and bool(e.args)


def re_flags(call: ast.Call) -> int:
    """flags of a `re.compile(p, re.A | re.B)` call (0 when absent); unknown flag expressions fail closed"""
    fe = call.args[1] if len(call.args) > 1 else next((k.value for k in call.keywords if k.arg == "flags"), None)
    if fe is None:
        return 0

    def ev(x: ast.expr) -> int:
        if isinstance(x, ast.BinOp) and isinstance(x.op, ast.BitOr):
            return ev(x.left) | ev(x.right)
        if isinstance(x, ast.Attribute) and isinstance(x.value, ast.Name) and x.value.id == "re" and isinstance(getattr(re, x.attr, None), int):
            return int(getattr(re, x.attr))
        if isinstance(x, ast.Constant) and isinstance(x.value, int):
            return x.value
        raise AnalysisError("regular-expression flags not understood: %s" % norm(x))

    return ev(fe)


def compiled_patterns(mod: Module) -> Iterator[tuple[str, ast.Call, str, int]]:
    """(qualified name, re.compile call, pattern text, flags) for every `NAME = re.compile(<constant expression>)` in the
    module body and in every class body of the module"""
    scopes: list[tuple[Optional[str], list[ast.stmt]]] = [(None, mod.tree.body)]
    scopes += [(q, n.body) for q, n in mod.defs.items() if isinstance(n, ast.ClassDef)]
    for cls, body in scopes:
        env = StrEnv(mod, cls)
        for st in body:
            if isinstance(st, ast.Assign) and len(st.targets) == 1 and isinstance(st.targets[0], ast.Name) and is_re_compile(st.value):
                pat = env.value(st.value.args[0])
                q = (cls + "." if cls else "") + st.targets[0].id
                if not isinstance(pat, (str, bytes)):
                    raise AnalysisError("%s:%s: pattern of re.compile is not a foldable constant (%s)" % (mod.rel, q, norm(st.value.args[0])[:60]))
                yield q, st.value, pat if isinstance(pat, str) else pat.decode("latin-1"), re_flags(st.value)


# ----------------------------------------------------------------------------------------------------------------------
# re._parser trees
# ----------------------------------------------------------------------------------------------------------------------

_REPEATS = tuple(getattr(_sc, n) for n in ("MAX_REPEAT", "MIN_REPEAT", "POSSESSIVE_REPEAT") if hasattr(_sc, n))
_GROUPS = tuple(getattr(_sc, n) for n in ("SUBPATTERN", "ATOMIC_GROUP") if hasattr(_sc, n))


def parse_regex(pattern: str, flags: int = 0):
    try:
        return list(_sp.parse(pattern, flags))
    except Exception as e:
        raise AnalysisError("regular expression does not parse: %s (%s)" % (pattern[:60], e)) from None


def _group_items(av) -> list:
    return list(av[-1]) if isinstance(av, tuple) else list(av)


def leaf_alternatives(items: list) -> list[list]:
    """The ordered choice a pattern makes at its END, flattened: when the last item of a sequence is an alternation (or a
    group whose content ends in one) nothing follows the alternatives, so the first alternative that matches decides the
    whole match and the alternatives are tried exactly in the returned order."""
    if not items:
        return [[]]
    op, av = items[-1]
    head = items[:-1]
    if op is _sc.BRANCH:
        out: list[list] = []
        for alt in av[1]:
            out.extend(leaf_alternatives(head + list(alt)))
        return out
    if op in _GROUPS:
        inner = _group_items(av)
        subs = leaf_alternatives(inner)
        if len(subs) > 1:
            return [head + s for s in subs]
    return [items]


def literal_prefix(items: Iterable) -> str:
    """the text every match of the sequence must begin with (leading literals, through groups)"""
    out = ""
    for op, av in items:
        if op is _sc.LITERAL:
            out += chr(av)
            continue
        if op in _GROUPS:
            inner = _group_items(av)
            p = literal_prefix(inner)
            out += p
            if all(o is _sc.LITERAL for o, _ in inner):
                continue
        break
    return out


def _in_set(av, ch: str, flags: int) -> bool:
    neg = False
    hit = False
    cands = {ch, ch.lower(), ch.upper()} if flags & re.IGNORECASE else {ch}
    for op, a in av:
        if op is _sc.NEGATE:
            neg = True
        elif op is _sc.LITERAL:
            hit = hit or chr(a) in cands
        elif op is _sc.RANGE:
            hit = hit or any(a[0] <= ord(c) <= a[1] for c in cands)
        elif op is _sc.CATEGORY:
            hit = hit or _category(a, ch)
        else:
            raise AnalysisError("regular-expression set item not modelled: %s" % (op,))
    return hit != neg


def _category(cat, ch: str) -> bool:
    name = getattr(cat, "name", str(cat))
    table = {"CATEGORY_DIGIT": ch.isdigit(), "CATEGORY_SPACE": ch.isspace(), "CATEGORY_WORD": ch.isalnum() or ch == "_"}
    for k, v in table.items():
        if name == k:
            return v
        if name == k.replace("CATEGORY_", "CATEGORY_NOT_"):
            return not v
    raise AnalysisError("regular-expression category not modelled: %s" % name)


def match_ends(items: list, text: str, pos: int = 0, flags: int = 0) -> set[int]:
    """all positions at which a match of the sequence that starts at `pos` of `text` can end (set-based, no backtracking
    order: 'can the sequence match text[pos:k] exactly').  Look-around and back-references are not modelled (fail closed)."""
    cur = {pos}
    for op, av in items:
        nxt: set[int] = set()
        for p in cur:
            nxt |= _step(op, av, text, p, flags)
        cur = nxt
        if not cur:
            break
    return cur


def _step(op, av, text: str, p: int, flags: int) -> set[int]:
    ch = text[p] if p < len(text) else None
    if op is _sc.LITERAL:
        if ch is None:
            return set()
        same = ch == chr(av) or (flags & re.IGNORECASE and ch.lower() == chr(av).lower())
        return {p + 1} if same else set()
    if op is _sc.NOT_LITERAL:
        return {p + 1} if ch is not None and ch != chr(av) else set()
    if op is _sc.ANY:
        return {p + 1} if ch is not None and (ch != "\n" or flags & re.DOTALL) else set()
    if op is _sc.IN:
        return {p + 1} if ch is not None and _in_set(av, ch, flags) else set()
    if op is _sc.BRANCH:
        out: set[int] = set()
        for alt in av[1]:
            out |= match_ends(list(alt), text, p, flags)
        return out
    if op in _GROUPS:
        return match_ends(_group_items(av), text, p, flags)
    if op in _REPEATS:
        lo, hi, sub = av
        sub = list(sub)
        out = {p} if lo == 0 else set()
        level = {p}
        seen = {p}
        k = 0
        while level and k < min(int(hi), len(text) + 2):
            k += 1
            nl: set[int] = set()
            for q in level:
                nl |= match_ends(sub, text, q, flags)
            if k >= lo:
                out |= nl
            if k >= lo and nl <= seen:
                break
            seen |= nl
            level = nl
        return out
    if op is _sc.AT:
        name = getattr(av, "name", str(av))
        if name in ("AT_BEGINNING", "AT_BEGINNING_STRING"):
            return {p} if p == 0 else set()
        if name in ("AT_END", "AT_END_STRING"):
            return {p} if p == len(text) else set()
    raise AnalysisError("regular-expression construct not modelled: %s" % (op,))


# ----------------------------------------------------------------------------------------------------------------------
# def-use inside one function
# ----------------------------------------------------------------------------------------------------------------------


def local_defs(fn: ast.AST) -> dict[str, list[tuple[ast.AST, Optional[ast.expr]]]]:
    """name -> [(binding statement, value expression or None)] for the plain bindings of a function body
    (tuple targets, loop targets, with/except names give value None = 'bound to something not tracked')"""
    out: dict[str, list[tuple[ast.AST, Optional[ast.expr]]]] = {}

    def bind(t: ast.AST, st: ast.AST, v: Optional[ast.expr]) -> None:
        if isinstance(t, ast.Name):
            out.setdefault(t.id, []).append((st, v))
        elif isinstance(t, (ast.Tuple, ast.List)):
            for x in t.elts:
                bind(x, st, None)
        elif isinstance(t, ast.Starred):
            bind(t.value, st, None)

    for n in own_nodes(fn):
        if isinstance(n, ast.Assign):
            for t in n.targets:
                bind(t, n, n.value)
        elif isinstance(n, ast.AnnAssign) and n.value is not None:
            bind(n.target, n, n.value)
        elif isinstance(n, ast.AugAssign):
            bind(n.target, n, None)
        elif isinstance(n, (ast.For, ast.AsyncFor)):
            bind(n.target, n, None)
        elif isinstance(n, ast.NamedExpr):
            bind(n.target, n, n.value)
        elif isinstance(n, (ast.With, ast.AsyncWith)):
            for it in n.items:
                if it.optional_vars is not None:
                    bind(it.optional_vars, n, None)
        elif isinstance(n, ast.comprehension):
            bind(n.target, n, None)
    return out


def backward_slice(expr: ast.AST, fn: ast.AST, mod: Module, depth: int = 6) -> list[ast.AST]:
    """every AST node the value of `expr` is computed from inside `fn`: the expression itself, the values assigned to the
    local names it reads (transitively, with the conditions of the `if`s those bindings sit in) and the return expressions of
    the module-level functions it calls"""
    seen: set[int] = set()
    out: list[ast.AST] = []
    defs_cache: dict[int, dict] = {}

    def defs_of(f: ast.AST) -> dict:
        if id(f) not in defs_cache:
            defs_cache[id(f)] = local_defs(f)
        return defs_cache[id(f)]

    def visit(e: ast.AST, f: ast.AST, d: int) -> None:
        for n in ast.walk(e):
            if id(n) in seen:
                continue
            seen.add(id(n))
            out.append(n)
            if d <= 0:
                continue
            if isinstance(n, ast.Name) and isinstance(n.ctx, ast.Load):
                for st, v in defs_of(f).get(n.id, []):
                    if v is not None and id(v) not in seen:
                        visit(v, f, d - 1)
                    # control dependence: the conditions under which this binding is the one that takes effect
                    for p in mod.parents(st):
                        if p is f:
                            break
                        if isinstance(p, (ast.If, ast.While)) and id(p.test) not in seen:
                            visit(p.test, f, d - 1)
            if isinstance(n, ast.Call) and isinstance(n.func, ast.Name) and n.func.id not in defs_of(f):
                callee = mod.defs.get(n.func.id)
                if isinstance(callee, (ast.FunctionDef, ast.AsyncFunctionDef)):
                    for r in own_nodes(callee):
                        if isinstance(r, ast.Return) and r.value is not None:
                            visit(r.value, callee, d - 1)

    visit(expr, fn, depth)
    return out


def mentions(expr: ast.AST, names: set[str], fn: Optional[ast.AST], mod: Module, depth: int = 4) -> bool:
    """does the value of `expr` depend on one of the (module-level) names - directly, through a local of `fn`, or through
    another module-level constant"""
    top = StrEnv._assigns(mod.tree.body)
    seen: set[int] = set()

    def visit(e: ast.AST, d: int) -> bool:
        for n in ast.walk(e):
            if isinstance(n, ast.Name) and isinstance(n.ctx, ast.Load):
                if n.id in names:
                    return True
                if d > 0 and id(n) not in seen:
                    seen.add(id(n))
                    vals = [v for _s, v in (local_defs(fn).get(n.id, []) if fn is not None else []) if v is not None]
                    if not vals and n.id in top:
                        vals = [top[n.id]]
                    if any(visit(v, d - 1) for v in vals):
                        return True
        return False

    return visit(expr, depth)


def imported_as(mod: Module, module_suffix: str, name: str) -> set[str]:
    """local names under which `name` of a module whose dotted name ends with module_suffix is imported"""
    out = set()
    for n in ast.walk(mod.tree):
        if isinstance(n, ast.ImportFrom) and n.module and (n.module == module_suffix or n.module.endswith("." + module_suffix) or module_suffix.endswith(n.module)):
            for a in n.names:
                if a.name == name:
                    out.add(a.asname or a.name)
    return out


def branch_of(mod: Module, node: ast.AST, stop: ast.AST) -> Iterator[tuple[ast.AST, str]]:
    """(enclosing If / IfExp / While, 'body' | 'orelse' | 'test') for every conditional that encloses node inside `stop`,
    innermost first"""
    child = node
    for p in mod.parents(node):
        if isinstance(p, (ast.If, ast.While)):
            if child is p.test:
                yield p, "test"
            elif any(child is s for s in p.body):
                yield p, "body"
            elif any(child is s for s in p.orelse):
                yield p, "orelse"
        elif isinstance(p, ast.IfExp):
            yield p, "test" if child is p.test else ("body" if child is p.body else "orelse")
        if p is stop:
            return
        child = p


# ======================================================================================================================
# third layer (rules o-w of checks/c20.py): string templates, text tails, annotation alternatives, identity guards
# ======================================================================================================================

_PLACEHOLDER = re.compile(r"%(?:\([^)]*\))?[#0\- +]*\d*(?:\.\d+)?[sdrfia]")


def is_docstring(mod: Module, node: ast.AST) -> bool:
    """a string constant that is an expression statement of its own (docstring / bare string)"""
    return isinstance(mod.parent.get(id(node)), ast.Expr)


def templates(mod: Module, fn: ast.AST) -> Iterator[tuple[ast.AST, str, Optional[list[ast.expr]]]]:
    """(node, template text with every dynamic part written as %s, argument expressions or None when they are not
    known) for every piece of text a function builds from a constant: a plain constant, `const % args`, an f-string."""
    for n in own_nodes(fn, include_nested=True):
        if isinstance(n, ast.JoinedStr):
            text, args = "", []
            for v in n.values:
                if isinstance(v, ast.Constant):
                    text += str(v.value).replace("%", "%%")
                elif isinstance(v, ast.FormattedValue):
                    text += "%s"
                    args.append(v.value)
            yield n, text, args
        elif isinstance(n, ast.Constant) and isinstance(n.value, str) and not is_docstring(mod, n):
            par = mod.parent.get(id(n))
            if isinstance(par, (ast.JoinedStr, ast.FormattedValue)):
                continue
            if isinstance(par, ast.BinOp) and isinstance(par.op, ast.Mod) and par.left is n:
                r = par.right
                if isinstance(r, ast.Tuple):
                    yield par, n.value, list(r.elts)
                elif isinstance(r, ast.Dict):
                    yield par, n.value, [v for v in r.values if v is not None]
                else:
                    # a name bound to a tuple display: its elements, else the one value
                    ds = local_defs(fn).get(r.id, []) if isinstance(r, ast.Name) else []
                    if len(ds) == 1 and isinstance(ds[0][1], ast.Tuple):
                        yield par, n.value, list(ds[0][1].elts)
                    else:
                        yield par, n.value, [r]
            else:
                yield n, n.value, None if _PLACEHOLDER.search(n.value) else []


def placeholders(text: str) -> list[tuple[int, int]]:
    """spans of the %-conversions of a template"""
    return [m.span() for m in _PLACEHOLDER.finditer(text)]


def calls_name(nodes: Iterable[ast.AST], names: set[str]) -> bool:
    return any(isinstance(x, ast.Call) and ((isinstance(x.func, ast.Name) and x.func.id in names) or (isinstance(x.func, ast.Attribute) and x.func.attr in names))
               for x in nodes)


def callee_of(call: ast.Call, fn: ast.AST, mod: Module) -> Optional[tuple[ast.FunctionDef, bool]]:
    """(function, called as a bound method) for a call that can only run one function of the module: `self.m(..)` / `cls.m(..)`
    resolved from the class of fn upwards, or a module-level function called by its name (not shadowed by a local)"""
    f = call.func
    if isinstance(f, ast.Attribute) and isinstance(f.value, ast.Name) and f.value.id in ("self", "cls"):
        q = mod.qual_of(fn)
        cls = q.rsplit(".", 1)[0] if "." in q else None
        while cls and not isinstance(mod.defs.get(cls), ast.ClassDef):
            cls = cls.rsplit(".", 1)[0] if "." in cls else None
        if cls:
            r = ClassScope(mod, cls).resolve(f.attr)
            if r is not None:
                static = any(norm(d) == "staticmethod" for d in r[1].decorator_list)
                return r[1], not static
        return None
    if isinstance(f, ast.Name) and f.id not in local_defs(fn) and f.id not in _all_params(fn):
        d = mod.defs.get(f.id)
        if isinstance(d, (ast.FunctionDef, ast.AsyncFunctionDef)):
            return d, False  # type: ignore[return-value]
    return None


def text_tails(e: Optional[ast.AST], fn: ast.AST, mod: Module, depth: int = 5, env: Optional[dict] = None) -> Optional[list[str]]:
    """the constant texts a string-valued expression can END with (after its last dynamic part), or None when its end is
    run-time text.  Names are resolved through every plain binding of the function; a list is resolved to the elements
    it is displayed with and the arguments of the `.append(...)` calls on it; a call of a method of the same class (or of a
    function of the module) to the expressions it returns, a parameter of such a callee standing for the argument it was
    called with (`env`: parameter -> (argument, calling function, its env))."""
    if e is None or depth < 0:
        return None
    if isinstance(e, ast.Call):
        r = callee_of(e, fn, mod)
        if r is None:
            return None
        callee, bound = r
        if any(isinstance(x, (ast.Yield, ast.YieldFrom)) for x in own_nodes(callee)):
            return None
        rets = [x for x in own_nodes(callee) if isinstance(x, ast.Return)]
        if not rets or any(x.value is None for x in rets):
            return None
        inner = {}
        for p in _all_params(callee):
            a = argument_for(callee, e, p, bound)
            if a is not None:
                inner[p] = (a, fn, env)
        out = []
        for x in rets:
            t = text_tails(x.value, callee, mod, depth - 1, inner)
            if t is None:
                return None
            out += t
        return out
    if isinstance(e, ast.Constant) and isinstance(e.value, str):
        return [e.value]
    if isinstance(e, ast.BinOp) and isinstance(e.op, ast.Mod):
        ts = text_tails(e.left, fn, mod, depth, env)
        if ts is None:
            return None
        out = []
        for t in ts:
            sp = placeholders(t)
            rest = t[sp[-1][1]:] if sp else t
            if not rest.strip():
                # ends with a conversion (and white space): the end is whatever is formatted in last - followed where that is text
                # whose own end is known (a %s filled from a template, from a function of the module that returns templates)
                last = e.right.elts[-1] if isinstance(e.right, ast.Tuple) and e.right.elts else (None if isinstance(e.right, (ast.Tuple, ast.Dict)) else e.right)
                conv = t[sp[-1][0]:sp[-1][1]] if sp else ""
                inner_t = text_tails(last, fn, mod, depth - 1, env) if (last is not None and conv == "%s" and (len(sp) == 1 or isinstance(e.right, ast.Tuple))) else None
                if inner_t is None:
                    return None
                out += [a + rest for a in inner_t]
                continue
            out.append(rest)
        return out
    if isinstance(e, ast.BinOp) and isinstance(e.op, ast.Add):
        r = text_tails(e.right, fn, mod, depth, env)
        if r is not None and all(not t.strip() for t in r):
            l = text_tails(e.left, fn, mod, depth, env)
            return None if l is None else [a + b for a in l for b in r]
        return r
    if isinstance(e, ast.JoinedStr):
        if e.values and isinstance(e.values[-1], ast.Constant) and str(e.values[-1].value).strip():
            return [str(e.values[-1].value)]
        return None
    if isinstance(e, (ast.List, ast.Tuple)):
        out = []
        for x in e.elts:
            t = text_tails(x, fn, mod, depth, env)
            if t is None:
                return None
            out += t
        return out
    if isinstance(e, ast.Name):
        ds = local_defs(fn).get(e.id, [])
        if not ds:
            if env and e.id in env:  # a parameter of a callee that is being followed: what the caller passed
                a, cfn, cenv = env[e.id]
                return text_tails(a, cfn, mod, depth - 1, cenv)
            return None  # a parameter (or a global): run-time text
        out = []
        for _st, v in ds:
            t = text_tails(v, fn, mod, depth - 1, env)
            if t is None:
                return None
            out += t
        for n in own_nodes(fn):
            if isinstance(n, ast.Call) and isinstance(n.func, ast.Attribute) and n.func.attr in ("append", "extend", "insert") \
                    and isinstance(n.func.value, ast.Name) and n.func.value.id == e.id and n.args:
                t = text_tails(n.args[-1], fn, mod, depth - 1, env)
                if t is None:
                    return None
                out += t
        return out
    return None


def annotation_alternatives(ann: Optional[ast.AST]) -> list[str]:
    """the alternatives of a parameter annotation, by their last name component: Union[A, b.C] / A | C / Optional[A]
    (None is dropped); [] when there is no annotation or it is not a plain union of names"""
    if ann is None:
        return []
    if isinstance(ann, ast.Constant) and isinstance(ann.value, str):
        try:
            ann = ast.parse(ann.value, mode="eval").body
        except SyntaxError:
            return []
    if isinstance(ann, ast.BinOp) and isinstance(ann.op, ast.BitOr):
        return annotation_alternatives(ann.left) + annotation_alternatives(ann.right)
    if isinstance(ann, ast.Subscript):
        head = ann.value.attr if isinstance(ann.value, ast.Attribute) else getattr(ann.value, "id", "")
        if head in ("Union", "Optional"):
            elts = ann.slice.elts if isinstance(ann.slice, ast.Tuple) else [ann.slice]
            out: list[str] = []
            for x in elts:
                out += annotation_alternatives(x)
            return out
        return [head] if head else []
    if isinstance(ann, ast.Constant) and ann.value is None:
        return []
    if isinstance(ann, ast.Name):
        return [ann.id]
    if isinstance(ann, ast.Attribute):
        return [ann.attr]
    return []


def isinstance_test(test: ast.AST) -> Optional[tuple[str, list[str], bool]]:
    """(tested name, class names, polarity) of `isinstance(x, C)` / `isinstance(x, (C, D))` / `not isinstance(...)`"""
    pol = True
    while isinstance(test, ast.UnaryOp) and isinstance(test.op, ast.Not):
        test, pol = test.operand, not pol
    if isinstance(test, ast.Call) and isinstance(test.func, ast.Name) and test.func.id == "isinstance" and len(test.args) == 2 and isinstance(test.args[0], ast.Name):
        c = test.args[1]
        cs = list(c.elts) if isinstance(c, ast.Tuple) else [c]
        return test.args[0].id, [x.attr if isinstance(x, ast.Attribute) else getattr(x, "id", "?") for x in cs], pol
    return None


def under_type_checking(mod: Module, node: ast.AST, stop: ast.AST) -> bool:
    """inside `if TYPE_CHECKING:` (never executed)"""
    for cond, kind in branch_of(mod, node, stop):
        if isinstance(cond, ast.If) and kind == "body" and norm(cond.test) in ("TYPE_CHECKING", "typing.TYPE_CHECKING"):
            return True
    return False


def pattern_of_receiver(mod: Module, recv: ast.AST) -> Optional[tuple[str, int]]:
    """(pattern text, flags) of the compiled regular expression a receiver `NAME` / `self.NAME` / `Class.NAME` denotes"""
    nm = recv.id if isinstance(recv, ast.Name) else (recv.attr if isinstance(recv, ast.Attribute) else None)
    if nm is None:
        return None
    for q, _call, pat, flags in compiled_patterns(mod):
        if q.rsplit(".", 1)[-1] == nm:
            return pat, flags
    return None


def sample_search(pat: str, flags: int, text: str) -> bool:
    """does the (constant) regular expression find a match in the sample text?  The pattern is data read from the source;
    compiling it runs nothing of the analysed library."""
    try:
        return re.compile(pat, flags).search(text) is not None
    except re.error as e:
        raise AnalysisError("regular expression does not compile: %s (%s)" % (pat[:60], e)) from None


# ======================================================================================================================
# fourth part: anchors by ROLE instead of by private name (the call that reaches the connector, the attribute commit()
# sends, the method whose result the writers append to), entry points with the private helpers they reach (one obligation
# per entry point and site, however the code is split into helpers), and feasible paths under an assumption on the
# store's public switches
# ======================================================================================================================


def is_private(name: str) -> bool:
    """a name the class keeps to itself (single leading underscore or mangled), not a special method"""
    return name.startswith("_") and not (name.startswith("__") and name.endswith("__"))


def self_calls(fn: ast.AST) -> list[ast.Call]:
    """self.<name>(...) calls anywhere in fn (nested functions and lambdas included), in source order"""
    out = [n for n in own_nodes(fn, include_nested=True) if isinstance(n, ast.Call) and isinstance(n.func, ast.Attribute)
           and isinstance(n.func.value, ast.Name) and n.func.value.id == "self"]
    return sorted(out, key=lambda n: (n.lineno, n.col_offset))


def params_of(fn: ast.AST) -> list[str]:
    a = fn.args  # type: ignore[attr-defined]
    return [x.arg for x in a.posonlyargs + a.args]


def argument_for(fn: ast.AST, call: ast.Call, param: str, bound: bool = True) -> Optional[ast.expr]:
    """the expression a call passes for the parameter `param` of fn (`bound`: the call is `recv.m(..)`, so the first
    parameter is the receiver); None when it is not passed (default) or passed through * / **"""
    ps = params_of(fn)
    if param not in ps and param not in [x.arg for x in fn.args.kwonlyargs]:  # type: ignore[attr-defined]
        return None
    for k in call.keywords:
        if k.arg == param:
            return k.value
    if param not in ps:
        return None
    i = ps.index(param) - (1 if bound else 0)
    if i < 0 or i >= len(call.args) or any(isinstance(a, ast.Starred) for a in call.args[: i + 1]):
        return None
    return call.args[i]


def resolve_local(e: ast.AST, fn: ast.AST, depth: int = 4) -> ast.AST:
    """a local name that has exactly one plain binding in fn stands for the bound expression"""
    while depth > 0 and isinstance(e, ast.Name):
        ds = local_defs(fn).get(e.id, [])
        if len(ds) != 1 or ds[0][1] is None or e.id in _all_params(fn):
            break
        e = ds[0][1]
        depth -= 1
    return e


def _all_params(fn: ast.AST) -> set[str]:
    a = fn.args  # type: ignore[attr-defined]
    return {x.arg for x in a.posonlyargs + a.args + a.kwonlyargs + ([a.vararg] if a.vararg else []) + ([a.kwarg] if a.kwarg else [])}


class ClassScope:
    """The methods of one class of a module as seen from `self`: own methods first, then those of the base classes that are
    defined in the same module (by name, depth first).  `scopes()` lists, for every ENTRY POINT of the class (a method
    that is not a private helper called from another method), the entry point itself and every private helper it reaches
    through `self.<helper>(..)` calls, with the chain of calls that leads there - so that a rule states one obligation per
    (entry point, site) and the count does not depend on how the code is cut into helpers."""

    def __init__(self, mod: Module, cls: str):
        self.mod, self.cls = mod, cls
        self.lineage: list[str] = []

        def add(c: str) -> None:
            if c in self.lineage or not isinstance(mod.defs.get(c), ast.ClassDef):
                return
            self.lineage.append(c)
            for b in mod.defs[c].bases:  # type: ignore[attr-defined]
                if isinstance(b, ast.Name):
                    add(b.id)

        add(cls)
        self._methods = {c: mod.methods(c) for c in self.lineage}
        self.own = self._methods.get(cls, {})
        self._called: Optional[set[str]] = None

    def resolve(self, name: str) -> Optional[tuple[str, ast.FunctionDef]]:
        for c in self.lineage:
            f = self._methods[c].get(name)
            if f is not None:
                return c, f
        return None

    def owner_of(self, fn: ast.AST) -> Optional[str]:
        for c in self.lineage:
            if any(f is fn for f in self._methods[c].values()):
                return c
        return None

    def called_from_self(self) -> set[str]:
        """names called as self.<name>(..) from some method of some class of the module"""
        if self._called is None:
            self._called = set()
            for q, n in self.mod.defs.items():
                if isinstance(n, ast.ClassDef):
                    for f in self.mod.methods(q).values():
                        self._called |= {c.func.attr for c in self_calls(f)}  # type: ignore[attr-defined]
        return self._called

    def is_helper(self, name: str) -> bool:
        return is_private(name) and name in self.called_from_self()

    def reached_helpers(self, fn: ast.AST) -> list[tuple[str, str, ast.FunctionDef, list[tuple[ast.AST, ast.Call]]]]:
        """(class, name, function, chain of (caller, call)) of every private helper fn reaches through self-calls"""
        out: list[tuple[str, str, ast.FunctionDef, list[tuple[ast.AST, ast.Call]]]] = []
        seen = {id(fn)}
        work: list[tuple[ast.AST, list[tuple[ast.AST, ast.Call]]]] = [(fn, [])]
        while work:
            cur, chain = work.pop(0)
            for c in self_calls(cur):
                nm = c.func.attr  # type: ignore[attr-defined]
                if not is_private(nm):
                    continue
                r = self.resolve(nm)
                if r is None or id(r[1]) in seen:
                    continue
                seen.add(id(r[1]))
                ch = chain + [(cur, c)]
                out.append((r[0], nm, r[1], ch))
                work.append((r[1], ch))
        return out

    def scopes(self) -> Iterator[tuple[str, str, ast.FunctionDef, list[tuple[ast.AST, ast.Call]]]]:
        """(entry point, class that defines the function, function, chain) - the entry points of this class with the helpers
        they reach; a method that no entry point reaches is listed as an entry point of its own (nothing is skipped)"""
        covered: set[int] = set()
        rows = []
        for nm, f in self.own.items():
            if self.is_helper(nm):
                continue
            rows.append((nm, self.cls, f, []))
            covered.add(id(f))
            for hc, _hn, hf, ch in self.reached_helpers(f):
                rows.append((nm, hc, hf, ch))
                covered.add(id(hf))
        for nm, f in self.own.items():
            if id(f) not in covered:
                rows.append((nm, self.cls, f, []))
                for hc, _hn, hf, ch in self.reached_helpers(f):
                    if id(hf) not in covered:
                        rows.append((nm, hc, hf, ch))
        yield from rows


def via(chain: list[tuple[ast.AST, ast.Call]]) -> str:
    """' (in <helper>, reached through self.a() -> self.b())' for the detail text of an obligation met in a helper"""
    if not chain:
        return ""
    return " (reached through %s)" % " -> ".join("self.%s()" % c.func.attr for _f, c in chain)  # type: ignore[attr-defined]


def head_exprs(st: ast.AST) -> list[ast.AST]:
    """what a CFG node of the statement evaluates itself (the bodies of compound statements are nodes of their own)"""
    if isinstance(st, (ast.If, ast.While)):
        return [st.test]
    if isinstance(st, (ast.For, ast.AsyncFor)):
        return [st.iter]
    if isinstance(st, (ast.With, ast.AsyncWith)):
        return [i.context_expr for i in st.items]
    if isinstance(st, ast.Match):
        return [st.subject]
    if isinstance(st, (ast.FunctionDef, ast.AsyncFunctionDef, ast.ClassDef, ast.Try, ast.ExceptHandler)):
        return []
    return [st]


def unconditional_calls(st: ast.AST) -> Iterator[ast.Call]:
    """the calls that are evaluated whenever the statement (the head of a compound statement) is: not those in a branch of a
    conditional expression, behind `and` / `or`, in a lambda, or in the element / condition of a comprehension"""

    def visit(e: ast.AST) -> Iterator[ast.Call]:
        if isinstance(e, (ast.Lambda, ast.FunctionDef, ast.AsyncFunctionDef, ast.ClassDef)):
            return
        if isinstance(e, ast.IfExp):
            yield from visit(e.test)
            return
        if isinstance(e, ast.BoolOp):
            yield from visit(e.values[0])
            return
        if isinstance(e, (ast.ListComp, ast.SetComp, ast.GeneratorExp, ast.DictComp)):
            yield from visit(e.generators[0].iter)
            return
        if isinstance(e, ast.Call):
            yield e
        for c in ast.iter_child_nodes(e):
            yield from visit(c)

    for h in head_exprs(st):
        yield from visit(h)


def feasible_reach(g, src: int, avoid: Iterable[int], env: dict[str, Optional[bool]]) -> set[int]:
    """CFG nodes reachable from src on paths that avoid `avoid` and are FEASIBLE under the assumption `env` (truth of atoms by
    their normalised text, three-valued): the branch of a test that the assumption decides the other way is not taken"""
    from .cfg import eval3

    av = set(avoid)
    seen: set[int] = set()
    stack = [src]
    while stack:
        n = stack.pop()
        node = g.nodes[n]
        verdict = None
        if node.kind == "test" and node.ast is not None and hasattr(node.ast, "test"):
            verdict = eval3(node.ast.test, env)
        for m in g.succ[n]:
            lab = g.edge_label.get((n, m), "")
            if verdict is not None and lab != "exc" and (lab == "true") != verdict:
                continue
            if m in av or m in seen:
                continue
            seen.add(m)
            stack.append(m)
    return seen


class StoreRoles:
    """Who does what in the SPARQL store classes, found from the public names (the two classes, the connector class,
    commit / rollback) and the flow of values, not from the private names the work happens to be delegated to:

    * a call REACHES THE CONNECTOR's `query` / `update` when it calls that method of the connector class (by name of the
      class, through super() above SPARQLStore, or by its resolved type), or a private method of the store that does
      (a 'carrier', transitively);
    * the QUEUE is the attribute of self whose elements commit() joins and sends;
    * an ACCESSOR is a private method whose result a method appends to / extends (the way writers get at the queue)."""

    def __init__(self, repo, mod: Module, base_cls: str = "SPARQLStore", upd_cls: str = "SPARQLUpdateStore"):
        self.repo, self.mod, self.base_cls, self.upd_cls = repo, mod, base_cls, upd_cls
        self.scope_base = ClassScope(mod, base_cls)
        self.scope_upd = ClassScope(mod, upd_cls)
        self.base = self.scope_base.own
        self.upd = self.scope_upd.own
        self.connectors = imported_as(mod, "sparqlconnector", "SPARQLConnector") | {"SPARQLConnector"}
        self._carriers: dict[str, dict[str, ast.FunctionDef]] = {}
        self._queue: Optional[str] = None

    # -- the connector
    def is_primitive(self, call: ast.Call, meth: str, in_cls: Optional[str]) -> bool:
        f = call.func
        if not (isinstance(f, ast.Attribute) and f.attr == meth):
            return False
        recv = f.value
        if isinstance(recv, ast.Name) and recv.id in self.connectors:
            return True
        if isinstance(recv, ast.Call) and isinstance(recv.func, ast.Name) and recv.func.id == "super":
            if recv.args:
                return norm(recv.args[0]) == self.base_cls  # the class after SPARQLStore in the resolution order
            return in_cls == self.base_cls
        return any(c.endswith("sparqlconnector.SPARQLConnector." + meth) for c in self.repo.typed.callees(self.mod.name, call))

    def carriers(self, meth: str) -> dict[str, ast.FunctionDef]:
        """private methods (as seen from SPARQLUpdateStore) that reach the connector's `meth`, directly or through another"""
        if meth not in self._carriers:
            found: dict[str, ast.FunctionDef] = {}
            changed = True
            while changed:
                changed = False
                for c in self.scope_upd.lineage:
                    for nm, f in self.scope_upd._methods[c].items():
                        if nm in found or not is_private(nm) or self.scope_upd.resolve(nm)[1] is not f:  # type: ignore[index]
                            continue
                        if self._sites(f, c, meth, found):
                            found[nm] = f
                            changed = True
            self._carriers[meth] = found
        return self._carriers[meth]

    def _sites(self, fn: ast.AST, in_cls: Optional[str], meth: str, carriers: dict[str, ast.FunctionDef]) -> list[ast.Call]:
        out = []
        for n in own_nodes(fn, include_nested=True):
            if isinstance(n, ast.Call) and (self.is_primitive(n, meth, in_cls) or (
                    isinstance(n.func, ast.Attribute) and isinstance(n.func.value, ast.Name) and n.func.value.id == "self" and n.func.attr in carriers)):
                out.append(n)
        return sorted(out, key=lambda n: (n.lineno, n.col_offset))

    def sites(self, fn: ast.AST, in_cls: Optional[str], meth: str) -> list[ast.Call]:
        """the calls in fn that reach the connector's `meth` without going through a public method of the store"""
        return self._sites(fn, in_cls, meth, self.carriers(meth))

    def sent_text(self, call: ast.Call, meth: str = "update") -> Optional[ast.expr]:
        """the argument of a site that holds the text for the endpoint"""
        f = call.func
        if isinstance(f, ast.Attribute) and isinstance(f.value, ast.Name) and f.value.id == "self" and f.attr in self.carriers(meth):
            h = self.carriers(meth)[f.attr]
            inner = self._sites(h, self.scope_upd.owner_of(h), meth, self.carriers(meth))
            ps = [p for p in params_of(h)[1:]]
            for s in inner:
                t = self.sent_text(s, meth)
                if isinstance(t, ast.Name) and t.id in ps and not local_defs(h).get(t.id):
                    return argument_for(h, call, t.id)
            raise AnalysisError("%s: the private method that reaches the connector's %s() does not pass one of its parameters on as the text" % (f.attr, meth))
        if isinstance(f, ast.Attribute) and isinstance(f.value, ast.Name) and f.value.id in self.connectors:
            rest = call.args[1:]
        else:
            rest = call.args
        if rest:
            return rest[0]
        return next((k.value for k in call.keywords if k.arg in ("query", "update", "text")), None)

    # -- the queue
    def _self_attrs(self, e: ast.AST, fn: ast.AST) -> set[str]:
        """the attributes of self that e reads (not calls), local names standing for what they are bound to"""
        out: set[str] = set()
        called = {id(c.func) for c in ast.walk(e) if isinstance(c, ast.Call)}
        for x in ast.walk(e):
            y = resolve_local(x, fn) if isinstance(x, ast.Name) else x
            if isinstance(y, ast.Attribute) and isinstance(y.value, ast.Name) and y.value.id == "self" and id(y) not in called:
                out.add(norm(y))
        return out

    def commit_sends(self) -> list[tuple[ast.Call, Optional[ast.AST]]]:
        """(site in commit() that reaches the connector's update(), the expression that is sent - a local name that is bound
        once standing for what it is bound to)"""
        cm = self.upd.get("commit")
        if cm is None:
            raise AnalysisError("SPARQLUpdateStore.commit vanished")
        out = []
        for s in self.sites(cm, self.upd_cls, "update"):
            t = self.sent_text(s)
            out.append((s, resolve_local(t, cm) if t is not None else None))
        return out

    def queue(self) -> str:
        """normalised text of the QUEUE attribute: the attribute of self that commit() sends and rollback() re-binds (if one of
        the two is broken, what the other says)"""
        if self._queue is None:
            cm, rb = self.upd.get("commit"), self.upd.get("rollback")
            if cm is None or rb is None:
                raise AnalysisError("SPARQLUpdateStore.commit / rollback vanished")
            sent: set[str] = set()
            for _s, t in self.commit_sends():
                if t is not None:
                    sent |= self._self_attrs(t, cm)
            cleared = {norm(t) for n in own_nodes(rb) if isinstance(n, (ast.Assign, ast.AnnAssign, ast.AugAssign))
                       for t in (n.targets if isinstance(n, ast.Assign) else [n.target])
                       if isinstance(t, ast.Attribute) and isinstance(t.value, ast.Name) and t.value.id == "self"}
            cleared |= {norm(c.func.value) for c in own_nodes(rb) if isinstance(c, ast.Call) and isinstance(c.func, ast.Attribute) and c.func.attr == "clear"
                        and isinstance(c.func.value, ast.Attribute) and norm(c.func.value).startswith("self.")}
            read = {norm(n) for n in own_nodes(cm) if isinstance(n, ast.Attribute) and isinstance(n.value, ast.Name) and n.value.id == "self"}
            for cand in (sent & cleared, sent, cleared & read):
                if len(cand) == 1:
                    self._queue = next(iter(cand))
                    break
            else:
                raise AnalysisError("SPARQLUpdateStore: the attribute that holds the pending updates cannot be told from commit() (sends %s) and "
                                    "rollback() (re-binds %s)" % (sorted(sent), sorted(cleared)))
        return self._queue

    @property
    def qattr(self) -> str:
        return self.queue()

    def separator(self) -> Optional[str]:
        """the constant text commit() joins the pending updates with (None: not one visible constant)"""
        seps = set()
        for _s, t in self.commit_sends():
            if isinstance(t, ast.Call) and isinstance(t.func, ast.Attribute) and t.func.attr == "join":
                seps.add(StrEnv(self.mod, self.upd_cls).value(t.func.value))
        if len(seps) != 1:
            return None
        v = seps.pop()
        return v if isinstance(v, str) else None

    def accessor_of(self, e: ast.AST, fn: ast.AST) -> Optional[str]:
        """name of the private method when e is `self.<private method>()`, or a local bound to such a call only"""
        if isinstance(e, ast.Name):
            ds = local_defs(fn).get(e.id, [])
            if not ds or e.id in _all_params(fn) or any(v is None or isinstance(v, ast.Name) for _s, v in ds):
                return None
            names = {self.accessor_of(v, fn) for _s, v in ds}
            return names.pop() if len(names) == 1 else None
        if isinstance(e, ast.Call) and not e.args and not e.keywords and isinstance(e.func, ast.Attribute) and isinstance(e.func.value, ast.Name) \
                and e.func.value.id == "self" and is_private(e.func.attr) and self.scope_upd.resolve(e.func.attr) is not None:
            return e.func.attr
        return None

    def accessors(self) -> dict[str, ast.FunctionDef]:
        """the private methods whose result some method of SPARQLUpdateStore appends to / extends"""
        out: dict[str, ast.FunctionDef] = {}
        for f in self.upd.values():
            for n in own_nodes(f, include_nested=True):
                recv = None
                if isinstance(n, ast.Call) and isinstance(n.func, ast.Attribute) and n.func.attr in ("append", "extend", "insert"):
                    recv = n.func.value
                elif isinstance(n, ast.AugAssign) and isinstance(n.op, ast.Add):
                    recv = n.target
                nm = self.accessor_of(recv, f) if recv is not None else None
                if nm is not None:
                    out[nm] = self.scope_upd.resolve(nm)[1]  # type: ignore[index]
        return out

    def is_queue(self, e: ast.AST, fn: ast.AST) -> bool:
        """does e denote the live queue: `self.<accessor>()`, the queue attribute itself, or a local bound to one of them only"""
        if self.accessor_of(e, fn) in self.accessors() and self.accessor_of(e, fn) is not None:
            return True
        if isinstance(e, ast.Attribute) and norm(e) == self.qattr:
            return True
        if isinstance(e, ast.Name) and e.id not in _all_params(fn):
            ds = local_defs(fn).get(e.id, [])
            return bool(ds) and all(v is not None and not isinstance(v, ast.Name) and self.is_queue(v, fn) for _s, v in ds)
        return False

    def enqueues(self, fn: ast.AST) -> list[ast.AST]:
        """the statements / calls of fn that add to the queue: <queue>.append(..) / .extend(..), <queue> += .."""
        out: list[ast.AST] = []
        for n in own_nodes(fn):
            if isinstance(n, ast.Call) and isinstance(n.func, ast.Attribute) and n.func.attr in ("append", "extend") and self.is_queue(n.func.value, fn):
                out.append(n)
            elif isinstance(n, ast.AugAssign) and isinstance(n.op, ast.Add) and self.is_queue(n.target, fn):
                out.append(n)
        return sorted(out, key=lambda n: (n.lineno, n.col_offset))


# ======================================================================================================================
# fifth part: values that cross a function boundary of the PACKAGE.  A method of the store may keep only the step that
# needs `self` and hand the text - and the compiled regular expressions it reads from self - to a function of the same
# or of another (private) module of the package.  A `Frame` is a function in one calling context; a regular expression
# is then whatever the receiver of `.search/.sub/..` evaluates to: a module / class constant, a local bound to one, a
# parameter (-> the argument of the call the frame was entered through, evaluated in the caller's frame; else the
# default), `p.NAME` where p is a parameter (-> `<argument>.NAME` in the caller), a name imported from a module of the
# package.  Nothing here knows a name of the analysed library.
# ======================================================================================================================

REGEX_METHODS = ("search", "match", "fullmatch", "finditer", "findall", "sub", "subn", "split")


def _abs_import(mod: Module, node: ast.ImportFrom) -> str:
    if not node.level:
        return node.module or ""
    parts = mod.name.split(".")
    if not mod.rel.endswith("__init__.py"):
        parts = parts[:-1]
    if node.level > 1:
        parts = parts[: len(parts) - (node.level - 1)]
    return ".".join(parts + ([node.module] if node.module else []))


def _has_module(repo, name: str) -> bool:
    return bool(name) and any(n == name for n in repo.modules)  # (iterating does not build the modules of a view)


def imported_module(repo, mod: Module, e: ast.AST) -> Optional[Module]:
    """the module of the package an expression denotes: a name bound by `from . import m [as a]` / `import a.b.m as a`,
    or the dotted path of a plain `import a.b.m`"""
    dotted = norm(e) if isinstance(e, (ast.Name, ast.Attribute)) else None
    if dotted is None:
        return None
    for n in ast.walk(mod.tree):
        if isinstance(n, ast.ImportFrom) and isinstance(e, ast.Name):
            base = _abs_import(mod, n)
            for a in n.names:
                if (a.asname or a.name) == e.id and _has_module(repo, (base + "." if base else "") + a.name):
                    return repo.modules[(base + "." if base else "") + a.name]
        elif isinstance(n, ast.Import):
            for a in n.names:
                if a.asname and isinstance(e, ast.Name) and a.asname == e.id and _has_module(repo, a.name):
                    return repo.modules[a.name]
                if not a.asname and a.name == dotted and _has_module(repo, a.name):
                    return repo.modules[a.name]
    return None


def imported_object(repo, mod: Module, name: str, depth: int = 3) -> Optional[tuple[Module, ast.AST]]:
    """(module of the package, its top-level def or the value expression of its top-level assignment) for a name the
    module imports with `from <module of the package> import X [as name]`; re-exports are followed"""
    if depth <= 0:
        return None
    for n in ast.walk(mod.tree):
        if not isinstance(n, ast.ImportFrom):
            continue
        for a in n.names:
            if (a.asname or a.name) != name:
                continue
            src = _abs_import(mod, n)
            if not _has_module(repo, src):
                continue
            m2 = repo.modules[src]
            d = m2.defs.get(a.name)
            if d is not None:
                return m2, d
            v = StrEnv._assigns(m2.tree.body).get(a.name)
            if v is not None:
                return m2, v
            r = imported_object(repo, m2, a.name, depth - 1)
            if r is not None:
                return r
    return None


def class_of(mod: Module, fn: ast.AST) -> Optional[str]:
    """the class whose body holds fn (a method), else None"""
    p = mod.parent.get(id(fn))
    return mod.scope.get(id(p)) if isinstance(p, ast.ClassDef) else None


class Frame:
    """a function of the package in one calling context: entered through `call` from the frame `parent` (both None for
    the function an analysis starts in); `bound`: the call is `recv.m(..)`, the first parameter is the receiver"""

    __slots__ = ("mod", "fn", "call", "parent", "bound")

    def __init__(self, mod: Module, fn: ast.AST, call: Optional[ast.Call] = None, parent: Optional["Frame"] = None, bound: bool = False):
        self.mod, self.fn, self.call, self.parent, self.bound = mod, fn, call, parent, bound

    def depth(self) -> int:
        return 0 if self.parent is None else 1 + self.parent.depth()

    def active(self, fn: ast.AST) -> bool:
        return self.fn is fn or (self.parent is not None and self.parent.active(fn))

    def chain(self) -> str:
        return self.mod.qual_of(self.fn) if self.parent is None else "%s -> %s" % (self.parent.chain(), self.mod.qual_of(self.fn))

    def is_param(self, name: str) -> bool:
        """a parameter that still holds what the caller passed (never re-bound in the body)"""
        return name in _all_params(self.fn) and name not in local_defs(self.fn)

    def argument(self, name: str) -> Optional[ast.expr]:
        if self.call is None or self.parent is None:
            return None
        return argument_for(self.fn, self.call, name, self.bound)

    def default(self, name: str) -> Optional[ast.expr]:
        a = self.fn.args  # type: ignore[attr-defined]
        pos = a.posonlyargs + a.args
        for p, d in zip(pos[len(pos) - len(a.defaults):], a.defaults):
            if p.arg == name:
                return d
        for p, d in zip(a.kwonlyargs, a.kw_defaults):
            if p.arg == name:
                return d
        return None


class PackageFlow:
    """calls and regular expressions followed across the functions of the package (see the head of this part)"""

    MAX_DEPTH = 6

    def __init__(self, repo, home: Module):
        self.repo, self.home = repo, home

    # -- calls
    def enter(self, call: ast.Call, fr: Frame) -> Optional[Frame]:
        """the frame a call opens, when it can only run one function of the package: a method of the same class through
        self / cls, a function of the module, a function imported from - or called through - another module of the package"""
        if fr.depth() >= self.MAX_DEPTH:
            return None
        host = self._host(fr, call)
        r = callee_of(call, host, fr.mod)
        tgt: Optional[tuple[Module, ast.AST, bool]] = (fr.mod, r[0], r[1]) if r is not None else None
        f = call.func
        shadow = set(local_defs(host)) | _all_params(host)
        if tgt is None and isinstance(f, ast.Name) and f.id not in shadow:
            o = imported_object(self.repo, fr.mod, f.id)
            if o is not None and isinstance(o[1], (ast.FunctionDef, ast.AsyncFunctionDef)):
                tgt = (o[0], o[1], False)
        if tgt is None and isinstance(f, ast.Attribute):
            root = f.value
            while isinstance(root, ast.Attribute):
                root = root.value
            if isinstance(root, ast.Name) and root.id not in shadow:
                m2 = imported_module(self.repo, fr.mod, f.value)
                d = m2.defs.get(f.attr) if m2 is not None else None
                if m2 is not None and d is None:
                    o = imported_object(self.repo, m2, f.attr)
                    if o is not None:
                        m2, d = o
                if m2 is not None and isinstance(d, (ast.FunctionDef, ast.AsyncFunctionDef)):
                    tgt = (m2, d, False)
        if tgt is None or fr.active(tgt[1]):
            return None
        if any(norm(d_) in ("property", "functools.cached_property", "cached_property") for d_ in tgt[1].decorator_list):  # type: ignore[attr-defined]
            return None
        return Frame(tgt[0], tgt[1], call, fr, tgt[2])

    @staticmethod
    def _host(fr: Frame, node: ast.AST) -> ast.AST:
        """the def of the frame (a lambda / nested def inside it reads the names of the def)"""
        return fr.fn

    # -- regular expressions
    def _named_pattern(self, mod: Module, cls: Optional[str], e: ast.AST) -> Optional[tuple[str, int]]:
        if mod is self.home:
            return pattern_of_receiver(mod, e)
        nm = e.id if isinstance(e, ast.Name) else (e.attr if isinstance(e, ast.Attribute) else None)
        if nm is None:
            return None
        scopes: list[tuple[Optional[str], list[ast.stmt]]] = [(None, mod.tree.body)] + [(q, n.body) for q, n in mod.defs.items() if isinstance(n, ast.ClassDef)]
        for c, body in scopes:
            v = StrEnv._assigns(body).get(nm)
            if v is not None and is_re_compile(v):
                return self._compiled(mod, c, v)  # type: ignore[arg-type]
        return None

    @staticmethod
    def _compiled(mod: Module, cls: Optional[str], call: ast.Call) -> tuple[str, int]:
        pat = StrEnv(mod, cls).value(call.args[0])
        if not isinstance(pat, (str, bytes)):
            raise AnalysisError("%s: pattern of re.compile is not a foldable constant (%s)" % (mod.rel, norm(call.args[0])[:60]))
        return (pat if isinstance(pat, str) else pat.decode("latin-1")), re_flags(call)

    def pattern(self, e: ast.AST, fr: Frame, depth: int = 8) -> Optional[tuple[str, int]]:
        """(pattern text, flags) of the compiled regular expression `e` evaluates to in the frame, None when not known"""
        if depth <= 0:
            return None
        e = resolve_local(e, fr.fn)
        cls = class_of(fr.mod, fr.fn)
        if is_re_compile(e):
            return self._compiled(fr.mod, cls, e)  # type: ignore[arg-type]
        if isinstance(e, ast.Name) and fr.is_param(e.id):
            a = fr.argument(e.id)
            if a is not None and fr.parent is not None:
                return self.pattern(a, fr.parent, depth - 1)
            # not passed by the call the frame was entered through: the default (a frame nobody entered has unknown callers)
            spread = fr.call is None or any(isinstance(x, ast.Starred) for x in fr.call.args) or any(k.arg is None for k in fr.call.keywords)
            d = None if spread else fr.default(e.id)
            if d is not None and not (isinstance(d, ast.Constant) and d.value is None):
                return self._static(d, fr.mod, None)
            return None
        if isinstance(e, ast.Attribute) and isinstance(e.value, ast.Name) and fr.is_param(e.value.id) and fr.parent is not None:
            a = fr.argument(e.value.id)
            if a is None and fr.bound and params_of(fr.fn)[:1] == [e.value.id] and isinstance(fr.call.func, ast.Attribute):  # type: ignore[union-attr]
                a = fr.call.func.value  # type: ignore[union-attr]  # the receiver of the call
            if a is not None:
                return self.pattern(ast.copy_location(ast.Attribute(value=a, attr=e.attr, ctx=ast.Load()), e), fr.parent, depth - 1)
        return self._static(e, fr.mod, cls)

    def _static(self, e: ast.AST, mod: Module, cls: Optional[str]) -> Optional[tuple[str, int]]:
        if is_re_compile(e):
            return self._compiled(mod, cls, e)  # type: ignore[arg-type]
        p = self._named_pattern(mod, cls, e)
        if p is not None:
            return p
        if isinstance(e, ast.Name):
            o = imported_object(self.repo, mod, e.id)
            if o is not None and is_re_compile(o[1]):
                return self._compiled(o[0], None, o[1])  # type: ignore[arg-type]
        if isinstance(e, ast.Attribute):
            m2 = imported_module(self.repo, mod, e.value)
            if m2 is not None:
                return self._named_pattern(m2, None, ast.Name(id=e.attr, ctx=ast.Load()))
        return None

    def regex_use(self, call: ast.AST, fr: Frame) -> Optional[tuple[str, int, Optional[ast.expr]]]:
        """(pattern, flags, the text it is applied to) when the call applies a regular expression whose text is known:
        `<compiled>.search(text, ..)` / `.sub(repl, text)` or the function form `re.search(pattern, text)` / `re.sub(pattern, repl, text)`"""
        if not (isinstance(call, ast.Call) and isinstance(call.func, ast.Attribute) and call.func.attr in REGEX_METHODS):
            return None
        recv, attr = call.func.value, call.func.attr
        kw = {k.arg: k.value for k in call.keywords if k.arg}
        shift = 1 if attr in ("sub", "subn") else 0
        if isinstance(recv, ast.Name) and recv.id == "re" and "re" not in local_defs(fr.fn) and "re" not in _all_params(fr.fn):
            pe = call.args[0] if call.args else kw.get("pattern")
            if pe is None:
                return None
            pv = StrEnv(fr.mod, class_of(fr.mod, fr.fn)).value(resolve_local(pe, fr.fn))  # type: ignore[arg-type]
            p = (pv, 0) if isinstance(pv, str) else self.pattern(pe, fr)
            if p is None:
                return None
            fl = kw.get("flags")
            flags = p[1]
            if fl is not None:
                flags |= re_flags(ast.Call(func=ast.Name(id="re"), args=[pe, fl], keywords=[]))
            subject = call.args[1 + shift] if len(call.args) > 1 + shift else kw.get("string")
            return p[0], flags, subject
        p = self.pattern(recv, fr)
        if p is None:
            return None
        subject = call.args[shift] if len(call.args) > shift else kw.get("string")
        return p[0], p[1], subject

    # -- where a text comes from
    def slice_calls(self, e: ast.AST, fr: Frame, _seen: Optional[set[int]] = None) -> Iterator[tuple[ast.Call, Frame]]:
        """every call the value of `e` is computed from, with the frame it is made in: the backward slice of e in the
        function of the frame, continued - where it reads a parameter - in the caller's frame at the argument passed"""
        seen = _seen if _seen is not None else set()
        for x in backward_slice(e, fr.fn, fr.mod):
            if id(x) in seen:
                continue
            seen.add(id(x))
            if isinstance(x, ast.Call):
                host = next((p for p in fr.mod.parents(x) if isinstance(p, (ast.FunctionDef, ast.AsyncFunctionDef))), None)
                yield x, (fr if host is fr.fn or host is None else Frame(fr.mod, host))
            elif isinstance(x, ast.Name) and isinstance(x.ctx, ast.Load) and fr.parent is not None and x.id in _all_params(fr.fn):
                a = fr.argument(x.id)
                if a is not None:
                    yield from self.slice_calls(a, fr.parent, seen)

    def root_names(self, e: ast.AST, fr: Frame, _seen: Optional[set[int]] = None) -> Iterator[tuple[ast.Name, Frame]]:
        """the names read in the function an analysis started in (the frame without a caller) that the value of `e` in the
        frame `fr` is computed from: the backward slice of e, continued through the parameters of every frame at the
        arguments passed; (name node, its frame)"""
        seen = _seen if _seen is not None else set()
        for x in backward_slice(e, fr.fn, fr.mod):
            if id(x) in seen or not (isinstance(x, ast.Name) and isinstance(x.ctx, ast.Load)):
                continue
            seen.add(id(x))
            if fr.parent is None:
                yield x, fr
            elif x.id in _all_params(fr.fn):
                a = fr.argument(x.id)
                if a is not None:
                    yield from self.root_names(a, fr.parent, seen)

    def reached(self, fr: Frame, skip: Iterable[ast.AST] = ()) -> Iterator[Frame]:
        """the frame and every frame the calls in it open (transitively), except into the functions of `skip`"""
        skip_ids = {id(s) for s in skip}
        yield fr
        for x in own_nodes(fr.fn, include_nested=True):
            if isinstance(x, ast.Call):
                ch = self.enter(x, fr)
                if ch is not None and id(ch.fn) not in skip_ids:
                    yield from self.reached(ch, skip)


# ======================================================================================================================
# path conditions (round 3): "this statement is not reached when <fact> holds", decided from what every test on the way says
# ======================================================================================================================

def path_conditions(mod: Module, node: ast.AST, fn: ast.AST) -> list[tuple[ast.expr, bool]]:
    """(test, value the test has) for every test that is decided on every way from the entry of `fn` to `node`, read off the
    block structure: an enclosing if / while / conditional expression (body: holds, orelse: does not), and every earlier
    statement of an enclosing block that is an `if` one arm of which always leaves (the other arm's condition holds after
    it).  Guard clauses, else branches, elif chains (and `match` arms once a view wrote them as elif) are the same here."""
    out: list[tuple[ast.expr, bool]] = []
    child = node
    for p in mod.parents(node):
        if isinstance(p, (ast.If, ast.While)):
            if any(child is s for s in p.body):
                out.append((p.test, True))
            elif isinstance(p, ast.If) and any(child is s for s in p.orelse):
                out.append((p.test, False))
        elif isinstance(p, ast.IfExp):
            if child is p.body:
                out.append((p.test, True))
            elif child is p.orelse:
                out.append((p.test, False))
        for fld in ("body", "orelse", "finalbody"):
            blk = getattr(p, fld, None)
            if isinstance(blk, list) and any(child is s for s in blk):
                for s in blk:
                    if s is child:
                        break
                    if isinstance(s, ast.If):
                        leaves_b = bool(s.body) and isinstance(s.body[-1], (ast.Return, ast.Raise, ast.Continue, ast.Break))
                        leaves_e = bool(s.orelse) and isinstance(s.orelse[-1], (ast.Return, ast.Raise, ast.Continue, ast.Break))
                        if leaves_b and not leaves_e:
                            out.append((s.test, False))
                        elif leaves_e and not leaves_b:
                            out.append((s.test, True))
        if p is fn:
            break
        child = p
    return out


def excluded_on_path(conds: list[tuple[ast.expr, bool]], fact: Callable[[ast.expr], "bool | None"], fn: ast.AST) -> bool:
    """can the conjunction of `conds` not hold together with the fact?  `fact(e)` says whether the atomic test e IS the fact
    (True), its negation (False) or something else (None).  and / or / not are evaluated; every other test is an atom that is
    the same atom wherever its text is the same and nothing it mentions is re-bound in `fn` (otherwise each occurrence is an
    atom of its own, free).  All assignments of the atoms are tried with the fact true: excluded only if none satisfies the
    path.  Atoms are left free, so this can only err towards 'not excluded'."""
    rebound = {n.id for n in ast.walk(fn) if isinstance(n, ast.Name) and isinstance(n.ctx, (ast.Store, ast.Del))}
    atoms: dict[object, int] = {}

    def build(e: ast.expr) -> Callable[[tuple[bool, ...]], bool]:
        if isinstance(e, ast.UnaryOp) and isinstance(e.op, ast.Not):
            inner = build(e.operand)
            return lambda a: not inner(a)
        if isinstance(e, ast.BoolOp):
            parts = [build(v) for v in e.values]
            if isinstance(e.op, ast.And):
                return lambda a: all(p(a) for p in parts)
            return lambda a: any(p(a) for p in parts)
        if isinstance(e, ast.NamedExpr):
            return build(e.value)
        pol = fact(e)
        if pol is not None:
            return (lambda a: True) if pol else (lambda a: False)
        key: object = norm(e)
        if any(isinstance(x, ast.Name) and x.id in rebound for x in ast.walk(e)) or any(isinstance(x, (ast.Call, ast.Await, ast.Yield)) and not (
                isinstance(x.func, ast.Name) and x.func.id in ("isinstance", "issubclass", "callable", "len", "type")) for x in ast.walk(e) if isinstance(x, ast.Call)):
            key = id(e)
        i = atoms.setdefault(key, len(atoms))
        return lambda a: a[i]

    fs = [(build(t), v) for t, v in conds]
    if len(atoms) > 14:
        return False
    import itertools
    for a in itertools.product((False, True), repeat=len(atoms)):
        if all(f(a) == v for f, v in fs):
            return False
    return True


def wrapping_closures(mod: Module, f: ast.AST) -> list[tuple[ast.FunctionDef, str]]:
    """[(closure, name under which the closure knows the decorated function)] for a method all of whose decorators are plain
    functions of the module of the form `def D(r): [@wraps(r)] def W(self, ..): ...; return W` - the method the class ends up
    with is W (outermost first), and a call `r(..)` in W runs the decorated body.  The closure must call its receiver by the
    name the method does (its first parameter), so that what it does with `self` reads the same.  Anything else: [] (the
    method is judged on its own body, as it is written)."""
    decs = list(getattr(f, "decorator_list", []))
    args = getattr(f, "args", None)
    if not decs or args is None or not (args.posonlyargs + args.args):
        return []
    recv = (args.posonlyargs + args.args)[0].arg
    out: list[tuple[ast.FunctionDef, str]] = []
    for d in decs:
        dd = mod.defs.get(d.id) if isinstance(d, ast.Name) else None
        if not isinstance(dd, ast.FunctionDef) or dd.decorator_list:
            return []
        ps = dd.args.posonlyargs + dd.args.args
        if len(ps) != 1 or dd.args.vararg or dd.args.kwarg or dd.args.kwonlyargs:
            return []
        r = ps[0].arg
        body = [st for st in dd.body if not (isinstance(st, ast.Expr) and isinstance(st.value, ast.Constant))]
        if not (len(body) == 2 and isinstance(body[0], ast.FunctionDef) and isinstance(body[1], ast.Return) and isinstance(body[1].value, ast.Name)
                and body[1].value.id == body[0].name):
            return []
        w = body[0]
        for wd in w.decorator_list:
            if not (isinstance(wd, ast.Call) and norm(wd.func).split(".")[-1] == "wraps" and len(wd.args) == 1 and isinstance(wd.args[0], ast.Name) and wd.args[0].id == r):
                return []
        wps = w.args.posonlyargs + w.args.args
        if not wps or wps[0].arg != recv or any(isinstance(n, ast.Name) and n.id == r and isinstance(n.ctx, (ast.Store, ast.Del)) for n in ast.walk(w)):
            return []
        out.append((w, r))
    return out
