"""Helpers of checks/c07.py (later rules): syntactic path conditions, one-step def-use of local names,
constant folding of module-level string expressions.  Pure `ast`; nothing of the analysed tree is executed."""
from __future__ import annotations

import ast
from typing import Iterator, Optional

from .core import Module, Repo, norm, own_nodes


# --------------------------------------------------------------------------- path conditions


def path_conds(mod: Module, fn: ast.AST, node: ast.AST) -> list[tuple[ast.expr, bool]]:
    """(test, polarity) of every `if` statement between fn and node, outermost first: polarity True when node sits in the
    body, False when it sits in the orelse (so an `elif` arm carries the negated tests of the arms before it)."""
    out: list[tuple[ast.expr, bool]] = []
    child = node
    for p in mod.parents(node):
        if isinstance(p, ast.If):
            if any(child is s for s in p.body):
                out.append((p.test, True))
            elif any(child is s for s in p.orelse):
                out.append((p.test, False))
        if p is fn:
            break
        child = p
    out.reverse()
    return out


def atoms(conds: list[tuple[ast.expr, bool]]) -> list[tuple[ast.expr, bool]]:
    """flatten a conjunction of (test, polarity) into atoms: `a and b` held true gives a, b; `a or b` held false gives
    not a, not b; `not x` flips."""
    out: list[tuple[ast.expr, bool]] = []

    def add(e: ast.expr, pol: bool) -> None:
        if isinstance(e, ast.UnaryOp) and isinstance(e.op, ast.Not):
            add(e.operand, not pol)
        elif isinstance(e, ast.BoolOp) and ((isinstance(e.op, ast.And) and pol) or (isinstance(e.op, ast.Or) and not pol)):
            for v in e.values:
                add(v, pol)
        else:
            out.append((e, pol))

    for e, pol in conds:
        add(e, pol)
    return out


def always_leaves(stmts: list[ast.stmt]) -> bool:
    """every path through the statement list ends in return / raise / continue / break"""
    if not stmts:
        return False
    last = stmts[-1]
    if isinstance(last, (ast.Return, ast.Raise, ast.Continue, ast.Break)):
        return True
    if isinstance(last, ast.If):
        return always_leaves(last.body) and always_leaves(last.orelse)
    return False


def earlier_siblings(mod: Module, fn: ast.AST, node: ast.AST) -> Iterator[ast.stmt]:
    """statements that come before `node` in a statement list enclosing it (at every nesting level up to fn): what has
    been executed, or left through, before control reaches node (no loops assumed by the callers)"""
    child = node
    for p in mod.parents(node):
        for field in ("body", "orelse", "finalbody"):
            lst = getattr(p, field, None)
            if isinstance(lst, list) and any(child is s for s in lst):
                for s in lst:
                    if s is child:
                        break
                    yield s
        if p is fn:
            break
        child = p


# --------------------------------------------------------------------------- def-use of locals


class Defs:
    """bindings of the local names of one function: name -> list of value expressions (None = not a plain binding:
    augmented assignment, loop / with / except target, unpacking of a non-tuple)"""

    def __init__(self, fn: ast.AST):
        self.fn = fn
        self.params: set[str] = set()
        a = fn.args  # type: ignore[attr-defined]
        for x in a.posonlyargs + a.args + a.kwonlyargs + ([a.vararg] if a.vararg else []) + ([a.kwarg] if a.kwarg else []):
            self.params.add(x.arg)
        self.defs: dict[str, list[Optional[ast.expr]]] = {}
        self.aug: dict[str, list[ast.AugAssign]] = {}
        for n in own_nodes(fn):
            if isinstance(n, ast.Assign):
                for t in n.targets:
                    self._bind(t, n.value)
            elif isinstance(n, ast.AnnAssign) and n.value is not None:
                self._bind(n.target, n.value)
            elif isinstance(n, ast.AugAssign):
                self._bind(n.target, None)
                if isinstance(n.target, ast.Name):
                    self.aug.setdefault(n.target.id, []).append(n)
            elif isinstance(n, (ast.For, ast.AsyncFor)):
                self._bind(n.target, None)
            elif isinstance(n, ast.NamedExpr):
                self._bind(n.target, n.value)
            elif isinstance(n, (ast.With, ast.AsyncWith)):
                for it in n.items:
                    if it.optional_vars is not None:
                        self._bind(it.optional_vars, None)

    def _bind(self, t: ast.AST, v: Optional[ast.expr]) -> None:
        if isinstance(t, ast.Name):
            self.defs.setdefault(t.id, []).append(v)
        elif isinstance(t, (ast.Tuple, ast.List)):
            if isinstance(v, (ast.Tuple, ast.List)) and len(v.elts) == len(t.elts) and not any(isinstance(e, ast.Starred) for e in list(t.elts) + list(v.elts)):
                for ti, vi in zip(t.elts, v.elts):
                    self._bind(ti, vi)
            else:
                for x in ast.walk(t):
                    if isinstance(x, ast.Name):
                        self.defs.setdefault(x.id, []).append(None)

    def values(self, name: str) -> list[Optional[ast.expr]]:
        return self.defs.get(name, [])

    def resolve(self, e: ast.expr) -> ast.expr:
        """follow a local name that has exactly one plain binding (and is not a parameter) to the bound expression"""
        for _ in range(8):
            if isinstance(e, ast.Name) and e.id not in self.params:
                v = self.defs.get(e.id, [])
                if len(v) == 1 and v[0] is not None:
                    e = v[0]
                    continue
            break
        return e

    def expand(self, e: ast.expr) -> str:
        """normalised text of e with every singly-bound local name replaced by its definition (recursively): a text that
        does not change when locals are renamed or an expression is given a name"""
        d = self

        class T(ast.NodeTransformer):
            depth = 0

            def visit_Name(self, n: ast.Name):  # noqa: N802
                if isinstance(n.ctx, ast.Load) and n.id not in d.params and self.depth < 8:
                    v = d.defs.get(n.id, [])
                    if len(v) == 1 and v[0] is not None:
                        self.depth += 1
                        import copy

                        r = self.visit(copy.deepcopy(v[0]))
                        self.depth -= 1
                        return r
                return n

        import copy

        return norm(T().visit(copy.deepcopy(e)))


def mentions_attr(e: ast.AST, who: str, attrs: tuple[str, ...]) -> bool:
    """e reads <who>.<attr> for one of attrs"""
    for x in ast.walk(e):
        if isinstance(x, ast.Attribute) and x.attr in attrs and isinstance(x.value, ast.Name) and x.value.id == who:
            return True
    return False


# --------------------------------------------------------------------------- constant folding (module level)


def module_assigns(mod: Module) -> dict[str, list[ast.expr]]:
    """module-level `NAME = expr` / `NAME: T = expr` bindings, also those under a top-level if/else/try"""
    out: dict[str, list[ast.expr]] = {}

    def scan(stmts: list[ast.stmt]) -> None:
        for st in stmts:
            if isinstance(st, ast.Assign):
                for t in st.targets:
                    if isinstance(t, ast.Name):
                        out.setdefault(t.id, []).append(st.value)
            elif isinstance(st, ast.AnnAssign) and st.value is not None and isinstance(st.target, ast.Name):
                out.setdefault(st.target.id, []).append(st.value)
            elif isinstance(st, ast.If):
                scan(st.body)
                scan(st.orelse)
            elif isinstance(st, ast.Try):
                scan(st.body)
                for h in st.handlers:
                    scan(h.body)
                scan(st.orelse)

    scan(mod.tree.body)
    return out


def imported_from(repo: Repo, mod: Module, name: str) -> Optional[tuple[Module, str]]:
    """(module, original name) when `name` is bound in mod by `from X import orig as name` and X is a module of the package"""
    for st in ast.walk(mod.tree):
        if isinstance(st, ast.ImportFrom):
            for a in st.names:
                if (a.asname or a.name) == name:
                    if st.level:
                        base = mod.name.split(".")
                        if not mod.rel.endswith("__init__.py"):
                            base = base[:-1]
                        base = base[: len(base) - (st.level - 1)]
                        target = ".".join(base + ([st.module] if st.module else []))
                    else:
                        target = st.module or ""
                    m = repo.modules.get(target)
                    if m is not None:
                        return m, a.name
    return None


def fold_str(repo: Repo, mod: Module, e: ast.AST, wrappers: tuple[str, ...] = ("URIRef", "str"), depth: int = 0) -> Optional[str]:
    """value of a constant string expression built from literals, `+`, f-strings, module-level names (followed through
    `from ... import`) and the transparent wrappers (URIRef(x) is the string x); None when it is not such an expression"""
    if depth > 12:
        return None
    if isinstance(e, ast.Constant):
        return e.value if isinstance(e.value, str) else None
    if isinstance(e, ast.BinOp) and isinstance(e.op, ast.Add):
        l = fold_str(repo, mod, e.left, wrappers, depth + 1)
        r = fold_str(repo, mod, e.right, wrappers, depth + 1)
        return l + r if l is not None and r is not None else None
    if isinstance(e, ast.JoinedStr):
        parts = []
        for v in e.values:
            if isinstance(v, ast.FormattedValue):
                if v.format_spec is not None or v.conversion != -1:
                    return None
                s = fold_str(repo, mod, v.value, wrappers, depth + 1)
            else:
                s = fold_str(repo, mod, v, wrappers, depth + 1)
            if s is None:
                return None
            parts.append(s)
        return "".join(parts)
    if isinstance(e, ast.Call) and isinstance(e.func, ast.Name) and e.func.id in wrappers and len(e.args) == 1 and not e.keywords:
        return fold_str(repo, mod, e.args[0], wrappers, depth + 1)
    if isinstance(e, ast.Name):
        vals = module_assigns(mod).get(e.id)
        if vals:
            got = {fold_str(repo, mod, v, wrappers, depth + 1) for v in vals}
            return got.pop() if len(got) == 1 else None
        imp = imported_from(repo, mod, e.id)
        if imp is not None:
            return fold_str(repo, imp[0], ast.Name(id=imp[1], ctx=ast.Load()), wrappers, depth + 1)
    return None


def root_callable(repo: Repo, mod: Module, e: ast.AST, depth: int = 0) -> tuple[str, Optional[Module]]:
    """what a module-level name used as a callable finally is: follows `a = b` aliases and `from X import a` into the
    package; returns (name, defining module or None for something from outside the package / a builtin)"""
    if depth > 8 or not isinstance(e, ast.Name):
        return norm(e), None
    if e.id in mod.defs:
        return e.id, mod
    vals = module_assigns(mod).get(e.id)
    if vals and len(vals) == 1 and isinstance(vals[0], ast.Name):
        return root_callable(repo, mod, vals[0], depth + 1)
    imp = imported_from(repo, mod, e.id)
    if imp is not None:
        return root_callable(repo, imp[0], ast.Name(id=imp[1], ctx=ast.Load()), depth + 1)
    # imported from outside the package under another name?
    for st in ast.walk(mod.tree):
        if isinstance(st, ast.ImportFrom):
            for a in st.names:
                if (a.asname or a.name) == e.id:
                    return "%s.%s" % (st.module, a.name), None
    return e.id, None


def reaching_values(mod: Module, fn: ast.AST, node: ast.AST, name: str) -> list[Optional[ast.expr]]:
    """values `name` may hold at node, from the bindings in the statements that precede node in the enclosing statement
    lists (innermost list first): all bindings met up to and including the nearest unconditional one (a direct sibling
    statement); bindings nested in earlier compound statements count as conditional.  None = augmented / opaque binding.
    Loop-free code assumed (callers use it on straight-line / if-structured functions)."""

    def binds(st: ast.AST) -> list[Optional[ast.expr]]:
        out: list[Optional[ast.expr]] = []
        if isinstance(st, ast.Assign):
            for t in st.targets:
                if isinstance(t, ast.Name) and t.id == name:
                    out.append(st.value)
                elif isinstance(t, (ast.Tuple, ast.List)):
                    for i, x in enumerate(t.elts):
                        if isinstance(x, ast.Name) and x.id == name:
                            ok = isinstance(st.value, (ast.Tuple, ast.List)) and len(st.value.elts) == len(t.elts)
                            out.append(st.value.elts[i] if ok else None)
        elif isinstance(st, ast.AnnAssign) and isinstance(st.target, ast.Name) and st.target.id == name and st.value is not None:
            out.append(st.value)
        elif isinstance(st, ast.AugAssign) and isinstance(st.target, ast.Name) and st.target.id == name:
            out.append(None)
        return out

    found: list[Optional[ast.expr]] = []
    child = node
    for p in mod.parents(node):
        for field in ("body", "orelse", "finalbody"):
            lst = getattr(p, field, None)
            if isinstance(lst, list) and any(child is s for s in lst):
                before = []
                for s in lst:
                    if s is child:
                        break
                    before.append(s)
                for s in reversed(before):
                    direct = binds(s)
                    if direct:
                        found += direct
                        if not isinstance(s, ast.AugAssign):
                            return found
                        continue
                    for x in ast.walk(s):
                        if x is not s:
                            found += binds(x)
        if p is fn:
            break
        child = p
    return found


# =========================================================================== helpers of rules (r) (s) (t)
# compiled regular expressions as constants of the analysed source (data, evaluated with the stdlib `re` of the checker)


def _re_flags(e: Optional[ast.AST]) -> Optional[int]:
    """value of a flags expression built from re.X / re.ASCII / ... and `|`; None when it is something else"""
    import re as _re

    if e is None:
        return 0
    if isinstance(e, ast.BinOp) and isinstance(e.op, ast.BitOr):
        l, r = _re_flags(e.left), _re_flags(e.right)
        return None if l is None or r is None else l | r
    if isinstance(e, ast.Constant) and isinstance(e.value, int) and not isinstance(e.value, bool):
        return e.value
    nm = e.attr if isinstance(e, ast.Attribute) and isinstance(e.value, ast.Name) and e.value.id == "re" else e.id if isinstance(e, ast.Name) else None
    if nm is not None and isinstance(getattr(_re, nm, None), _re.RegexFlag):
        return int(getattr(_re, nm))
    return None


def const_pattern(repo: Repo, mod: Module, e: ast.AST, depth: int = 0) -> Optional[tuple[str, int]]:
    """(pattern text, flags) when e denotes a compiled str pattern: `re.compile(<constant>[, flags])` written in place or a
    module-level name (followed through `from X import`) bound to exactly one such call; None otherwise"""
    if depth > 8:
        return None
    if isinstance(e, ast.Call) and norm(e.func) in ("re.compile", "compile") and e.args:
        txt = fold_str(repo, mod, e.args[0])
        fl = _re_flags(e.args[1] if len(e.args) > 1 else next((k.value for k in e.keywords if k.arg == "flags"), None))
        return None if txt is None or fl is None else (txt, fl)
    if isinstance(e, ast.Name):
        vals = module_assigns(mod).get(e.id)
        if vals:
            got = {const_pattern(repo, mod, v, depth + 1) for v in vals}
            return got.pop() if len(got) == 1 else None
        imp = imported_from(repo, mod, e.id)
        if imp is not None:
            return const_pattern(repo, imp[0], ast.Name(id=imp[1], ctx=ast.Load()), depth + 1)
    return None


_RE_SUBSTITUTIONS = ("sub", "subn")
_RE_ONE_SUBJECT = ("match", "fullmatch", "search", "split", "findall", "finditer")


def re_function(mod: Module, func: ast.AST) -> Optional[str]:
    """the function of the standard module `re` that a callee expression denotes (`re.sub`, `sub` after `from re import sub`, under
    whatever alias the module imports them), or None"""
    for st in ast.walk(mod.tree):
        if isinstance(st, ast.Import) and isinstance(func, ast.Attribute) and isinstance(func.value, ast.Name):
            if any(a.name == "re" and (a.asname or a.name) == func.value.id for a in st.names):
                return func.attr
        if isinstance(st, ast.ImportFrom) and st.module == "re" and not st.level and isinstance(func, ast.Name):
            for a in st.names:
                if (a.asname or a.name) == func.id:
                    return a.name
    return None


def functional_regex_calls(repo: Repo, mod: Module, e: ast.AST) -> ast.AST:
    """copy of e in which every use of a constant regular expression is spelled one way - the module-level function of `re`, by its bare
    name, with the pattern text as first argument: `re.sub(P, r, s)`, `sub(P, r, s)`, `re.compile(P).sub(r, s)` and `NAME.sub(r, s)` for
    a module-level NAME bound to `re.compile(P)` (here or in the module it is imported from) are all `sub(P, r, s)`; flags of the
    compiled pattern become `flags=`.  Where the pattern is kept (in place, in a precompiled constant) is not part of what is computed.
    Only the calls whose arguments mean the same in both forms are rewritten (sub / subn; the others with the subject alone: the
    compiled methods take pos / endpos where the functions take flags)."""
    import copy

    class T(ast.NodeTransformer):
        def visit_Call(self, c: ast.Call):  # noqa: N802
            self.generic_visit(c)
            if any(k.arg is None for k in c.keywords) or any(isinstance(a, ast.Starred) for a in c.args):
                return c
            fn = re_function(mod, c.func)
            if fn in _RE_SUBSTITUTIONS + _RE_ONE_SUBJECT and c.args:
                txt = fold_str(repo, mod, c.args[0], wrappers=())
                if txt is None:
                    return c
                return ast.Call(func=ast.Name(id=fn, ctx=ast.Load()), args=[ast.Constant(value=txt)] + c.args[1:], keywords=c.keywords)
            if isinstance(c.func, ast.Attribute) and c.func.attr in _RE_SUBSTITUTIONS + _RE_ONE_SUBJECT:
                if c.func.attr in _RE_ONE_SUBJECT and (len(c.args) != 1 or c.keywords):
                    return c
                cp = const_pattern(repo, mod, c.func.value)
                if cp is None:
                    return c
                kws = list(c.keywords) + ([ast.keyword(arg="flags", value=ast.Constant(value=cp[1]))] if cp[1] else [])
                return ast.Call(func=ast.Name(id=c.func.attr, ctx=ast.Load()), args=[ast.Constant(value=cp[0])] + c.args, keywords=kws)
            return c

    return ast.fix_missing_locations(T().visit(copy.deepcopy(e)))


def pattern_first_chars(pattern: str, flags: int = 0) -> set[Optional[int]]:
    """code points a match of the pattern can begin with, None standing for 'something that is not one literal character'
    (a class, a repeat, ...): {92} says every match begins with a backslash"""
    import re._parser as sre  # type: ignore[import-not-found]

    def first(items) -> set[Optional[int]]:
        for op, av in items:
            name = str(op)
            if name == "LITERAL":
                return {av}
            if name == "AT":
                continue
            if name == "SUBPATTERN":
                return first(av[3])
            if name == "BRANCH":
                out: set[Optional[int]] = set()
                for alt in av[1]:
                    out |= first(alt)
                return out
            return {None}
        return {None}

    return first(sre.parse(pattern, flags))


def pattern_ends_at_string_end(pattern: str, flags: int = 0) -> bool:
    r"""the pattern's last element is \Z: match() of it is a full match"""
    import re._parser as sre  # type: ignore[import-not-found]

    items = list(sre.parse(pattern, flags))
    return bool(items) and str(items[-1][0]) == "AT" and str(items[-1][1]) == "AT_END_STRING"


def escape_sequence_replaces(fn: ast.AST) -> list[ast.Call]:
    """x.replace(A, B) calls of fn where the constant A is an escape sequence: a backslash followed by at least one more character"""
    out = []
    for c in own_nodes(fn):
        if isinstance(c, ast.Call) and isinstance(c.func, ast.Attribute) and c.func.attr == "replace" and len(c.args) >= 2 \
                and isinstance(c.args[0], ast.Constant) and isinstance(c.args[0].value, (str, bytes)):
            a = c.args[0].value
            if len(a) >= 2 and a[:1] in ("\\", b"\\"):
                out.append(c)
    return out


def backslash_led_subs(repo: Repo, mod: Module, fn: ast.AST) -> list[tuple[ast.Call, str, int]]:
    r"""<compiled pattern>.sub/subn(repl, text) and re.sub/subn(<constant>, repl, text) calls of fn whose pattern can only match
    at a backslash: one left-to-right substitution pass over escape sequences; (call, pattern text, flags)"""
    out = []
    for c in own_nodes(fn):
        if not (isinstance(c, ast.Call) and isinstance(c.func, ast.Attribute) and c.func.attr in ("sub", "subn")):
            continue
        pat: Optional[tuple[str, int]]
        if isinstance(c.func.value, ast.Name) and c.func.value.id == "re" and c.args:
            txt = fold_str(repo, mod, c.args[0])
            pat = (txt, _re_flags(next((k.value for k in c.keywords if k.arg == "flags"), None)) or 0) if txt is not None else const_pattern(repo, mod, c.args[0])
        else:
            pat = const_pattern(repo, mod, c.func.value)
        if pat is None:
            continue
        try:
            fc = pattern_first_chars(pat[0], pat[1])
        except Exception:
            continue
        if fc == {92}:
            out.append((c, pat[0], pat[1]))
    return out


def unicode_escape_decodes(fn: ast.AST) -> list[ast.Call]:
    """x.decode('unicode-escape') / codecs.decode(x, 'unicode_escape') calls of fn"""
    out = []
    for c in own_nodes(fn):
        if isinstance(c, ast.Call) and isinstance(c.func, ast.Attribute) and c.func.attr == "decode":
            for a in list(c.args) + [k.value for k in c.keywords]:
                if isinstance(a, ast.Constant) and isinstance(a.value, str) and a.value.lower().replace("_", "-") in ("unicode-escape", "raw-unicode-escape"):
                    out.append(c)
    return out


def referenced_identifiers(repo: Repo) -> set[str]:
    """every identifier the package reads, calls or imports: Name loads, attribute names, imported names, strings of __all__"""
    out: set[str] = set()
    for m in repo.modules.values():
        for n in ast.walk(m.tree):
            if isinstance(n, ast.Name) and isinstance(n.ctx, ast.Load):
                out.add(n.id)
            elif isinstance(n, ast.Attribute):
                out.add(n.attr)
            elif isinstance(n, (ast.Import, ast.ImportFrom)):
                out |= {a.name.rsplit(".", 1)[-1] for a in n.names}
            elif isinstance(n, ast.Assign) and any(isinstance(t, ast.Name) and t.id == "__all__" for t in n.targets):
                out |= {x.value for x in ast.walk(n.value) if isinstance(x, ast.Constant) and isinstance(x.value, str)}
    return out


def backward_slice(D: Defs, e: ast.AST, limit: int = 64) -> list[ast.AST]:
    """e and every expression bound (by any binding) to a local name e depends on, transitively: the expressions the value
    of e was computed by inside the function"""
    out: list[ast.AST] = []
    seen: set[str] = set()
    work = [e]
    while work and len(out) < limit:
        x = work.pop()
        out.append(x)
        for n in ast.walk(x):
            if isinstance(n, ast.Name) and n.id not in seen:
                seen.add(n.id)
                for v in D.values(n.id):
                    if v is not None:
                        work.append(v)
                for a in D.aug.get(n.id, []):
                    work.append(a.value)
    return out


def enclosing_function(mod: Module, node: ast.AST) -> ast.AST:
    """innermost def / lambda around node, the module tree when there is none"""
    for p in mod.parents(node):
        if isinstance(p, (ast.FunctionDef, ast.AsyncFunctionDef, ast.Lambda)):
            return p
    return mod.tree


def branch_facts(mod: Module, fn: ast.AST, node: ast.AST) -> list[tuple[ast.expr, bool]]:
    """(test, truth value) pairs known where node runs: the enclosing if-arms, plus every earlier sibling `if` one of
    whose sides always leaves (return / raise / continue / break) - control came through the other side"""
    facts = list(path_conds(mod, fn, node))
    for st in earlier_siblings(mod, fn, node):
        if isinstance(st, ast.If):
            if always_leaves(st.body) and not always_leaves(st.orelse):
                facts.append((st.test, False))
            elif always_leaves(st.orelse) and not always_leaves(st.body):
                facts.append((st.test, True))
    return facts


# =========================================================================== helpers of rules (v) - (ae)


def text_renderings(e: ast.AST) -> list[tuple[ast.AST, ast.AST, bool]]:
    """(node, operand, fixed_point) for every place in e where a value is turned into text: str(x) / repr(x) / x.__str__(),
    format(x, spec), an f-string field {x} / {x:spec}, '...%s...' % x, '...{}...'.format(x).  fixed_point says that the format
    asked for is the fixed-point one (spec ends in 'f' / every directive is %f): the only rendering of a Decimal that never
    switches to exponent notation"""
    import re as _re

    out: list[tuple[ast.AST, ast.AST, bool]] = []

    def spec_fixed(spec: Optional[ast.AST]) -> bool:
        if spec is None:
            return False
        if isinstance(spec, ast.JoinedStr) and len(spec.values) == 1:
            spec = spec.values[0]
        return isinstance(spec, ast.Constant) and isinstance(spec.value, str) and spec.value.endswith(("f", "F"))

    for n in ast.walk(e):
        if isinstance(n, ast.Call) and isinstance(n.func, ast.Name) and n.func.id in ("str", "repr") and len(n.args) == 1 and not n.keywords:
            out.append((n, n.args[0], False))
        elif isinstance(n, ast.Call) and isinstance(n.func, ast.Attribute) and n.func.attr in ("__str__", "__repr__") and not n.args:
            out.append((n, n.func.value, False))
        elif isinstance(n, ast.Call) and isinstance(n.func, ast.Name) and n.func.id == "format" and n.args:
            out.append((n, n.args[0], spec_fixed(n.args[1] if len(n.args) > 1 else None)))
        elif isinstance(n, ast.FormattedValue):
            out.append((n, n.value, spec_fixed(n.format_spec)))
        elif isinstance(n, ast.BinOp) and isinstance(n.op, ast.Mod) and isinstance(n.left, ast.Constant) and isinstance(n.left.value, str):
            dirs = _re.findall(r"%[-+ #0-9.]*([a-zA-Z%])", n.left.value)
            fixed = bool(dirs) and all(d in "fF%" for d in dirs)
            for x in (n.right.elts if isinstance(n.right, ast.Tuple) else [n.right]):
                out.append((n, x, fixed))
        elif isinstance(n, ast.Call) and isinstance(n.func, ast.Attribute) and n.func.attr == "format" and isinstance(n.func.value, ast.Constant) \
                and isinstance(n.func.value.value, str):
            fields = _re.findall(r"\{[^{}]*\}", n.func.value.value)
            fixed = bool(fields) and all(_re.fullmatch(r"\{[^:{}]*:[^{}]*[fF]\}", f) for f in fields)
            for x in list(n.args) + [k.value for k in n.keywords]:
                out.append((n, x, fixed))
    return out


def isinstance_classes(e: ast.AST, who: str) -> list[str]:
    """last name components of the classes of every isinstance(<who>, C) / isinstance(<who>, (C, D)) call inside e"""
    out: list[str] = []
    for c in ast.walk(e):
        if isinstance(c, ast.Call) and isinstance(c.func, ast.Name) and c.func.id == "isinstance" and len(c.args) == 2 and norm(c.args[0]) == who:
            for k in (c.args[1].elts if isinstance(c.args[1], ast.Tuple) else [c.args[1]]):
                out.append(norm(k).rsplit(".", 1)[-1])
    return out


def annotation_classes(ann: Optional[ast.AST]) -> list[str]:
    """class names (last component) of a return annotation that is a union: A | B, Union[A, B], Optional[A]; [] when there is none"""
    if ann is None:
        return []
    if isinstance(ann, ast.Constant) and isinstance(ann.value, str):
        try:
            ann = ast.parse(ann.value, mode="eval").body
        except SyntaxError:
            return []
    if isinstance(ann, ast.BinOp) and isinstance(ann.op, ast.BitOr):
        return annotation_classes(ann.left) + annotation_classes(ann.right)
    if isinstance(ann, ast.Subscript) and norm(ann.value).rsplit(".", 1)[-1] in ("Union", "Optional"):
        els = ann.slice.elts if isinstance(ann.slice, ast.Tuple) else [ann.slice]
        out: list[str] = []
        for x in els:
            out += annotation_classes(x)
        return out
    if isinstance(ann, ast.Constant) and ann.value is None:
        return []
    if isinstance(ann, (ast.Name, ast.Attribute)):
        return [norm(ann).rsplit(".", 1)[-1]]
    return ["?" + norm(ann)]


def table_rows(mod: Module, name: str) -> list[ast.expr]:
    """elements of the module-level list display bound to `name`, plus the arguments of every module-level `name.append(x)`
    (also under a top-level if)"""
    rows: list[ast.expr] = []
    for v in module_assigns(mod).get(name, []):
        if isinstance(v, (ast.List, ast.Tuple)):
            rows += list(v.elts)

    def scan(stmts: list[ast.stmt]) -> None:
        for st in stmts:
            if isinstance(st, ast.Expr) and isinstance(st.value, ast.Call) and norm(st.value.func) == name + ".append" and len(st.value.args) == 1:
                rows.append(st.value.args[0])
            elif isinstance(st, ast.If):
                scan(st.body)
                scan(st.orelse)

    scan(mod.tree.body)
    return rows


def dict_table(mod: Module, name: str) -> list[tuple[ast.expr, ast.expr]]:
    """(key, value) of the module-level dict display bound to `name`, plus every module-level `name[key] = value` (also under a
    top-level if)"""
    out: list[tuple[ast.expr, ast.expr]] = []
    for v in module_assigns(mod).get(name, []):
        if isinstance(v, ast.Dict):
            out += [(k, x) for k, x in zip(v.keys, v.values) if k is not None]

    def scan(stmts: list[ast.stmt]) -> None:
        for st in stmts:
            if isinstance(st, ast.Assign) and len(st.targets) == 1 and isinstance(st.targets[0], ast.Subscript) and norm(st.targets[0].value) == name:
                out.append((st.targets[0].slice, st.value))
            elif isinstance(st, ast.If):
                scan(st.body)
                scan(st.orelse)

    scan(mod.tree.body)
    return out


def consulted_before(mod: Module, fn: ast.AST, node: ast.AST) -> list[ast.AST]:
    """expressions evaluated before control reaches node, as far as the nesting shows: the earlier sibling statements at every
    level, and the tests of the enclosing if / while statements"""
    out: list[ast.AST] = list(earlier_siblings(mod, fn, node))
    for p in mod.parents(node):
        if isinstance(p, (ast.If, ast.While)):
            out.append(p.test)
        if p is fn:
            break
    return out


# =========================================================================== calls followed into the helpers they run
# A rule stands for a clause about what a public entry point does; where the code that does it sits - in the entry point
# or in a private helper it calls - is not part of the clause.  These helpers resolve a call to the def it runs (when the
# syntax tells), bind its parameters, and let a rule carry a value (the lexical form, the quoted text, a token) across it.


def _method_owners(repo: Repo) -> dict[str, list[tuple[str, str]]]:
    """method name -> [(module name, class qualname)] over the whole package"""
    cached = getattr(repo, "_c07_method_owners", None)
    if cached is None:
        cached = {}
        for name, m in repo.modules.items():
            for q, d in m.defs.items():
                if isinstance(d, ast.ClassDef):
                    for st in d.body:
                        if isinstance(st, (ast.FunctionDef, ast.AsyncFunctionDef)):
                            cached.setdefault(st.name, [])
                            if (name, q) not in cached[st.name]:
                                cached[st.name].append((name, q))
        repo._c07_method_owners = cached  # type: ignore[attr-defined]
    return cached


def _decorators(fn: ast.AST) -> set[str]:
    return {norm(d).rsplit(".", 1)[-1] for d in getattr(fn, "decorator_list", [])}


class Callee:
    """a call resolved to the def it runs: the module and def, the argument expression bound to every parameter (the
    receiver for the self parameter of a method; the default where the call passes nothing), and for a method the class"""

    def __init__(self, mod: Module, fn: ast.FunctionDef, bound: dict[str, Optional[ast.expr]], cls: Optional[str]):
        self.mod, self.fn, self.bound, self.cls = mod, fn, bound, cls

    def param_of(self, pred) -> Optional[str]:
        """the one parameter whose argument satisfies pred"""
        got = [p for p, a in self.bound.items() if a is not None and pred(a)]
        return got[0] if len(got) == 1 else None


def resolve_call(repo: Repo, mod: Module, call: ast.AST, cls: Optional[str] = None, selfnames: tuple[str, ...] = ("self",)) -> Optional[Callee]:
    """the def of the package that `call` runs, when the syntax tells: f(...) for a module-level def f (followed through
    aliases and `from X import f`), x._m(...) for a private method name that the class `cls` the caller sits in, or exactly one
    class of the package, defines, self.m(...) for a method of the caller's class.  None for everything else (a builtin, a
    parameter, a public method of some other object, a name several classes define, *args)."""
    if not isinstance(call, ast.Call) or any(isinstance(a, ast.Starred) for a in call.args) or any(k.arg is None for k in call.keywords):
        return None
    fn: Optional[ast.AST] = None
    where: Optional[Module] = None
    recv: Optional[ast.expr] = None
    owner: Optional[str] = None
    if isinstance(call.func, ast.Name):
        memo = repo.__dict__.setdefault("_c07_roots", {})
        key = (id(mod), call.func.id)
        if key not in memo:
            memo[key] = root_callable(repo, mod, call.func)
        root, where = memo[key]
        fn = where.defs.get(root) if where is not None else None
    elif isinstance(call.func, ast.Attribute):
        # a method: the name must tell the def - a private name (`_x`; nobody outside the class hierarchy calls it) that the caller's class or
        # exactly one class of the package defines, or any name the caller's class defines when the receiver is the caller's own instance
        name = call.func.attr
        owners = _method_owners(repo).get(name, [])
        private = name.startswith("_") and not (name.startswith("__") and name.endswith("__"))
        own = isinstance(call.func.value, ast.Name) and call.func.value.id in selfnames
        pick = None
        if cls is not None and (mod.name, cls) in owners and (private or own):
            pick = (mod.name, cls)
        elif len(owners) == 1 and private:
            pick = owners[0]
        if pick is not None:
            where = repo.modules[pick[0]]
            fn = where.methods(pick[1]).get(name)
            owner = pick[1]
            recv = call.func.value
    if not isinstance(fn, ast.FunctionDef) or where is None:
        return None
    a = fn.args
    if a.vararg is not None or a.kwarg is not None:
        return None
    params = [x.arg for x in a.posonlyargs + a.args]
    defaults: dict[str, Optional[ast.expr]] = {}
    for p, d in zip(reversed(params), reversed(a.defaults)):
        defaults[p] = d
    for p, d in zip([x.arg for x in a.kwonlyargs], a.kw_defaults):
        defaults[p] = d
    bound: dict[str, Optional[ast.expr]] = {}
    pos = list(params)
    if owner is not None:
        deco = _decorators(fn)
        if "staticmethod" in deco:
            pass
        elif "classmethod" in deco or "property" in deco:
            return None
        else:
            if not pos:
                return None
            # C.m(x, ...) called on the class itself passes the instance explicitly
            if isinstance(recv, ast.Name) and recv.id == owner.rsplit(".", 1)[-1]:
                pass
            else:
                bound[pos.pop(0)] = recv
    if len(call.args) > len(pos):
        return None
    for p, x in zip(pos, call.args):
        bound[p] = x
    for k in call.keywords:
        if k.arg in bound or k.arg not in params + [x.arg for x in a.kwonlyargs]:
            return None
        bound[k.arg] = k.value
    for p in params + [x.arg for x in a.kwonlyargs]:
        if p not in bound:
            if p not in defaults:
                return None
            bound[p] = defaults[p]
    return Callee(where, fn, bound, owner)


def execution_order(fn: ast.AST) -> dict[int, int]:
    """id(node) -> index of the node in a depth-first walk of fn in field order (test before body before orelse, statements in
    sequence): the order in which loop-free code evaluates.  Line numbers do not give it on an equivalent view of the tree, where an
    inlined statement keeps the position it has in the helper."""
    order: dict[int, int] = {}

    def walk(n: ast.AST) -> None:
        order[id(n)] = len(order)
        for c in ast.iter_child_nodes(n):
            walk(c)

    walk(fn)
    return order


def binds_name(st: ast.AST, names: set[str]) -> bool:
    """some node inside st stores (or deletes) one of the names"""
    return any(isinstance(x, ast.Name) and isinstance(x.ctx, (ast.Store, ast.Del)) and x.id in names for x in ast.walk(st))


def facts_at(mod: Module, fn: ast.AST, node: ast.AST) -> list[tuple[ast.expr, bool]]:
    """branch_facts, minus the facts of earlier sibling statements whose names were re-bound between the test and node (a fact
    about a name holds only as long as the name keeps its value)"""
    facts = list(path_conds(mod, fn, node))
    sibs = list(earlier_siblings(mod, fn, node))
    order = execution_order(fn)
    for st in sibs:
        if not isinstance(st, ast.If):
            continue
        if always_leaves(st.body) and not always_leaves(st.orelse):
            f = (st.test, False)
        elif always_leaves(st.orelse) and not always_leaves(st.body):
            f = (st.test, True)
        else:
            continue
        names = {x.id for x in ast.walk(st.test) if isinstance(x, ast.Name)}
        # what runs between st and node: every statement met on the way to node that starts after st (loop-free code assumed),
        # and the side of st that control came through
        rebound = any(binds_name(later, names) for later in sibs if order.get(id(later), -1) > order.get(id(st), 0))
        rebound = rebound or any(binds_name(side, names) for side in (st.orelse if f[1] is False else st.body))
        if not rebound:
            facts.append(f)
    return facts


def split_conditional(e: ast.AST, conds: Optional[list[tuple[ast.expr, bool]]] = None) -> list[tuple[ast.expr, list[tuple[ast.expr, bool]]]]:
    """the values a conditional expression can take, each with the tests under which it is taken: `a if t else b` gives
    (a, [t]) and (b, [not t]); nested ones are split again"""
    conds = list(conds or [])
    if isinstance(e, ast.IfExp):
        return split_conditional(e.body, conds + [(e.test, True)]) + split_conditional(e.orelse, conds + [(e.test, False)])
    return [(e, conds)]  # type: ignore[list-item]


def subst_names(e: ast.AST, mapping: dict[str, Optional[ast.AST]]) -> ast.AST:
    """a copy of e with every loaded name of `mapping` replaced by (a copy of) the expression it maps to"""
    import copy

    class T(ast.NodeTransformer):
        def visit_Name(self, n: ast.Name):  # noqa: N802
            if isinstance(n.ctx, ast.Load) and mapping.get(n.id) is not None:
                return copy.deepcopy(mapping[n.id])
            return n

    return T().visit(copy.deepcopy(e))


def single_return(fn: ast.AST) -> Optional[ast.expr]:
    """the expression a def returns when its body is one return statement (after the docstring)"""
    body = [s for s in getattr(fn, "body", []) if not (isinstance(s, ast.Expr) and isinstance(s.value, ast.Constant) and isinstance(s.value.value, str))]
    if len(body) == 1 and isinstance(body[0], ast.Return) and body[0].value is not None:
        return body[0].value
    return None


def returned_expression(fn: ast.AST) -> Optional[ast.expr]:
    """the expression a def returns when its body is one return statement, possibly after plain bindings of local names that are each
    bound once (speaking intermediate names): the returned expression with these names replaced by what they are bound to"""
    r = single_return(fn)
    if r is not None:
        return r
    body = [s for s in getattr(fn, "body", []) if not (isinstance(s, ast.Expr) and isinstance(s.value, ast.Constant) and isinstance(s.value.value, str))]
    if len(body) < 2 or not isinstance(body[-1], ast.Return) or body[-1].value is None:
        return None
    D = Defs(fn)
    for st in body[:-1]:
        if isinstance(st, ast.AnnAssign) and st.value is not None:
            targets = [st.target]
        elif isinstance(st, ast.Assign):
            targets = list(st.targets)
        else:
            return None
        for t in targets:
            if not (isinstance(t, ast.Name) and t.id not in D.params and len(D.values(t.id)) == 1 and D.values(t.id)[0] is not None):
                return None
    try:
        return ast.parse(D.expand(body[-1].value), mode="eval").body
    except SyntaxError:
        return None


def resolve_property(repo: Repo, mod: Module, e: ast.AST, cls: Optional[str] = None, selfnames: tuple[str, ...] = ("self",)) -> Optional[Callee]:
    """the property def that the attribute read `x.name` runs, when the name tells: a private name (`_x`, read only inside the class
    hierarchy) that the caller's class or exactly one class of the package defines, as a property and nothing else.  x is bound to its
    self parameter.  Public properties are not followed: they are the stable names of the fields."""
    if not (isinstance(e, ast.Attribute) and isinstance(e.ctx, ast.Load)):
        return None
    name = e.attr
    if not (name.startswith("_") and not (name.startswith("__") and name.endswith("__"))):
        return None
    owners = _method_owners(repo).get(name, [])
    pick = None
    if cls is not None and (mod.name, cls) in owners:
        pick = (mod.name, cls)
    elif len(owners) == 1:
        pick = owners[0]
    if pick is None:
        return None
    where = repo.modules[pick[0]]
    defs_ = [st for st in where.cls(pick[1]).body if isinstance(st, (ast.FunctionDef, ast.AsyncFunctionDef)) and st.name == name]
    if len(defs_) != 1 or not isinstance(defs_[0], ast.FunctionDef) or _decorators(defs_[0]) != {"property"}:
        return None
    fn = defs_[0]
    a = fn.args
    if len(a.posonlyargs + a.args) != 1 or a.vararg or a.kwarg or a.kwonlyargs:
        return None
    return Callee(where, fn, {(a.posonlyargs + a.args)[0].arg: e.value}, pick[1])


def expand_calls(repo: Repo, mod: Module, e: ast.AST, cls: Optional[str] = None, depth: int = 0) -> ast.AST:
    """a copy of e in which every call of a def of the package that is one return statement (possibly after bindings of speaking local
    names), and every read of a property of that kind, is replaced by the returned expression, parameters replaced by the arguments
    (an expression-like helper is a name for an expression: `_fold(x)` for `x.lower() if x else None`, `lit._is_number()` for
    `lit.datatype in NUMERIC and ...`, `lit._lang_key` for `lit._language.lower() if lit._language else None`)"""
    import copy

    if depth > 4:
        return e

    class T(ast.NodeTransformer):
        def visit_Call(self, c: ast.Call):  # noqa: N802
            self.generic_visit(c)
            cal = resolve_call(repo, mod, c, cls)
            if cal is None:
                return c
            r = returned_expression(cal.fn)
            if r is None:
                return c
            inner = expand_calls(repo, cal.mod, r, cal.cls, depth + 1)
            return subst_names(inner, cal.bound)

        def visit_Attribute(self, a: ast.Attribute):  # noqa: N802
            self.generic_visit(a)
            cal = resolve_property(repo, mod, a, cls)
            if cal is None:
                return a
            r = returned_expression(cal.fn)
            if r is None:
                return a
            inner = expand_calls(repo, cal.mod, r, cal.cls, depth + 1)
            return subst_names(inner, cal.bound)

    return T().visit(copy.deepcopy(e))


def translate_table(repo: Repo, mod: Module, e: ast.AST, depth: int = 0) -> Optional[dict[str, Optional[str]]]:
    """the character -> text mapping a constant str.translate() table denotes: a dict display (keys: one-character strings or
    code points), str.maketrans(<dict display>), str.maketrans(a, b) of two constant strings, or a module-level name bound once
    to one of these (followed through `from X import`)"""
    if depth > 6:
        return None
    if isinstance(e, ast.Name):
        vals = module_assigns(mod).get(e.id)
        if vals:
            return translate_table(repo, mod, vals[0], depth + 1) if len(vals) == 1 else None
        imp = imported_from(repo, mod, e.id)
        if imp is not None:
            return translate_table(repo, imp[0], ast.Name(id=imp[1], ctx=ast.Load()), depth + 1)
        return None
    if isinstance(e, ast.Call) and norm(e.func) in ("str.maketrans", "maketrans", "bytes.maketrans") and not e.keywords:
        if len(e.args) == 1:
            return translate_table(repo, mod, e.args[0], depth + 1)
        if len(e.args) >= 2 and all(isinstance(a, ast.Constant) and isinstance(a.value, str) for a in e.args[:2]) and len(e.args[0].value) == len(e.args[1].value):
            return dict(zip(e.args[0].value, e.args[1].value))
        return None
    if isinstance(e, ast.Dict):
        out: dict[str, Optional[str]] = {}
        for k, v in zip(e.keys, e.values):
            if not isinstance(k, ast.Constant):
                return None
            key = chr(k.value) if isinstance(k.value, int) and not isinstance(k.value, bool) else k.value
            if not (isinstance(key, str) and len(key) == 1):
                return None
            if isinstance(v, ast.Constant) and (v.value is None or isinstance(v.value, str)):
                out[key] = v.value
            elif isinstance(v, ast.Constant) and isinstance(v.value, int):
                out[key] = chr(v.value)
            else:
                s = fold_str(repo, mod, v)
                if s is None:
                    return None
                out[key] = s
        return out
    return None


def backslash_doublings(repo: Repo, mod: Module, fn: ast.AST) -> list[ast.Call]:
    """the calls of fn that write text in which the backslash escapes itself, i.e. that map every backslash to two:
    x.replace('\\\\', '\\\\\\\\') and x.translate(T) for a constant table T with that entry"""
    out: list[ast.Call] = []
    for c in own_nodes(fn):
        if not (isinstance(c, ast.Call) and isinstance(c.func, ast.Attribute)):
            continue
        if c.func.attr == "replace" and len(c.args) == 2 and all(isinstance(a, ast.Constant) for a in c.args) \
                and c.args[0].value in ("\\", b"\\") and c.args[1].value in ("\\\\", b"\\\\"):
            out.append(c)
        elif c.func.attr == "translate" and len(c.args) == 1 and not c.keywords:
            t = translate_table(repo, mod, c.args[0])
            if t is not None and t.get("\\") == "\\\\":
                out.append(c)
    return out


class Copies:
    """which local names of a (loop-free) def hold the same value: plain copies `a = b`, also element-wise in `a, c = b, d`, with the
    points where they happen.  `same(name, root, at)`: at node `at`, `name` holds the value of `root` - it was copied from root before
    and neither was re-bound since - or holds the value root gets from it afterwards - it is copied into root later and is not re-bound
    until then (the value tested now is the value stored then)."""

    def __init__(self, fn: ast.AST):
        self.fn = fn
        self.order = execution_order(fn)
        self.copies: list[tuple[int, str, str]] = []  # (when, target, source)
        self.binds: dict[str, list[int]] = {}
        for n in own_nodes(fn):
            pairs: list[tuple[ast.AST, Optional[ast.AST]]] = []
            if isinstance(n, ast.Assign):
                pairs = [(t, n.value) for t in n.targets]
            elif isinstance(n, ast.AnnAssign) and n.value is not None:
                pairs = [(n.target, n.value)]
            elif isinstance(n, ast.AugAssign):
                pairs = [(n.target, None)]
            elif isinstance(n, (ast.For, ast.AsyncFor)):
                pairs = [(n.target, None)]
            elif isinstance(n, ast.NamedExpr):
                pairs = [(n.target, n.value)]
            elif isinstance(n, (ast.With, ast.AsyncWith)):
                pairs = [(it.optional_vars, None) for it in n.items if it.optional_vars is not None]
            when = self.order.get(id(n), 0)
            for t, v in pairs:
                self._bind(when, t, v)

    def _bind(self, when: int, t: ast.AST, v: Optional[ast.AST]) -> None:
        if isinstance(t, ast.Name):
            self.binds.setdefault(t.id, []).append(when)
            if isinstance(v, ast.Name):
                self.copies.append((when, t.id, v.id))
        elif isinstance(t, (ast.Tuple, ast.List)):
            if isinstance(v, (ast.Tuple, ast.List)) and len(v.elts) == len(t.elts) and not any(isinstance(e, ast.Starred) for e in list(t.elts) + list(v.elts)):
                for ti, vi in zip(t.elts, v.elts):
                    self._bind(when, ti, vi)
            else:
                for x in ast.walk(t):
                    if isinstance(x, ast.Name):
                        self.binds.setdefault(x.id, []).append(when)

    def rebound(self, name: str, lo: int, hi: int) -> bool:
        return any(lo < w < hi for w in self.binds.get(name, []))

    def same(self, name: str, root: str, at: ast.AST) -> bool:
        if name == root:
            return True
        now = self.order.get(id(at))
        if now is None:
            return False
        for when, t, src in self.copies:
            if t == name and src == root and when < now and not self.rebound(name, when, now) and not self.rebound(root, when, now):
                return True
            if t == root and src == name and when > now and not self.rebound(name, now, when):
                return True
        return False

    def flows_into(self, st: ast.AST, name: str, root: str) -> bool:
        """the value the statement st binds to `name` is (or later becomes, unchanged) the value of `root`"""
        if name == root:
            return True
        now = self.order.get(id(st))
        if now is None:
            return False
        return any(t == root and src == name and when > now and not self.rebound(name, now, when) for when, t, src in self.copies)


# --------------------------------------------------------------------------- delegation, decision paths, comparisons as callables


def delegation(repo: Repo, mod: Module, fn: ast.FunctionDef, cls: Optional[str] = None, depth: int = 4) -> tuple[Module, ast.FunctionDef, dict[str, ast.AST], Optional[str]]:
    """the def that decides what fn answers: fn itself, or - when fn does nothing but return the result of a call of a def of the
    package (a method body moved into a module-level function, a shared body with the operator / a constant passed in) - that def,
    followed as long as it goes on.  With it, for every parameter of the def, the expression over fn's own parameters it stands for."""
    a = fn.args
    bound: dict[str, ast.AST] = {x.arg: ast.Name(id=x.arg, ctx=ast.Load()) for x in a.posonlyargs + a.args + a.kwonlyargs}
    seen = {id(fn)}
    while depth > 0:
        depth -= 1
        r = single_return(fn)
        cal = resolve_call(repo, mod, r, cls) if r is not None else None
        if cal is None or id(cal.fn) in seen:
            break
        seen.add(id(cal.fn))
        bound = {p: subst_names(x, bound) for p, x in cal.bound.items() if x is not None}
        mod, fn, cls = cal.mod, cal.fn, cal.cls
    return mod, fn, bound, cls


class Unmodelled(Exception):
    pass


def decision_paths(fn: ast.AST) -> list[tuple[list[tuple[ast.expr, bool]], Optional[ast.AST]]]:
    """the paths through a loop-free def: for each, the (test, polarity) pairs in the order they are decided and what the path ends in -
    the returned expression, the `raise` statement, or None at the end of the body.  An if/elif chain, guard clauses and nested ifs
    that decide the same cases in the same order give the same list.  Unmodelled for loops, try, with, match."""
    out: list[tuple[list[tuple[ast.expr, bool]], Optional[ast.AST]]] = []

    def walk(stmts: list[ast.stmt], conds: list[tuple[ast.expr, bool]]) -> None:
        if len(out) > 512:
            raise Unmodelled("too many paths")
        for i, st in enumerate(stmts):
            if isinstance(st, ast.Return):
                out.append((conds, st.value if st.value is not None else ast.Constant(value=None)))
                return
            if isinstance(st, ast.Raise):
                out.append((conds, st))
                return
            if isinstance(st, ast.If):
                rest = stmts[i + 1:]
                walk(list(st.body) + rest, conds + [(st.test, True)])
                walk(list(st.orelse) + rest, conds + [(st.test, False)])
                return
            if isinstance(st, (ast.Assign, ast.AnnAssign, ast.AugAssign, ast.Expr, ast.Pass, ast.Assert, ast.Import, ast.ImportFrom)):
                continue
            raise Unmodelled(type(st).__name__)
        out.append((conds, None))

    walk(list(getattr(fn, "body", [])), [])
    return out


_OPERATOR_FUNCS = {"lt": ast.Lt, "gt": ast.Gt, "le": ast.LtE, "ge": ast.GtE, "eq": ast.Eq, "ne": ast.NotEq,
                   "__lt__": ast.Lt, "__gt__": ast.Gt, "__le__": ast.LtE, "__ge__": ast.GtE, "__eq__": ast.Eq, "__ne__": ast.NotEq}


def operator_function(mods: "Module | list[Module]", e: ast.AST) -> Optional[type]:
    """the comparison operator that e, a reference to a function of the standard `operator` module (`operator.gt`, `op.gt` after
    `import operator as op`, `gt` after `from operator import gt` in (one of) the module(s) the reference is written in), applies to
    its two arguments"""
    for mod in (mods if isinstance(mods, list) else [mods]):
        for st in mod.tree.body:
            if isinstance(e, ast.Attribute) and isinstance(e.value, ast.Name) and isinstance(st, ast.Import) \
                    and any(al.name == "operator" and (al.asname or al.name) == e.value.id for al in st.names):
                return _OPERATOR_FUNCS.get(e.attr)
            if isinstance(e, ast.Name) and isinstance(st, ast.ImportFrom) and st.module == "operator" and st.level == 0:
                for al in st.names:
                    if (al.asname or al.name) == e.id:
                        return _OPERATOR_FUNCS.get(al.name)
    return None


def in_terms_of(D: Defs, bound: Optional[dict[str, ast.AST]], e: ast.AST) -> ast.AST:
    """e with the singly-bound locals of its def replaced by what they are bound to, and then the parameters of the def by the
    expressions `bound` gives for them (see `delegation`)"""
    x = ast.parse(D.expand(e), mode="eval").body  # type: ignore[arg-type]
    return subst_names(x, dict(bound)) if bound else x


def as_comparison(mod: "Module | list[Module]", e: ast.AST) -> Optional[tuple[list[type], ast.AST, ast.AST]]:
    """(operators, left, right) when e is a two-operand comparison: `a < b`, or a call op(a, b) of what can only be functions of the
    `operator` module (named in place or chosen by a conditional expression)"""
    if isinstance(e, ast.Compare) and len(e.ops) == 1:
        return [type(e.ops[0])], e.left, e.comparators[0]
    if isinstance(e, ast.Call) and len(e.args) == 2 and not e.keywords and not any(isinstance(x, ast.Starred) for x in e.args):
        ops = [operator_function(mod, v) for v, _ in split_conditional(e.func)]
        if ops and all(o is not None for o in ops):
            return ops, e.args[0], e.args[1]  # type: ignore[return-value]
    return None


def comparisons(mod: "Module | list[Module]", fn: ast.AST, bound: Optional[dict[str, ast.AST]] = None, D: Optional[Defs] = None) -> list[tuple[ast.AST, list[type], ast.AST, ast.AST]]:
    """(node, operators, left, right) of every two-operand comparison fn makes, written as `a < b` or as a call op(a, b) of what can only be
    functions of the `operator` module - named in place, held in a local, chosen by a conditional expression, or handed in as a parameter
    that `bound` maps to one.  Operands are given in terms of `bound` (in_terms_of)."""
    D = D or Defs(fn)
    out: list[tuple[ast.AST, list[type], ast.AST, ast.AST]] = []
    for c in own_nodes(fn):
        if isinstance(c, (ast.Compare, ast.Call)):
            got = as_comparison(mod, in_terms_of(D, bound, c))
            if got is not None:
                out.append((c, got[0], got[1], got[2]))
    return out


# --------------------------------------------------------------------------- tests on the first character(s) of a text


def holds_for_prefix(e: ast.AST, subject: str, prefix: str) -> bool:
    """the test e is true of every text (held by the name `subject`) that starts with `prefix`, as far as the syntax tells:
    subject.startswith(p) for a constant p that `prefix` starts with - or a tuple with such a p -, subject[0] / subject[:n] compared
    (==, in) with such constants, an `or` with one such alternative, an `and` of such tests"""
    def is_subject(x: ast.AST) -> bool:
        return isinstance(x, ast.Name) and x.id == subject

    def consts(x: ast.AST) -> Optional[list[str]]:
        if isinstance(x, ast.Constant) and isinstance(x.value, str):
            return [x.value]
        if isinstance(x, (ast.Tuple, ast.List, ast.Set)) and all(isinstance(y, ast.Constant) and isinstance(y.value, str) for y in x.elts):
            return [y.value for y in x.elts]  # type: ignore[attr-defined]
        return None

    if isinstance(e, ast.BoolOp):
        return (any if isinstance(e.op, ast.Or) else all)(holds_for_prefix(v, subject, prefix) for v in e.values)
    if isinstance(e, ast.Call) and isinstance(e.func, ast.Attribute) and e.func.attr == "startswith" and is_subject(e.func.value) and len(e.args) == 1 and not e.keywords:
        cs = consts(e.args[0])
        return cs is not None and any(c and prefix.startswith(c) for c in cs)
    if isinstance(e, ast.Compare) and len(e.ops) == 1 and isinstance(e.left, ast.Subscript) and is_subject(e.left.value):
        sl = e.left.slice
        if isinstance(sl, ast.Constant) and sl.value == 0:
            n = 1
        elif isinstance(sl, ast.Slice) and sl.lower is None and sl.step is None and isinstance(sl.upper, ast.Constant) and isinstance(sl.upper.value, int) and 0 < sl.upper.value <= len(prefix):
            n = sl.upper.value
        else:
            return False
        head = prefix[:n]
        right = e.comparators[0]
        if isinstance(e.ops[0], ast.Eq):
            return isinstance(right, ast.Constant) and right.value == head
        if isinstance(e.ops[0], ast.In):
            if isinstance(right, ast.Constant) and isinstance(right.value, str):
                return n == 1 and head in right.value
            cs = consts(right)
            return cs is not None and head in cs
    return False
