"""Helpers of checks/c07.py (later rules): syntactic path conditions, one-step def-use of local names,
constant folding of module-level string expressions.  Pure `ast`; nothing of the analysed tree is executed."""
from __future__ import annotations

import ast
from typing import Iterator, Optional

from .core import Module, Repo, norm, own_nodes


# --------------------------------------------------------------------------- path conditions


def path_conds(mod: Module, fn: ast.AST, node: ast.AST) -> list[tuple[ast.expr, bool]]:
    """(test, polarity) of every `if` statement between fn and node, outermost first: polarity True when node sits in the
    body, False when it sits in the orelse (so an `elif` arm carries the negated tests of the arms before it)."""
    out: list[tuple[ast.expr, bool]] = []
    child = node
    for p in mod.parents(node):
        if isinstance(p, ast.If):
            if any(child is s for s in p.body):
                out.append((p.test, True))
            elif any(child is s for s in p.orelse):
                out.append((p.test, False))
        if p is fn:
            break
        child = p
    out.reverse()
    return out


def atoms(conds: list[tuple[ast.expr, bool]]) -> list[tuple[ast.expr, bool]]:
    """flatten a conjunction of (test, polarity) into atoms: `a and b` held true gives a, b; `a or b` held false gives
    not a, not b; `not x` flips."""
    out: list[tuple[ast.expr, bool]] = []

    def add(e: ast.expr, pol: bool) -> None:
        if isinstance(e, ast.UnaryOp) and isinstance(e.op, ast.Not):
            add(e.operand, not pol)
        elif isinstance(e, ast.BoolOp) and ((isinstance(e.op, ast.And) and pol) or (isinstance(e.op, ast.Or) and not pol)):
            for v in e.values:
                add(v, pol)
        else:
            out.append((e, pol))

    for e, pol in conds:
        add(e, pol)
    return out


def always_leaves(stmts: list[ast.stmt]) -> bool:
    """every path through the statement list ends in return / raise / continue / break"""
    if not stmts:
        return False
    last = stmts[-1]
    if isinstance(last, (ast.Return, ast.Raise, ast.Continue, ast.Break)):
        return True
    if isinstance(last, ast.If):
        return always_leaves(last.body) and always_leaves(last.orelse)
    return False


def earlier_siblings(mod: Module, fn: ast.AST, node: ast.AST) -> Iterator[ast.stmt]:
    """statements that come before `node` in a statement list enclosing it (at every nesting level up to fn): what has
    been executed, or left through, before control reaches node (no loops assumed by the callers)"""
    child = node
    for p in mod.parents(node):
        for field in ("body", "orelse", "finalbody"):
            lst = getattr(p, field, None)
            if isinstance(lst, list) and any(child is s for s in lst):
                for s in lst:
                    if s is child:
                        break
                    yield s
        if p is fn:
            break
        child = p


# --------------------------------------------------------------------------- def-use of locals


class Defs:
    """bindings of the local names of one function: name -> list of value expressions (None = not a plain binding:
    augmented assignment, loop / with / except target, unpacking of a non-tuple)"""

    def __init__(self, fn: ast.AST):
        self.fn = fn
        self.params: set[str] = set()
        a = fn.args  # type: ignore[attr-defined]
        for x in a.posonlyargs + a.args + a.kwonlyargs + ([a.vararg] if a.vararg else []) + ([a.kwarg] if a.kwarg else []):
            self.params.add(x.arg)
        self.defs: dict[str, list[Optional[ast.expr]]] = {}
        self.aug: dict[str, list[ast.AugAssign]] = {}
        for n in own_nodes(fn):
            if isinstance(n, ast.Assign):
                for t in n.targets:
                    self._bind(t, n.value)
            elif isinstance(n, ast.AnnAssign) and n.value is not None:
                self._bind(n.target, n.value)
            elif isinstance(n, ast.AugAssign):
                self._bind(n.target, None)
                if isinstance(n.target, ast.Name):
                    self.aug.setdefault(n.target.id, []).append(n)
            elif isinstance(n, (ast.For, ast.AsyncFor)):
                self._bind(n.target, None)
            elif isinstance(n, ast.NamedExpr):
                self._bind(n.target, n.value)
            elif isinstance(n, (ast.With, ast.AsyncWith)):
                for it in n.items:
                    if it.optional_vars is not None:
                        self._bind(it.optional_vars, None)

    def _bind(self, t: ast.AST, v: Optional[ast.expr]) -> None:
        if isinstance(t, ast.Name):
            self.defs.setdefault(t.id, []).append(v)
        elif isinstance(t, (ast.Tuple, ast.List)):
            if isinstance(v, (ast.Tuple, ast.List)) and len(v.elts) == len(t.elts) and not any(isinstance(e, ast.Starred) for e in list(t.elts) + list(v.elts)):
                for ti, vi in zip(t.elts, v.elts):
                    self._bind(ti, vi)
            else:
                for x in ast.walk(t):
                    if isinstance(x, ast.Name):
                        self.defs.setdefault(x.id, []).append(None)

    def values(self, name: str) -> list[Optional[ast.expr]]:
        return self.defs.get(name, [])

    def resolve(self, e: ast.expr) -> ast.expr:
        """follow a local name that has exactly one plain binding (and is not a parameter) to the bound expression"""
        for _ in range(8):
            if isinstance(e, ast.Name) and e.id not in self.params:
                v = self.defs.get(e.id, [])
                if len(v) == 1 and v[0] is not None:
                    e = v[0]
                    continue
            break
        return e

    def expand(self, e: ast.expr) -> str:
        """normalised text of e with every singly-bound local name replaced by its definition (recursively): a text that
        does not change when locals are renamed or an expression is given a name"""
        d = self

        class T(ast.NodeTransformer):
            depth = 0

            def visit_Name(self, n: ast.Name):  # noqa: N802
                if isinstance(n.ctx, ast.Load) and n.id not in d.params and self.depth < 8:
                    v = d.defs.get(n.id, [])
                    if len(v) == 1 and v[0] is not None:
                        self.depth += 1
                        import copy

                        r = self.visit(copy.deepcopy(v[0]))
                        self.depth -= 1
                        return r
                return n

        import copy

        return norm(T().visit(copy.deepcopy(e)))


def mentions_attr(e: ast.AST, who: str, attrs: tuple[str, ...]) -> bool:
    """e reads <who>.<attr> for one of attrs"""
    for x in ast.walk(e):
        if isinstance(x, ast.Attribute) and x.attr in attrs and isinstance(x.value, ast.Name) and x.value.id == who:
            return True
    return False


# --------------------------------------------------------------------------- constant folding (module level)


def module_assigns(mod: Module) -> dict[str, list[ast.expr]]:
    """module-level `NAME = expr` / `NAME: T = expr` bindings, also those under a top-level if/else/try"""
    out: dict[str, list[ast.expr]] = {}

    def scan(stmts: list[ast.stmt]) -> None:
        for st in stmts:
            if isinstance(st, ast.Assign):
                for t in st.targets:
                    if isinstance(t, ast.Name):
                        out.setdefault(t.id, []).append(st.value)
            elif isinstance(st, ast.AnnAssign) and st.value is not None and isinstance(st.target, ast.Name):
                out.setdefault(st.target.id, []).append(st.value)
            elif isinstance(st, ast.If):
                scan(st.body)
                scan(st.orelse)
            elif isinstance(st, ast.Try):
                scan(st.body)
                for h in st.handlers:
                    scan(h.body)
                scan(st.orelse)

    scan(mod.tree.body)
    return out


def imported_from(repo: Repo, mod: Module, name: str) -> Optional[tuple[Module, str]]:
    """(module, original name) when `name` is bound in mod by `from X import orig as name` and X is a module of the package"""
    for st in ast.walk(mod.tree):
        if isinstance(st, ast.ImportFrom):
            for a in st.names:
                if (a.asname or a.name) == name:
                    if st.level:
                        base = mod.name.split(".")
                        if not mod.rel.endswith("__init__.py"):
                            base = base[:-1]
                        base = base[: len(base) - (st.level - 1)]
                        target = ".".join(base + ([st.module] if st.module else []))
                    else:
                        target = st.module or ""
                    m = repo.modules.get(target)
                    if m is not None:
                        return m, a.name
    return None


def fold_str(repo: Repo, mod: Module, e: ast.AST, wrappers: tuple[str, ...] = ("URIRef", "str"), depth: int = 0) -> Optional[str]:
    """value of a constant string expression built from literals, `+`, f-strings, module-level names (followed through
    `from ... import`) and the transparent wrappers (URIRef(x) is the string x); None when it is not such an expression"""
    if depth > 12:
        return None
    if isinstance(e, ast.Constant):
        return e.value if isinstance(e.value, str) else None
    if isinstance(e, ast.BinOp) and isinstance(e.op, ast.Add):
        l = fold_str(repo, mod, e.left, wrappers, depth + 1)
        r = fold_str(repo, mod, e.right, wrappers, depth + 1)
        return l + r if l is not None and r is not None else None
    if isinstance(e, ast.JoinedStr):
        parts = []
        for v in e.values:
            if isinstance(v, ast.FormattedValue):
                if v.format_spec is not None or v.conversion != -1:
                    return None
                s = fold_str(repo, mod, v.value, wrappers, depth + 1)
            else:
                s = fold_str(repo, mod, v, wrappers, depth + 1)
            if s is None:
                return None
            parts.append(s)
        return "".join(parts)
    if isinstance(e, ast.Call) and isinstance(e.func, ast.Name) and e.func.id in wrappers and len(e.args) == 1 and not e.keywords:
        return fold_str(repo, mod, e.args[0], wrappers, depth + 1)
    if isinstance(e, ast.Name):
        vals = module_assigns(mod).get(e.id)
        if vals:
            got = {fold_str(repo, mod, v, wrappers, depth + 1) for v in vals}
            return got.pop() if len(got) == 1 else None
        imp = imported_from(repo, mod, e.id)
        if imp is not None:
            return fold_str(repo, imp[0], ast.Name(id=imp[1], ctx=ast.Load()), wrappers, depth + 1)
    return None


def root_callable(repo: Repo, mod: Module, e: ast.AST, depth: int = 0) -> tuple[str, Optional[Module]]:
    """what a module-level name used as a callable finally is: follows `a = b` aliases and `from X import a` into the
    package; returns (name, defining module or None for something from outside the package / a builtin)"""
    if depth > 8 or not isinstance(e, ast.Name):
        return norm(e), None
    if e.id in mod.defs:
        return e.id, mod
    vals = module_assigns(mod).get(e.id)
    if vals and len(vals) == 1 and isinstance(vals[0], ast.Name):
        return root_callable(repo, mod, vals[0], depth + 1)
    imp = imported_from(repo, mod, e.id)
    if imp is not None:
        return root_callable(repo, imp[0], ast.Name(id=imp[1], ctx=ast.Load()), depth + 1)
    # imported from outside the package under another name?
    for st in ast.walk(mod.tree):
        if isinstance(st, ast.ImportFrom):
            for a in st.names:
                if (a.asname or a.name) == e.id:
                    return "%s.%s" % (st.module, a.name), None
    return e.id, None


def reaching_values(mod: Module, fn: ast.AST, node: ast.AST, name: str) -> list[Optional[ast.expr]]:
    """values `name` may hold at node, from the bindings in the statements that precede node in the enclosing statement
    lists (innermost list first): all bindings met up to and including the nearest unconditional one (a direct sibling
    statement); bindings nested in earlier compound statements count as conditional.  None = augmented / opaque binding.
    Loop-free code assumed (callers use it on straight-line / if-structured functions)."""

    def binds(st: ast.AST) -> list[Optional[ast.expr]]:
        out: list[Optional[ast.expr]] = []
        if isinstance(st, ast.Assign):
            for t in st.targets:
                if isinstance(t, ast.Name) and t.id == name:
                    out.append(st.value)
                elif isinstance(t, (ast.Tuple, ast.List)):
                    for i, x in enumerate(t.elts):
                        if isinstance(x, ast.Name) and x.id == name:
                            ok = isinstance(st.value, (ast.Tuple, ast.List)) and len(st.value.elts) == len(t.elts)
                            out.append(st.value.elts[i] if ok else None)
        elif isinstance(st, ast.AnnAssign) and isinstance(st.target, ast.Name) and st.target.id == name and st.value is not None:
            out.append(st.value)
        elif isinstance(st, ast.AugAssign) and isinstance(st.target, ast.Name) and st.target.id == name:
            out.append(None)
        return out

    found: list[Optional[ast.expr]] = []
    child = node
    for p in mod.parents(node):
        for field in ("body", "orelse", "finalbody"):
            lst = getattr(p, field, None)
            if isinstance(lst, list) and any(child is s for s in lst):
                before = []
                for s in lst:
                    if s is child:
                        break
                    before.append(s)
                for s in reversed(before):
                    direct = binds(s)
                    if direct:
                        found += direct
                        if not isinstance(s, ast.AugAssign):
                            return found
                        continue
                    for x in ast.walk(s):
                        if x is not s:
                            found += binds(x)
        if p is fn:
            break
        child = p
    return found
