"""Helpers of checks/c07.py (later rules): syntactic path conditions, one-step def-use of local names,
constant folding of module-level string expressions.  Pure `ast`; nothing of the analysed tree is executed."""
from __future__ import annotations

import ast
from typing import Iterator, Optional

from .core import Module, Repo, norm, own_nodes


# --------------------------------------------------------------------------- path conditions


def path_conds(mod: Module, fn: ast.AST, node: ast.AST) -> list[tuple[ast.expr, bool]]:
    """(test, polarity) of every `if` statement between fn and node, outermost first: polarity True when node sits in the
    body, False when it sits in the orelse (so an `elif` arm carries the negated tests of the arms before it)."""
    out: list[tuple[ast.expr, bool]] = []
    child = node
    for p in mod.parents(node):
        if isinstance(p, ast.If):
            if any(child is s for s in p.body):
                out.append((p.test, True))
            elif any(child is s for s in p.orelse):
                out.append((p.test, False))
        if p is fn:
            break
        child = p
    out.reverse()
    return out


def atoms(conds: list[tuple[ast.expr, bool]]) -> list[tuple[ast.expr, bool]]:
    """flatten a conjunction of (test, polarity) into atoms: `a and b` held true gives a, b; `a or b` held false gives
    not a, not b; `not x` flips."""
    out: list[tuple[ast.expr, bool]] = []

    def add(e: ast.expr, pol: bool) -> None:
        if isinstance(e, ast.UnaryOp) and isinstance(e.op, ast.Not):
            add(e.operand, not pol)
        elif isinstance(e, ast.BoolOp) and ((isinstance(e.op, ast.And) and pol) or (isinstance(e.op, ast.Or) and not pol)):
            for v in e.values:
                add(v, pol)
        else:
            out.append((e, pol))

    for e, pol in conds:
        add(e, pol)
    return out


def always_leaves(stmts: list[ast.stmt]) -> bool:
    """every path through the statement list ends in return / raise / continue / break"""
    if not stmts:
        return False
    last = stmts[-1]
    if isinstance(last, (ast.Return, ast.Raise, ast.Continue, ast.Break)):
        return True
    if isinstance(last, ast.If):
        return always_leaves(last.body) and always_leaves(last.orelse)
    return False


def earlier_siblings(mod: Module, fn: ast.AST, node: ast.AST) -> Iterator[ast.stmt]:
    """statements that come before `node` in a statement list enclosing it (at every nesting level up to fn): what has
    been executed, or left through, before control reaches node (no loops assumed by the callers)"""
    child = node
    for p in mod.parents(node):
        for field in ("body", "orelse", "finalbody"):
            lst = getattr(p, field, None)
            if isinstance(lst, list) and any(child is s for s in lst):
                for s in lst:
                    if s is child:
                        break
                    yield s
        if p is fn:
            break
        child = p


# --------------------------------------------------------------------------- def-use of locals


class Defs:
    """bindings of the local names of one function: name -> list of value expressions (None = not a plain binding:
    augmented assignment, loop / with / except target, unpacking of a non-tuple)"""

    def __init__(self, fn: ast.AST):
        self.fn = fn
        self.params: set[str] = set()
        a = fn.args  # type: ignore[attr-defined]
        for x in a.posonlyargs + a.args + a.kwonlyargs + ([a.vararg] if a.vararg else []) + ([a.kwarg] if a.kwarg else []):
            self.params.add(x.arg)
        self.defs: dict[str, list[Optional[ast.expr]]] = {}
        self.aug: dict[str, list[ast.AugAssign]] = {}
        for n in own_nodes(fn):
            if isinstance(n, ast.Assign):
                for t in n.targets:
                    self._bind(t, n.value)
            elif isinstance(n, ast.AnnAssign) and n.value is not None:
                self._bind(n.target, n.value)
            elif isinstance(n, ast.AugAssign):
                self._bind(n.target, None)
                if isinstance(n.target, ast.Name):
                    self.aug.setdefault(n.target.id, []).append(n)
            elif isinstance(n, (ast.For, ast.AsyncFor)):
                self._bind(n.target, None)
            elif isinstance(n, ast.NamedExpr):
                self._bind(n.target, n.value)
            elif isinstance(n, (ast.With, ast.AsyncWith)):
                for it in n.items:
                    if it.optional_vars is not None:
                        self._bind(it.optional_vars, None)

    def _bind(self, t: ast.AST, v: Optional[ast.expr]) -> None:
        if isinstance(t, ast.Name):
            self.defs.setdefault(t.id, []).append(v)
        elif isinstance(t, (ast.Tuple, ast.List)):
            if isinstance(v, (ast.Tuple, ast.List)) and len(v.elts) == len(t.elts) and not any(isinstance(e, ast.Starred) for e in list(t.elts) + list(v.elts)):
                for ti, vi in zip(t.elts, v.elts):
                    self._bind(ti, vi)
            else:
                for x in ast.walk(t):
                    if isinstance(x, ast.Name):
                        self.defs.setdefault(x.id, []).append(None)

    def values(self, name: str) -> list[Optional[ast.expr]]:
        return self.defs.get(name, [])

    def resolve(self, e: ast.expr) -> ast.expr:
        """follow a local name that has exactly one plain binding (and is not a parameter) to the bound expression"""
        for _ in range(8):
            if isinstance(e, ast.Name) and e.id not in self.params:
                v = self.defs.get(e.id, [])
                if len(v) == 1 and v[0] is not None:
                    e = v[0]
                    continue
            break
        return e

    def expand(self, e: ast.expr) -> str:
        """normalised text of e with every singly-bound local name replaced by its definition (recursively): a text that
        does not change when locals are renamed or an expression is given a name"""
        d = self

        class T(ast.NodeTransformer):
            depth = 0

            def visit_Name(self, n: ast.Name):  # noqa: N802
                if isinstance(n.ctx, ast.Load) and n.id not in d.params and self.depth < 8:
                    v = d.defs.get(n.id, [])
                    if len(v) == 1 and v[0] is not None:
                        self.depth += 1
                        import copy

                        r = self.visit(copy.deepcopy(v[0]))
                        self.depth -= 1
                        return r
                return n

        import copy

        return norm(T().visit(copy.deepcopy(e)))


def mentions_attr(e: ast.AST, who: str, attrs: tuple[str, ...]) -> bool:
    """e reads <who>.<attr> for one of attrs"""
    for x in ast.walk(e):
        if isinstance(x, ast.Attribute) and x.attr in attrs and isinstance(x.value, ast.Name) and x.value.id == who:
            return True
    return False


# --------------------------------------------------------------------------- constant folding (module level)


def module_assigns(mod: Module) -> dict[str, list[ast.expr]]:
    """module-level `NAME = expr` / `NAME: T = expr` bindings, also those under a top-level if/else/try"""
    out: dict[str, list[ast.expr]] = {}

    def scan(stmts: list[ast.stmt]) -> None:
        for st in stmts:
            if isinstance(st, ast.Assign):
                for t in st.targets:
                    if isinstance(t, ast.Name):
                        out.setdefault(t.id, []).append(st.value)
            elif isinstance(st, ast.AnnAssign) and st.value is not None and isinstance(st.target, ast.Name):
                out.setdefault(st.target.id, []).append(st.value)
            elif isinstance(st, ast.If):
                scan(st.body)
                scan(st.orelse)
            elif isinstance(st, ast.Try):
                scan(st.body)
                for h in st.handlers:
                    scan(h.body)
                scan(st.orelse)

    scan(mod.tree.body)
    return out


def imported_from(repo: Repo, mod: Module, name: str) -> Optional[tuple[Module, str]]:
    """(module, original name) when `name` is bound in mod by `from X import orig as name` and X is a module of the package"""
    for st in ast.walk(mod.tree):
        if isinstance(st, ast.ImportFrom):
            for a in st.names:
                if (a.asname or a.name) == name:
                    if st.level:
                        base = mod.name.split(".")
                        if not mod.rel.endswith("__init__.py"):
                            base = base[:-1]
                        base = base[: len(base) - (st.level - 1)]
                        target = ".".join(base + ([st.module] if st.module else []))
                    else:
                        target = st.module or ""
                    m = repo.modules.get(target)
                    if m is not None:
                        return m, a.name
    return None


def fold_str(repo: Repo, mod: Module, e: ast.AST, wrappers: tuple[str, ...] = ("URIRef", "str"), depth: int = 0) -> Optional[str]:
    """value of a constant string expression built from literals, `+`, f-strings, module-level names (followed through
    `from ... import`) and the transparent wrappers (URIRef(x) is the string x); None when it is not such an expression"""
    if depth > 12:
        return None
    if isinstance(e, ast.Constant):
        return e.value if isinstance(e.value, str) else None
    if isinstance(e, ast.BinOp) and isinstance(e.op, ast.Add):
        l = fold_str(repo, mod, e.left, wrappers, depth + 1)
        r = fold_str(repo, mod, e.right, wrappers, depth + 1)
        return l + r if l is not None and r is not None else None
    if isinstance(e, ast.JoinedStr):
        parts = []
        for v in e.values:
            if isinstance(v, ast.FormattedValue):
                if v.format_spec is not None or v.conversion != -1:
                    return None
                s = fold_str(repo, mod, v.value, wrappers, depth + 1)
            else:
                s = fold_str(repo, mod, v, wrappers, depth + 1)
            if s is None:
                return None
            parts.append(s)
        return "".join(parts)
    if isinstance(e, ast.Call) and isinstance(e.func, ast.Name) and e.func.id in wrappers and len(e.args) == 1 and not e.keywords:
        return fold_str(repo, mod, e.args[0], wrappers, depth + 1)
    if isinstance(e, ast.Name):
        vals = module_assigns(mod).get(e.id)
        if vals:
            got = {fold_str(repo, mod, v, wrappers, depth + 1) for v in vals}
            return got.pop() if len(got) == 1 else None
        imp = imported_from(repo, mod, e.id)
        if imp is not None:
            return fold_str(repo, imp[0], ast.Name(id=imp[1], ctx=ast.Load()), wrappers, depth + 1)
    return None


def root_callable(repo: Repo, mod: Module, e: ast.AST, depth: int = 0) -> tuple[str, Optional[Module]]:
    """what a module-level name used as a callable finally is: follows `a = b` aliases and `from X import a` into the
    package; returns (name, defining module or None for something from outside the package / a builtin)"""
    if depth > 8 or not isinstance(e, ast.Name):
        return norm(e), None
    if e.id in mod.defs:
        return e.id, mod
    vals = module_assigns(mod).get(e.id)
    if vals and len(vals) == 1 and isinstance(vals[0], ast.Name):
        return root_callable(repo, mod, vals[0], depth + 1)
    imp = imported_from(repo, mod, e.id)
    if imp is not None:
        return root_callable(repo, imp[0], ast.Name(id=imp[1], ctx=ast.Load()), depth + 1)
    # imported from outside the package under another name?
    for st in ast.walk(mod.tree):
        if isinstance(st, ast.ImportFrom):
            for a in st.names:
                if (a.asname or a.name) == e.id:
                    return "%s.%s" % (st.module, a.name), None
    return e.id, None


def reaching_values(mod: Module, fn: ast.AST, node: ast.AST, name: str) -> list[Optional[ast.expr]]:
    """values `name` may hold at node, from the bindings in the statements that precede node in the enclosing statement
    lists (innermost list first): all bindings met up to and including the nearest unconditional one (a direct sibling
    statement); bindings nested in earlier compound statements count as conditional.  None = augmented / opaque binding.
    Loop-free code assumed (callers use it on straight-line / if-structured functions)."""

    def binds(st: ast.AST) -> list[Optional[ast.expr]]:
        out: list[Optional[ast.expr]] = []
        if isinstance(st, ast.Assign):
            for t in st.targets:
                if isinstance(t, ast.Name) and t.id == name:
                    out.append(st.value)
                elif isinstance(t, (ast.Tuple, ast.List)):
                    for i, x in enumerate(t.elts):
                        if isinstance(x, ast.Name) and x.id == name:
                            ok = isinstance(st.value, (ast.Tuple, ast.List)) and len(st.value.elts) == len(t.elts)
                            out.append(st.value.elts[i] if ok else None)
        elif isinstance(st, ast.AnnAssign) and isinstance(st.target, ast.Name) and st.target.id == name and st.value is not None:
            out.append(st.value)
        elif isinstance(st, ast.AugAssign) and isinstance(st.target, ast.Name) and st.target.id == name:
            out.append(None)
        return out

    found: list[Optional[ast.expr]] = []
    child = node
    for p in mod.parents(node):
        for field in ("body", "orelse", "finalbody"):
            lst = getattr(p, field, None)
            if isinstance(lst, list) and any(child is s for s in lst):
                before = []
                for s in lst:
                    if s is child:
                        break
                    before.append(s)
                for s in reversed(before):
                    direct = binds(s)
                    if direct:
                        found += direct
                        if not isinstance(s, ast.AugAssign):
                            return found
                        continue
                    for x in ast.walk(s):
                        if x is not s:
                            found += binds(x)
        if p is fn:
            break
        child = p
    return found


# =========================================================================== helpers of rules (r) (s) (t)
# compiled regular expressions as constants of the analysed source (data, evaluated with the stdlib `re` of the checker)


def _re_flags(e: Optional[ast.AST]) -> Optional[int]:
    """value of a flags expression built from re.X / re.ASCII / ... and `|`; None when it is something else"""
    import re as _re

    if e is None:
        return 0
    if isinstance(e, ast.BinOp) and isinstance(e.op, ast.BitOr):
        l, r = _re_flags(e.left), _re_flags(e.right)
        return None if l is None or r is None else l | r
    if isinstance(e, ast.Constant) and isinstance(e.value, int) and not isinstance(e.value, bool):
        return e.value
    nm = e.attr if isinstance(e, ast.Attribute) and isinstance(e.value, ast.Name) and e.value.id == "re" else e.id if isinstance(e, ast.Name) else None
    if nm is not None and isinstance(getattr(_re, nm, None), _re.RegexFlag):
        return int(getattr(_re, nm))
    return None


def const_pattern(repo: Repo, mod: Module, e: ast.AST, depth: int = 0) -> Optional[tuple[str, int]]:
    """(pattern text, flags) when e denotes a compiled str pattern: `re.compile(<constant>[, flags])` written in place or a
    module-level name (followed through `from X import`) bound to exactly one such call; None otherwise"""
    if depth > 8:
        return None
    if isinstance(e, ast.Call) and norm(e.func) in ("re.compile", "compile") and e.args:
        txt = fold_str(repo, mod, e.args[0])
        fl = _re_flags(e.args[1] if len(e.args) > 1 else next((k.value for k in e.keywords if k.arg == "flags"), None))
        return None if txt is None or fl is None else (txt, fl)
    if isinstance(e, ast.Name):
        vals = module_assigns(mod).get(e.id)
        if vals:
            got = {const_pattern(repo, mod, v, depth + 1) for v in vals}
            return got.pop() if len(got) == 1 else None
        imp = imported_from(repo, mod, e.id)
        if imp is not None:
            return const_pattern(repo, imp[0], ast.Name(id=imp[1], ctx=ast.Load()), depth + 1)
    return None


def pattern_first_chars(pattern: str, flags: int = 0) -> set[Optional[int]]:
    """code points a match of the pattern can begin with, None standing for 'something that is not one literal character'
    (a class, a repeat, ...): {92} says every match begins with a backslash"""
    import re._parser as sre  # type: ignore[import-not-found]

    def first(items) -> set[Optional[int]]:
        for op, av in items:
            name = str(op)
            if name == "LITERAL":
                return {av}
            if name == "AT":
                continue
            if name == "SUBPATTERN":
                return first(av[3])
            if name == "BRANCH":
                out: set[Optional[int]] = set()
                for alt in av[1]:
                    out |= first(alt)
                return out
            return {None}
        return {None}

    return first(sre.parse(pattern, flags))


def pattern_ends_at_string_end(pattern: str, flags: int = 0) -> bool:
    r"""the pattern's last element is \Z: match() of it is a full match"""
    import re._parser as sre  # type: ignore[import-not-found]

    items = list(sre.parse(pattern, flags))
    return bool(items) and str(items[-1][0]) == "AT" and str(items[-1][1]) == "AT_END_STRING"


def escape_sequence_replaces(fn: ast.AST) -> list[ast.Call]:
    """x.replace(A, B) calls of fn where the constant A is an escape sequence: a backslash followed by at least one more character"""
    out = []
    for c in own_nodes(fn):
        if isinstance(c, ast.Call) and isinstance(c.func, ast.Attribute) and c.func.attr == "replace" and len(c.args) >= 2 \
                and isinstance(c.args[0], ast.Constant) and isinstance(c.args[0].value, (str, bytes)):
            a = c.args[0].value
            if len(a) >= 2 and a[:1] in ("\\", b"\\"):
                out.append(c)
    return out


def backslash_led_subs(repo: Repo, mod: Module, fn: ast.AST) -> list[tuple[ast.Call, str, int]]:
    r"""<compiled pattern>.sub/subn(repl, text) and re.sub/subn(<constant>, repl, text) calls of fn whose pattern can only match
    at a backslash: one left-to-right substitution pass over escape sequences; (call, pattern text, flags)"""
    out = []
    for c in own_nodes(fn):
        if not (isinstance(c, ast.Call) and isinstance(c.func, ast.Attribute) and c.func.attr in ("sub", "subn")):
            continue
        pat: Optional[tuple[str, int]]
        if isinstance(c.func.value, ast.Name) and c.func.value.id == "re" and c.args:
            txt = fold_str(repo, mod, c.args[0])
            pat = (txt, _re_flags(next((k.value for k in c.keywords if k.arg == "flags"), None)) or 0) if txt is not None else const_pattern(repo, mod, c.args[0])
        else:
            pat = const_pattern(repo, mod, c.func.value)
        if pat is None:
            continue
        try:
            fc = pattern_first_chars(pat[0], pat[1])
        except Exception:
            continue
        if fc == {92}:
            out.append((c, pat[0], pat[1]))
    return out


def unicode_escape_decodes(fn: ast.AST) -> list[ast.Call]:
    """x.decode('unicode-escape') / codecs.decode(x, 'unicode_escape') calls of fn"""
    out = []
    for c in own_nodes(fn):
        if isinstance(c, ast.Call) and isinstance(c.func, ast.Attribute) and c.func.attr == "decode":
            for a in list(c.args) + [k.value for k in c.keywords]:
                if isinstance(a, ast.Constant) and isinstance(a.value, str) and a.value.lower().replace("_", "-") in ("unicode-escape", "raw-unicode-escape"):
                    out.append(c)
    return out


def referenced_identifiers(repo: Repo) -> set[str]:
    """every identifier the package reads, calls or imports: Name loads, attribute names, imported names, strings of __all__"""
    out: set[str] = set()
    for m in repo.modules.values():
        for n in ast.walk(m.tree):
            if isinstance(n, ast.Name) and isinstance(n.ctx, ast.Load):
                out.add(n.id)
            elif isinstance(n, ast.Attribute):
                out.add(n.attr)
            elif isinstance(n, (ast.Import, ast.ImportFrom)):
                out |= {a.name.rsplit(".", 1)[-1] for a in n.names}
            elif isinstance(n, ast.Assign) and any(isinstance(t, ast.Name) and t.id == "__all__" for t in n.targets):
                out |= {x.value for x in ast.walk(n.value) if isinstance(x, ast.Constant) and isinstance(x.value, str)}
    return out


def backward_slice(D: Defs, e: ast.AST, limit: int = 64) -> list[ast.AST]:
    """e and every expression bound (by any binding) to a local name e depends on, transitively: the expressions the value
    of e was computed by inside the function"""
    out: list[ast.AST] = []
    seen: set[str] = set()
    work = [e]
    while work and len(out) < limit:
        x = work.pop()
        out.append(x)
        for n in ast.walk(x):
            if isinstance(n, ast.Name) and n.id not in seen:
                seen.add(n.id)
                for v in D.values(n.id):
                    if v is not None:
                        work.append(v)
                for a in D.aug.get(n.id, []):
                    work.append(a.value)
    return out


def enclosing_function(mod: Module, node: ast.AST) -> ast.AST:
    """innermost def / lambda around node, the module tree when there is none"""
    for p in mod.parents(node):
        if isinstance(p, (ast.FunctionDef, ast.AsyncFunctionDef, ast.Lambda)):
            return p
    return mod.tree


def branch_facts(mod: Module, fn: ast.AST, node: ast.AST) -> list[tuple[ast.expr, bool]]:
    """(test, truth value) pairs known where node runs: the enclosing if-arms, plus every earlier sibling `if` one of
    whose sides always leaves (return / raise / continue / break) - control came through the other side"""
    facts = list(path_conds(mod, fn, node))
    for st in earlier_siblings(mod, fn, node):
        if isinstance(st, ast.If):
            if always_leaves(st.body) and not always_leaves(st.orelse):
                facts.append((st.test, False))
            elif always_leaves(st.orelse) and not always_leaves(st.body):
                facts.append((st.test, True))
    return facts
