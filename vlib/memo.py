"""E7 - memo (cache) key completeness.

A memo site is a dict-valued instance attribute D of a class and a method that both looks a key up in D (`K in self.D`, `self.D[K]` load,
`self.D.get(K)`) and stores `self.D[K] = V` under the same key expression (a table that a method merely fills is not a memo).  The memoised value V is sliced backwards through the local assignments of the
storing function; every instance attribute `self.A` it reads is an input of the memo.  The rule:

    an input A that is re-bound after construction (some method other than the initialisers assigns self.A) is part of the key K,
    or every method that re-binds A also invalidates D (assigns self.D, calls self.D.clear(), deletes from it, or calls a method of
    the class that does).

Otherwise a value computed under the old A is served after A changed.  Inputs reached only through method calls on other objects are
not seen (this is a necessary condition, not a proof of cache coherence).
"""
from __future__ import annotations

import ast
from typing import Iterator

from .core import norm, own_nodes

INIT_NAMES = {"__init__", "__new__", "reset", "__post_init__", "__setstate__"}


def _self_attr(n: ast.AST) -> str | None:
    if isinstance(n, ast.Attribute) and isinstance(n.value, ast.Name) and n.value.id == "self":
        return n.attr
    return None


def _slice_attrs(f: ast.AST, exprs: list[ast.AST], depth: int = 4, skip: ast.AST | None = None) -> set[str]:
    """self attributes read by the expressions, following local name definitions inside f"""
    attrs: set[str] = set()
    seen_names: set[str] = set()
    work = list(exprs)
    for _ in range(depth):
        nxt: list[ast.AST] = []
        for e in work:
            for n in ast.walk(e):
                a = _self_attr(n)
                if a is not None and isinstance(n.ctx, ast.Load):
                    attrs.add(a)
                if isinstance(n, ast.Name) and isinstance(n.ctx, ast.Load) and n.id not in seen_names:
                    seen_names.add(n.id)
                    for d in own_nodes(f):
                        if skip is not None and getattr(d, "value", None) is skip:
                            continue  # the memo store itself does not define its key
                        if isinstance(d, ast.Assign) and any(isinstance(t, ast.Name) and t.id == n.id or (isinstance(t, (ast.Tuple, ast.List)) and any(isinstance(x, ast.Name) and x.id == n.id for x in t.elts)) for t in d.targets):
                            nxt.append(d.value)
                        elif isinstance(d, (ast.AnnAssign, ast.AugAssign)) and isinstance(d.target, ast.Name) and d.target.id == n.id and d.value is not None:
                            nxt.append(d.value)
                        elif isinstance(d, (ast.For, ast.AsyncFor)) and any(isinstance(x, ast.Name) and x.id == n.id for x in ast.walk(d.target)):
                            nxt.append(d.iter)
        work = nxt
        if not work:
            break
    return attrs


def memo_sites(cls: ast.ClassDef) -> Iterator[dict]:
    methods = {m.name: m for m in cls.body if isinstance(m, (ast.FunctionDef, ast.AsyncFunctionDef))}
    # dict-valued attributes
    dict_attrs: set[str] = set()
    for m in methods.values():
        for n in own_nodes(m):
            if isinstance(n, (ast.Assign, ast.AnnAssign)):
                tgts = n.targets if isinstance(n, ast.Assign) else [n.target]
                v = n.value
                if v is not None and (isinstance(v, ast.Dict) and not v.keys or (isinstance(v, ast.Call) and norm(v.func) in ("dict", "defaultdict", "OrderedDict", "WeakValueDictionary", "weakref.WeakValueDictionary"))):
                    for t in tgts:
                        a = _self_attr(t)
                        if a is not None:
                            dict_attrs.add(a)
    for d in sorted(dict_attrs):
        stores, lookups = [], []
        for mname, m in methods.items():
            for n in own_nodes(m):
                if isinstance(n, ast.Subscript) and _self_attr(n.value) == d:
                    par_store = isinstance(n.ctx, ast.Store)
                    (stores if par_store else lookups).append((mname, m, n))
                if isinstance(n, ast.Compare) and len(n.ops) == 1 and isinstance(n.ops[0], (ast.In, ast.NotIn)) and _self_attr(n.comparators[0]) == d:
                    lookups.append((mname, m, n))
                if isinstance(n, ast.Call) and isinstance(n.func, ast.Attribute) and n.func.attr in ("get", "setdefault") and _self_attr(n.func.value) == d:
                    lookups.append((mname, m, n))
        if not stores or not lookups:
            continue
        for mname, m, st in stores:
            # the assignment statement that owns the store
            val = None
            for n in own_nodes(m):
                if isinstance(n, ast.Assign) and any(t is st for t in n.targets):
                    val = n.value
            if val is None:
                continue
            # a memo (as opposed to a table that is merely filled here): the storing function itself looks the same key up in D
            k = norm(st.slice)

            def same_key(n: ast.AST) -> bool:
                if isinstance(n, ast.Subscript):
                    return norm(n.slice) == k
                if isinstance(n, ast.Compare):
                    return norm(n.left) == k
                if isinstance(n, ast.Call):
                    return bool(n.args) and norm(n.args[0]) == k
                return False

            if not any(lm is m and same_key(ln) for _, lm, ln in lookups):
                continue
            yield {"attr": d, "method": mname, "fn": m, "store": st, "key": st.slice, "value": val, "methods": methods}


def check_site(site: dict) -> list[tuple[str, str, ast.AST]]:
    """-> list of (input attr, rebinding method, node) that leave the memo stale"""
    m, methods, d = site["fn"], site["methods"], site["attr"]
    inputs = _slice_attrs(m, [site["value"]]) - {d}
    in_key = _slice_attrs(m, [site["key"]], skip=site["value"])
    # methods that invalidate D (directly or through one call level)
    def invalidates(fn: ast.AST, depth: int = 0) -> bool:
        for n in own_nodes(fn):
            if isinstance(n, (ast.Assign, ast.AnnAssign)):
                tgts = n.targets if isinstance(n, ast.Assign) else [n.target]
                if any(_self_attr(t) == d for t in tgts):
                    return True
            if isinstance(n, ast.Call) and isinstance(n.func, ast.Attribute):
                if n.func.attr in ("clear", "pop", "popitem") and _self_attr(n.func.value) == d:
                    return True
                if depth < 2 and isinstance(n.func.value, ast.Name) and n.func.value.id == "self" and n.func.attr in methods and methods[n.func.attr] is not fn:
                    if invalidates(methods[n.func.attr], depth + 1):
                        return True
            if isinstance(n, ast.Delete) and any(isinstance(t, ast.Subscript) and _self_attr(t.value) == d for t in n.targets):
                return True
        return False

    out = []
    for a in sorted(inputs - in_key):
        for mname, fn in methods.items():
            if mname in INIT_NAMES:
                continue
            for n in own_nodes(fn):
                tgts = []
                if isinstance(n, ast.Assign):
                    tgts = n.targets
                elif isinstance(n, (ast.AnnAssign, ast.AugAssign)):
                    tgts = [n.target]
                flat = []
                for t in tgts:
                    flat.extend(t.elts if isinstance(t, (ast.Tuple, ast.List)) else [t])
                if any(_self_attr(t) == a for t in flat):
                    if not invalidates(fn):
                        out.append((a, mname, n))
    return out


def scan(repo, rep, rule: str, modnames) -> int:
    """report every memo site of the given modules under `rule`; returns the number of sites"""
    nsites = 0
    for modname in modnames:
        mod = repo.mod(modname)
        for n in ast.walk(mod.tree):
            if not isinstance(n, ast.ClassDef):
                continue
            for site in memo_sites(n):
                nsites += 1
                stale = check_site(site)
                where = "%s.%s" % (n.name, site["method"])
                if not stale:
                    rep.ob(rule, mod, where, "self.%s[%s] = %s" % (site["attr"], norm(site["key"])[:40], norm(site["value"])[:50]), True,
                           "every re-bound input is in the key or its re-binding invalidates the memo", node=site["store"])
                for a, mname, node in stale:
                    rep.ob(rule, mod, where, "self.%s[%s] depends on self.%s, re-bound in %s" % (site["attr"], norm(site["key"])[:40], a, mname), False,
                           "the memoised value is computed from self.%s, which is not part of the key; %s.%s re-binds self.%s without invalidating self.%s: after that the memo answers with values computed for the old %s" % (
                               a, n.name, mname, a, site["attr"], a), node=node)
    return nsites
