"""Helpers of the later C03 rules (checks/c03.py): branch facts that hold at a node, local def-use, and the
self-call graph of a class resolved through its MRO.  Pure `ast`; nothing of the analysed tree is executed."""
from __future__ import annotations

import ast
from typing import Iterator, Optional

from .core import AnalysisError, Module, Repo, norm, own_nodes

# --------------------------------------------------------------------------- branch facts


def terminates(stmts: list[ast.stmt]) -> bool:
    """the statement list never falls through (ends in return / raise / continue / break on every branch)"""
    if not stmts:
        return False
    last = stmts[-1]
    if isinstance(last, (ast.Return, ast.Raise, ast.Continue, ast.Break)):
        return True
    if isinstance(last, ast.If):
        return terminates(last.body) and terminates(last.orelse)
    return False


def _stored_names(stmts) -> set[str]:
    out: set[str] = set()
    for s in stmts:
        for n in ast.walk(s):
            if isinstance(n, ast.Name) and isinstance(n.ctx, (ast.Store, ast.Del)):
                out.add(n.id)
    return out


def _names(e: ast.AST) -> set[str]:
    return {n.id for n in ast.walk(e) if isinstance(n, ast.Name)}


def split_fact(test: ast.expr, pol: bool) -> Iterator[tuple[ast.expr, bool]]:
    """a fact and everything it implies structurally: `a and b` true -> a, b true; `a or b` false -> a, b false; `not a` flips"""
    yield test, pol
    if isinstance(test, ast.UnaryOp) and isinstance(test.op, ast.Not):
        yield from split_fact(test.operand, not pol)
    elif isinstance(test, ast.BoolOp):
        if (isinstance(test.op, ast.And) and pol) or (isinstance(test.op, ast.Or) and not pol):
            for v in test.values:
                yield from split_fact(v, pol)


def facts_at(mod: Module, fn: ast.AST, node: ast.AST) -> list[tuple[ast.expr, bool]]:
    """(expression, truth value) pairs known to hold whenever `node` is evaluated inside `fn`:
    * tests of the enclosing `if` / conditional expressions / earlier operands of an enclosing and/or,
    * tests of earlier sibling `if` statements one of whose branches never falls through (`if c: return` => not c afterwards).
    A fact is dropped when a local name it reads is re-bound between the test and the node."""
    raw: list[tuple[ast.expr, bool]] = []
    child: ast.AST = node
    for p in mod.parents(node):
        if isinstance(p, ast.If):
            if any(child is s for s in p.body):
                i = [k for k, s in enumerate(p.body) if s is child][0]
                if not (_names(p.test) & _stored_names(p.body[:i])):
                    raw.append((p.test, True))
            elif any(child is s for s in p.orelse):
                i = [k for k, s in enumerate(p.orelse) if s is child][0]
                if not (_names(p.test) & _stored_names(p.orelse[:i])):
                    raw.append((p.test, False))
        elif isinstance(p, ast.IfExp):
            if child is p.body:
                raw.append((p.test, True))
            elif child is p.orelse:
                raw.append((p.test, False))
        elif isinstance(p, ast.BoolOp):
            idx = [k for k, v in enumerate(p.values) if v is child]
            if idx:
                for v in p.values[: idx[0]]:
                    raw.append((v, isinstance(p.op, ast.And)))
        # earlier siblings in whatever statement list holds `child`
        for field in ("body", "orelse", "finalbody"):
            lst = getattr(p, field, None)
            if isinstance(lst, list) and any(child is s for s in lst):
                i = [k for k, s in enumerate(lst) if s is child][0]
                for j, s in enumerate(lst[:i]):
                    if not isinstance(s, ast.If):
                        continue
                    between = _stored_names(lst[j + 1 : i])
                    if _names(s.test) & between:
                        continue
                    if terminates(s.body) and not terminates(s.orelse):
                        if not (_names(s.test) & _stored_names(s.orelse)):
                            raw.append((s.test, False))
                    elif s.orelse and terminates(s.orelse) and not terminates(s.body):
                        if not (_names(s.test) & _stored_names(s.body)):
                            raw.append((s.test, True))
        if p is fn:
            break
        child = p
    out: list[tuple[ast.expr, bool]] = []
    for t, pol in raw:
        out.extend(split_fact(t, pol))
    return _with_flag_facts(mod, fn, out)


def _with_flag_facts(mod: Module, fn: ast.AST, facts: list[tuple[ast.expr, bool]], depth: int = 3) -> list[tuple[ast.expr, bool]]:
    """a fact about a flag - a local that fn binds in one place only, by a plain assignment outside any loop - says the same about the
    expression the flag was computed from, as it was when the flag was computed (`ok = a and not b ... if not ok: return` is
    `if not (a and not b): return`).  Carried over only if no local that expression reads is bound again at or after the
    assignment (attributes are the business of the rule that reads the fact, as they are for a test written out in the `if`)."""
    if depth <= 0 or not isinstance(fn, (ast.FunctionDef, ast.AsyncFunctionDef)):
        return facts
    out = list(facts)
    added: list[tuple[ast.expr, bool]] = []
    for e, pol in facts:
        if not (isinstance(e, ast.Name) and isinstance(e.ctx, ast.Load)) or e.id in params(fn):
            continue
        stores = [n for n in own_nodes(fn) if isinstance(n, ast.Name) and n.id == e.id and isinstance(n.ctx, (ast.Store, ast.Del))]
        if len(stores) != 1:
            continue
        st = mod.parent.get(id(stores[0]))
        if isinstance(st, ast.Assign):
            if not (len(st.targets) == 1 and st.targets[0] is stores[0]):
                continue
        elif not (isinstance(st, ast.AnnAssign) and st.target is stores[0] and st.value is not None):
            continue
        if st.lineno >= getattr(e, "lineno", 0):
            continue
        in_loop = False
        for p in mod.parents(st):
            if isinstance(p, (ast.While, ast.For, ast.AsyncFor)):
                in_loop = True
            if p is fn:
                break
        if in_loop:
            continue
        val = st.value
        read = _names(val)
        if any(isinstance(n, ast.Name) and n.id in read and isinstance(n.ctx, (ast.Store, ast.Del)) and n.lineno >= st.lineno for n in own_nodes(fn)):
            continue
        if any(isinstance(n, (ast.NamedExpr, ast.Await, ast.Yield, ast.YieldFrom)) for n in ast.walk(val)):
            continue
        added.extend(split_fact(val, pol))
    if added:
        out.extend(_with_flag_facts(mod, fn, [a for a in added if not any(a[0] is f_[0] for f_ in facts)], depth - 1))
    return out


def with_implied(mod: Module, fn: ast.AST, facts: list[tuple[ast.expr, bool]]) -> list[tuple[ast.expr, bool]]:
    """facts plus what `x is not None` implies when the local x is bound to a non-None value in one place only and None elsewhere:
    whatever held where that value was computed (the usual `x = f() if cond else None ... if x is not None:` shape).  Only facts that
    read no local name are carried over (locals may have been re-bound since)."""
    out = list(facts)
    for e, pol in facts:
        if isinstance(e, ast.Compare) and len(e.ops) == 1 and isinstance(e.left, ast.Name) and isinstance(e.comparators[0], ast.Constant) and e.comparators[0].value is None \
                and ((isinstance(e.ops[0], ast.IsNot) and pol) or (isinstance(e.ops[0], ast.Is) and not pol)):
            sites = []
            for n in own_nodes(fn):
                if isinstance(n, (ast.Assign, ast.AnnAssign)) and n.value is not None:
                    tg = n.targets if isinstance(n, ast.Assign) else [n.target]
                    if any(isinstance(t, ast.Name) and t.id == e.left.id for t in tg) and not (isinstance(n.value, ast.Constant) and n.value.value is None):
                        sites.append(n)

            def _same_guard(fact2) -> bool:
                e2, pol2 = fact2
                return isinstance(e2, ast.Compare) and len(e2.ops) == 1 and isinstance(e2.left, ast.Name) and e2.left.id == e.left.id and isinstance(e2.comparators[0], ast.Constant) \
                    and e2.comparators[0].value is None and ((isinstance(e2.ops[0], ast.IsNot) and pol2) or (isinstance(e2.ops[0], ast.Is) and not pol2))
            # (a re-binding that itself sits under `x is not None` does not count: it only happens once x was non-None already)
            sites = [n for n in sites if not any(_same_guard(f2) for f2 in facts_at(mod, fn, n))]
            if len(sites) == 1:
                rebound = _stored_names(getattr(fn, "body", []))
                at_def = facts_at(mod, fn, sites[0])
                v = sites[0].value
                if isinstance(v, ast.IfExp):  # x = f() if cond else None
                    if isinstance(v.orelse, ast.Constant) and v.orelse.value is None:
                        at_def = at_def + list(split_fact(v.test, True))
                    elif isinstance(v.body, ast.Constant) and v.body.value is None:
                        at_def = at_def + list(split_fact(v.test, False))
                for f2 in at_def:
                    if not (_names(f2[0]) & rebound):
                        out.append(f2)
    return out


# --------------------------------------------------------------------------- local def-use


def local_defs(fn: ast.AST, name: str) -> list[ast.expr]:
    """every expression bound to the local `name` by a plain / annotated / walrus assignment in fn (tuple targets: the matching element
    when the value is a tuple display of the same length, else the whole value)"""
    out: list[ast.expr] = []
    for n in own_nodes(fn):
        if isinstance(n, ast.Assign):
            for t in n.targets:
                if isinstance(t, ast.Name) and t.id == name:
                    out.append(n.value)
                elif isinstance(t, (ast.Tuple, ast.List)):
                    for k, e in enumerate(t.elts):
                        if isinstance(e, ast.Name) and e.id == name:
                            if isinstance(n.value, (ast.Tuple, ast.List)) and len(n.value.elts) == len(t.elts):
                                out.append(n.value.elts[k])
                            else:
                                out.append(n.value)
        elif isinstance(n, ast.AnnAssign) and n.value is not None and isinstance(n.target, ast.Name) and n.target.id == name:
            out.append(n.value)
        elif isinstance(n, ast.NamedExpr) and n.target.id == name:
            out.append(n.value)
    return out


def derives_from(fn: ast.AST, e: ast.AST, pred, depth: int = 4) -> bool:
    """`e` contains a node satisfying pred, directly or through the local names it reads (def-use, `depth` steps)"""
    seen: set[str] = set()

    def go(x: ast.AST, d: int) -> bool:
        for n in ast.walk(x):
            if pred(n):
                return True
        if d <= 0:
            return False
        for n in ast.walk(x):
            if isinstance(n, ast.Name) and isinstance(n.ctx, ast.Load) and n.id not in seen:
                seen.add(n.id)
                for v in local_defs(fn, n.id):
                    if go(v, d - 1):
                        return True
        return False

    return go(e, depth)


def params(fn: ast.AST) -> list[str]:
    a = fn.args  # type: ignore[attr-defined]
    return [x.arg for x in a.posonlyargs + a.args + a.kwonlyargs]


# --------------------------------------------------------------------------- self-call graph of a class


class ClassGraph:
    """methods visible on a concrete class (first definition along the MRO wins) and the calls among them:
    `self.m(...)` resolves from the concrete class, `super().m(...)` / `super(K, self).m(...)` from the class after the caller's.
    Nodes are (defining class full name, method name)."""

    def __init__(self, repo: Repo, cls_full: str):
        self.repo = repo
        self.cls = cls_full
        self.mro = [c for c in repo.typed.mro(cls_full) if c in repo.typed.classes and c.startswith("rdflib.")]
        if not self.mro:
            raise AnalysisError("class %s unknown to the typed program" % cls_full)
        self.defs: dict[tuple[str, str], tuple[Module, ast.FunctionDef]] = {}
        for c in self.mro:
            modname, cname = c.rsplit(".", 1)
            if modname not in repo.modules:
                continue
            mod = repo.modules[modname]
            if not mod.has(cname):
                continue
            for m, f in mod.methods(cname).items():
                self.defs[(c, m)] = (mod, f)
        self.edges: list[tuple[tuple[str, str], ast.Call, tuple[str, str]]] = []
        for (c, m), (mod, f) in self.defs.items():
            for call in own_nodes(f):
                if not (isinstance(call, ast.Call) and isinstance(call.func, ast.Attribute)):
                    continue
                recv = call.func.value
                start = None
                if isinstance(recv, ast.Name) and recv.id == "self":
                    start = 0
                elif isinstance(recv, ast.Call) and isinstance(recv.func, ast.Name) and recv.func.id == "super":
                    start = self.mro.index(c) + 1
                if start is None:
                    continue
                tgt = self.resolve(call.func.attr, start)
                if tgt is not None:
                    self.edges.append(((c, m), call, tgt))

    def resolve(self, name: str, start: int = 0) -> Optional[tuple[str, str]]:
        for c in self.mro[start:]:
            if (c, name) in self.defs:
                return (c, name)
        return None

    def sccs(self, edges=None) -> list[set[tuple[str, str]]]:
        """strongly connected components that contain a cycle (size > 1 or a self loop)"""
        edges = self.edges if edges is None else edges
        succ: dict[tuple[str, str], set[tuple[str, str]]] = {}
        for a, _, b in edges:
            succ.setdefault(a, set()).add(b)
            succ.setdefault(b, set())
        index: dict = {}
        low: dict = {}
        stack: list = []
        on: set = set()
        out: list[set] = []
        counter = [0]

        def strong(v):  # iterative Tarjan
            work = [(v, iter(sorted(succ[v])))]
            index[v] = low[v] = counter[0]
            counter[0] += 1
            stack.append(v)
            on.add(v)
            while work:
                node, it = work[-1]
                adv = False
                for w in it:
                    if w not in index:
                        index[w] = low[w] = counter[0]
                        counter[0] += 1
                        stack.append(w)
                        on.add(w)
                        work.append((w, iter(sorted(succ[w]))))
                        adv = True
                        break
                    elif w in on:
                        low[node] = min(low[node], index[w])
                if adv:
                    continue
                work.pop()
                if work:
                    low[work[-1][0]] = min(low[work[-1][0]], low[node])
                if low[node] == index[node]:
                    comp = set()
                    while True:
                        w = stack.pop()
                        on.discard(w)
                        comp.add(w)
                        if w == node:
                            break
                    if len(comp) > 1 or node in succ[node]:
                        out.append(comp)

        for v in sorted(succ):
            if v not in index:
                strong(v)
        return out


def short(node: tuple[str, str]) -> str:
    return "%s.%s" % (node[0].rsplit(".", 1)[1], node[1])


# --------------------------------------------------------------------------- depth bounds


def _const_int(e: ast.AST) -> Optional[int]:
    if isinstance(e, ast.Constant) and isinstance(e.value, int) and not isinstance(e.value, bool):
        return e.value
    return None


def within_bound(fact: tuple[ast.expr, bool], counter_text: str) -> bool:
    """the fact says `<counter> <= / < bound` (in any spelling) for a bound that is not the counter itself"""
    e, pol = fact
    if not (isinstance(e, ast.Compare) and len(e.ops) == 1):
        return False
    l, op, r = e.left, e.ops[0], e.comparators[0]
    if norm(r) == counter_text and norm(l) != counter_text:
        l, r = r, l
        op = {ast.Lt: ast.Gt, ast.LtE: ast.GtE, ast.Gt: ast.Lt, ast.GtE: ast.LtE}.get(type(op), type(op))()
    if norm(l) != counter_text or any(norm(x) == counter_text for x in ast.walk(r) if isinstance(x, (ast.Name, ast.Attribute))):
        return False
    if isinstance(op, (ast.Lt, ast.LtE)):
        return pol
    if isinstance(op, (ast.Gt, ast.GtE)):
        return not pol
    return False


def net_increment_before(mod: Module, fn: ast.AST, node: ast.AST, attr_text: str) -> int:
    """sum of the constant `attr += k` / `attr -= k` statements that lie on the straight line from the start of fn to `node`
    (statements of the enclosing blocks that precede it; nested branches are not entered)"""
    total = 0
    child: ast.AST = node
    for p in mod.parents(node):
        for field in ("body", "orelse", "finalbody"):
            lst = getattr(p, field, None)
            if isinstance(lst, list) and any(child is s for s in lst):
                i = [k for k, s in enumerate(lst) if s is child][0]
                for s in lst[:i]:
                    if isinstance(s, ast.AugAssign) and norm(s.target) == attr_text and _const_int(s.value) is not None:
                        if isinstance(s.op, ast.Add):
                            total += _const_int(s.value)  # type: ignore[operator]
                        elif isinstance(s.op, ast.Sub):
                            total -= _const_int(s.value)  # type: ignore[operator]
        if p is fn:
            break
        child = p
    return total


# --------------------------------------------------------------------------- round 3 helpers (rules ab .. af of checks/c03.py)


def tri_eval(e: ast.expr, atom) -> Optional[bool]:
    """three-valued value of a boolean expression when `atom(sub-expression)` gives the value of the sub-expressions it knows
    (True / False) and None for the others: and / or / not are evaluated by Kleene's tables"""
    v = atom(e)
    if v is not None:
        return v
    if isinstance(e, ast.UnaryOp) and isinstance(e.op, ast.Not):
        v = tri_eval(e.operand, atom)
        return None if v is None else (not v)
    if isinstance(e, ast.BoolOp):
        vals = [tri_eval(x, atom) for x in e.values]
        if isinstance(e.op, ast.And):
            if any(x is False for x in vals):
                return False
            return True if all(x is True for x in vals) else None
        if any(x is True for x in vals):
            return True
        return False if all(x is False for x in vals) else None
    return None


def method_call_sites(mods: list[Module], name: str) -> list[tuple[Module, str, ast.FunctionDef, ast.Call]]:
    """every `self.<name>(...)` / `super(...).<name>(...)` call in the functions of `mods`"""
    out = []
    for mod in mods:
        for q, f in mod.functions():
            for c in own_nodes(f):
                if isinstance(c, ast.Call) and isinstance(c.func, ast.Attribute) and c.func.attr == name:
                    r = c.func.value
                    if (isinstance(r, ast.Name) and r.id == "self") or (isinstance(r, ast.Call) and isinstance(r.func, ast.Name) and r.func.id == "super"):
                        out.append((mod, q, f, c))
    return out


def arg_of(call: ast.Call, fn: ast.AST, pname: str) -> Optional[ast.expr]:
    """the expression a bound-method call passes for parameter `pname` of fn (self is parameter 0)"""
    for k in call.keywords:
        if k.arg == pname:
            return k.value
    ps = params(fn)[1:]
    if pname in ps and ps.index(pname) < len(call.args) and not any(isinstance(a, ast.Starred) for a in call.args):
        return call.args[ps.index(pname)]
    return None


def enclosing_validator(mod: Module, fn: ast.AST, call: ast.Call, arg: ast.expr, accept=None) -> Optional[tuple[ast.expr, str]]:
    """`self.<V>(<same arg>)` is known to have answered true wherever `call` is made (and, if given, accept(V) holds): (the test, V).
    Known in the sense of facts_at: the call sits in the body of `if self.V(x):`, in the else branch of `if not self.V(x):`, after an
    `if not self.V(x): return`, behind `self.V(x) and ...`, under a flag computed from it - all the same."""
    for t, pol in facts_at(mod, fn, call):
        if pol and isinstance(t, ast.Call) and isinstance(t.func, ast.Attribute) and isinstance(t.func.value, ast.Name) and t.func.value.id == "self" \
                and t.args and norm(t.args[0]) == norm(arg) and (accept is None or accept(t.func.attr)):
            return t, t.func.attr
    return None


def returns_falsy(stmts: list[ast.stmt]) -> bool:
    """the block ends by returning False / None"""
    if not stmts:
        return False
    last = stmts[-1]
    return isinstance(last, ast.Return) and (last.value is None or (isinstance(last.value, ast.Constant) and last.value.value in (False, None)))


def namedtuple_fields(mod: Module, name: str) -> list[str]:
    """fields of a module-level `<name> = namedtuple("<name>", "a, b, ..." | [..])`"""
    for st in mod.tree.body:
        if isinstance(st, ast.Assign) and len(st.targets) == 1 and isinstance(st.targets[0], ast.Name) and st.targets[0].id == name and isinstance(st.value, ast.Call) \
                and norm(st.value.func).split(".")[-1] == "namedtuple" and len(st.value.args) >= 2:
            spec = st.value.args[1]
            try:
                val = ast.literal_eval(spec)
            except ValueError:
                break
            if isinstance(val, str):
                return [x for x in val.replace(",", " ").split() if x]
            return [str(x) for x in val]
    raise AnalysisError("%s: namedtuple %s not found" % (mod.rel, name))


# --------------------------------------------------------------------------- escape maps (rule b), call-site facts (rule t), path facts (rule w)


def _const_str_pair_chain(e: ast.AST) -> tuple[ast.AST, list[tuple[str, str]]]:
    """X.replace(a, b).replace(c, d) -> (X, [(a, b), (c, d)]) in the order of application; constant arguments only"""
    chain: list[tuple[str, str]] = []
    cur = e
    while isinstance(cur, ast.Call) and isinstance(cur.func, ast.Attribute) and cur.func.attr == "replace" and len(cur.args) == 2 and not cur.keywords \
            and all(isinstance(a, ast.Constant) and isinstance(a.value, str) for a in cur.args):
        chain.append((cur.args[0].value, cur.args[1].value))  # type: ignore[attr-defined]
        cur = cur.func.value
    chain.reverse()
    return cur, chain


def _binding_of(mod: Module, fn: Optional[ast.AST], name: str) -> Optional[ast.expr]:
    """the one expression the name is bound to where fn reads it: its only local binding, else its only binding at module level
    (a name bound twice, or re-bound anywhere else in the module, is not resolved)"""
    if fn is not None:
        loc = local_defs(fn, name)
        if name in params(fn) or len(loc) > 1:
            return None
        if loc:
            return loc[0]
    top = [st for st in mod.tree.body if isinstance(st, (ast.Assign, ast.AnnAssign)) and st.value is not None
           and any(isinstance(t, ast.Name) and t.id == name for t in (st.targets if isinstance(st, ast.Assign) else [st.target]))]
    stores = [n for n in ast.walk(mod.tree) if isinstance(n, ast.Name) and n.id == name and isinstance(n.ctx, (ast.Store, ast.Del))]
    if len(top) == 1 and len(stores) == 1:
        return top[0].value
    return None


class _Unknown(Exception):
    """the expression is not a constant the evaluator can fold"""


_PURE_BUILTINS = {"dict": dict, "tuple": tuple, "list": list, "set": set, "frozenset": frozenset, "zip": zip, "ord": ord, "chr": chr, "sorted": sorted, "reversed": reversed,
                  "enumerate": enumerate, "range": range, "len": len, "str": str, "int": int, "min": min, "max": max}
_PURE_METHODS = {"items", "keys", "values", "copy", "join", "lower", "upper"}
_CONST_TYPES = (str, bytes, int, bool, type(None), tuple, list, dict, set, frozenset)
_MAX_STEPS = 0x120000


def _imported_binding(repo: Optional[Repo], mod: Module, name: str) -> Optional[tuple[Module, str]]:
    """(module, name there) of a name that `mod` imports at top level from a module of the package"""
    if repo is None:
        return None
    for st in mod.tree.body:
        if isinstance(st, ast.ImportFrom):
            for a in st.names:
                if (a.asname or a.name) == name:
                    base = st.module or ""
                    if st.level:
                        parts = mod.name.split(".")
                        if not mod.rel.endswith("__init__.py"):
                            parts = parts[:-1]
                        parts = parts[: len(parts) - (st.level - 1)]
                        base = ".".join(parts + ([st.module] if st.module else []))
                    if base in repo.modules:
                        return repo.modules[base], a.name
    return None


def const_eval(mod: Module, fn: Optional[ast.AST], e: ast.AST, repo: Optional[Repo] = None, env: Optional[dict] = None, depth: int = 10, _steps: Optional[list] = None):
    """the value of an expression built from constants only: displays, names bound once (in fn, at module level, or imported from a module of
    the package where they are bound once), a closed set of side-effect-free builtins (dict, zip, ord, chr, str.maketrans, ...) and methods
    (items, keys, values, join), comprehensions over such values, + | % on them, f-strings, conditional expressions.  Nothing of the analysed
    package is executed: only those builtins, on constants.  Raises _Unknown for anything else."""
    steps = _steps if _steps is not None else [0]
    env = env or {}

    def tick(n: int = 1) -> None:
        steps[0] += n
        if steps[0] > _MAX_STEPS:
            raise _Unknown("too large")

    def ev(x: ast.AST, env: dict, d: int):
        tick()
        if d <= 0:
            raise _Unknown("too deep")
        if isinstance(x, ast.Constant):
            return x.value
        if isinstance(x, ast.Name):
            if x.id in env:
                return env[x.id]
            b = _binding_of(mod, fn, x.id)
            if b is not None:
                # (a module-level binding is evaluated at module level: the locals of fn are not in its scope)
                return const_eval(mod, fn if fn is not None and local_defs(fn, x.id) else None, b, repo, None, d - 1, steps)
            imp = _imported_binding(repo, mod, x.id) if not any(isinstance(n, ast.Name) and n.id == x.id and isinstance(n.ctx, (ast.Store, ast.Del)) for n in ast.walk(mod.tree)) else None
            if imp is not None:
                b = _binding_of(imp[0], None, imp[1])
                if b is not None:
                    return const_eval(imp[0], None, b, repo, None, d - 1, steps)
            raise _Unknown(x.id)
        if isinstance(x, (ast.Tuple, ast.List, ast.Set)):
            vals: list = []
            for el in x.elts:
                if isinstance(el, ast.Starred):
                    vals.extend(ev(el.value, env, d - 1))
                else:
                    vals.append(ev(el, env, d - 1))
            return tuple(vals) if isinstance(x, ast.Tuple) else vals if isinstance(x, ast.List) else set(vals)
        if isinstance(x, ast.Dict):
            out: dict = {}
            for k, v in zip(x.keys, x.values):
                if k is None:
                    sub = ev(v, env, d - 1)
                    if not isinstance(sub, dict):
                        raise _Unknown("** of a non-dict")
                    out.update(sub)
                else:
                    out[ev(k, env, d - 1)] = ev(v, env, d - 1)
            return out
        if isinstance(x, ast.IfExp):
            return ev(x.body, env, d - 1) if ev(x.test, env, d - 1) else ev(x.orelse, env, d - 1)
        if isinstance(x, ast.UnaryOp) and isinstance(x.op, (ast.Not, ast.USub)):
            v = ev(x.operand, env, d - 1)
            return (not v) if isinstance(x.op, ast.Not) else -v
        if isinstance(x, ast.BoolOp):
            v = None
            for sub_ in x.values:
                v = ev(sub_, env, d - 1)
                if bool(v) != isinstance(x.op, ast.And):
                    return v
            return v
        if isinstance(x, ast.Compare) and len(x.ops) == 1:
            a, b = ev(x.left, env, d - 1), ev(x.comparators[0], env, d - 1)
            op = x.ops[0]
            table = {ast.Eq: lambda: a == b, ast.NotEq: lambda: a != b, ast.In: lambda: a in b, ast.NotIn: lambda: a not in b, ast.Lt: lambda: a < b, ast.LtE: lambda: a <= b,
                     ast.Gt: lambda: a > b, ast.GtE: lambda: a >= b, ast.Is: lambda: a is b, ast.IsNot: lambda: a is not b}
            if type(op) not in table:
                raise _Unknown("comparison")
            return table[type(op)]()
        if isinstance(x, ast.BinOp) and isinstance(x.op, (ast.Add, ast.BitOr, ast.Mod, ast.Sub)):
            a, b = ev(x.left, env, d - 1), ev(x.right, env, d - 1)
            return a + b if isinstance(x.op, ast.Add) else a | b if isinstance(x.op, ast.BitOr) else a % b if isinstance(x.op, ast.Mod) else a - b
        if isinstance(x, ast.Subscript) and not isinstance(x.slice, ast.Slice):
            return ev(x.value, env, d - 1)[ev(x.slice, env, d - 1)]
        if isinstance(x, ast.JoinedStr):
            parts = []
            for v in x.values:
                if isinstance(v, ast.Constant):
                    parts.append(str(v.value))
                elif isinstance(v, ast.FormattedValue):
                    val = ev(v.value, env, d - 1)
                    if v.conversion in (115, 114, 97):
                        val = {115: str, 114: repr, 97: ascii}[v.conversion](val)
                    spec = ev(v.format_spec, env, d - 1) if v.format_spec is not None else ""
                    parts.append(format(val, spec))
                else:
                    raise _Unknown("f-string part")
            return "".join(parts)
        if isinstance(x, (ast.ListComp, ast.SetComp, ast.GeneratorExp, ast.DictComp)):
            res: list = []

            def bind(t: ast.AST, v, env2: dict) -> None:
                if isinstance(t, ast.Name):
                    env2[t.id] = v
                elif isinstance(t, (ast.Tuple, ast.List)) and not any(isinstance(q, ast.Starred) for q in t.elts):
                    vs = list(v)
                    if len(vs) != len(t.elts):
                        raise _Unknown("unpacking")
                    for q, w in zip(t.elts, vs):
                        bind(q, w, env2)
                else:
                    raise _Unknown("target")

            def loop(gi: int, env2: dict) -> None:
                if gi == len(x.generators):
                    res.append((ev(x.key, env2, d - 1), ev(x.value, env2, d - 1)) if isinstance(x, ast.DictComp) else ev(x.elt, env2, d - 1))
                    return
                g = x.generators[gi]
                if g.is_async:
                    raise _Unknown("async")
                for item in ev(g.iter, env2, d - 1):
                    tick()
                    env3 = dict(env2)
                    bind(g.target, item, env3)
                    if all(ev(c, env3, d - 1) for c in g.ifs):
                        loop(gi + 1, env3)
            loop(0, dict(env))
            return dict(res) if isinstance(x, ast.DictComp) else set(res) if isinstance(x, ast.SetComp) else res
        if isinstance(x, ast.Call) and not any(k.arg is None for k in x.keywords):
            args: list = []
            for a_ in x.args:
                if isinstance(a_, ast.Starred):
                    args.extend(ev(a_.value, env, d - 1))
                else:
                    args.append(ev(a_, env, d - 1))
            kw = {k.arg: ev(k.value, env, d - 1) for k in x.keywords}
            f_ = None
            if isinstance(x.func, ast.Name) and x.func.id in _PURE_BUILTINS and x.func.id not in env \
                    and not any(isinstance(n, ast.Name) and n.id == x.func.id and isinstance(n.ctx, (ast.Store, ast.Del)) for n in ast.walk(mod.tree)) and not mod.has(x.func.id):
                f_ = _PURE_BUILTINS[x.func.id]
            elif isinstance(x.func, ast.Attribute) and x.func.attr == "maketrans" and isinstance(x.func.value, ast.Name) and x.func.value.id in ("str", "bytes") and not mod.has(x.func.value.id):
                f_ = str.maketrans if x.func.value.id == "str" else bytes.maketrans
            elif isinstance(x.func, ast.Attribute) and x.func.attr in _PURE_METHODS | {"maketrans"}:
                recv = ev(x.func.value, env, d - 1)
                if not isinstance(recv, (str, dict)):
                    raise _Unknown("method of %s" % type(recv).__name__)
                f_ = getattr(recv, x.func.attr)
            if f_ is None:
                raise _Unknown("call of %s" % norm(x.func))
            if f_ is range and (len(args) > 3 or any(not isinstance(a_, int) or abs(a_) > 0x110000 for a_ in args)):
                raise _Unknown("range")
            r = f_(*args, **kw)
            if not isinstance(r, _CONST_TYPES):
                r = list(r)  # zip / enumerate / reversed / dict views / range
                tick(len(r))
            return r
        raise _Unknown(type(x).__name__)

    try:
        v = ev(e, env, depth)
    except _Unknown:
        raise
    except RecursionError:
        raise
    except Exception as exc:  # the expression would raise (or is not what it seems): not a constant
        raise _Unknown(repr(exc)) from None
    return v


def char_table(mod: Module, fn: Optional[ast.AST], e: ast.expr, str_keys: bool, depth: int = 10, repo: Optional[Repo] = None) -> Optional[dict[str, str]]:
    """the constant character -> replacement map an expression evaluates to (const_eval: a dict display, `str.maketrans(...)` of a dict, of pairs
    made into a dict, of two strings; a dict comprehension over a constant table; a name bound once to one of these, in the function, at module
    level or in a module of the package it is imported from), or None if that cannot be told.
    `str_keys` False: the table is handed to str.translate, which looks characters up by code point - integer keys count, string keys are never
    matched.  True: the table is indexed with the characters themselves (`table.get(c, c)`) - one-character string keys count, others never match."""
    try:
        v = const_eval(mod, fn, e, repo, None, depth)
    except _Unknown:
        return None
    if not isinstance(v, dict):
        return None
    out: dict[str, str] = {}
    for k, val in v.items():
        if str_keys:
            if not (isinstance(k, str) and len(k) == 1):
                continue
            if not isinstance(val, str):
                return None
            out[k] = val
        else:
            if isinstance(k, bool) or not isinstance(k, int):
                continue
            if not 0 <= k < 0x110000:
                return None
            if val is None:
                out[chr(k)] = ""  # the character is deleted
            elif isinstance(val, str):
                out[chr(k)] = val
            elif isinstance(val, int) and not isinstance(val, bool) and 0 <= val < 0x110000:
                out[chr(k)] = chr(val)
            else:
                return None
    return out


class EscapeMap:
    """one place where a function rewrites characters of a string by a constant map.  `pairs` in the order of application;
    `simultaneous`: the map is applied in one pass over the string (str.translate, a per-character table lookup), so what one
    replacement writes is never read by another - a chain of str.replace is sequential"""

    def __init__(self, node: ast.AST, pairs: list[tuple[str, str]], simultaneous: bool, how: str):
        self.node, self.pairs, self.simultaneous, self.how = node, pairs, simultaneous, how

    def as_sequence(self) -> list[tuple[str, str]]:
        """a sequence of replacements with the same result as the map.  For a one-pass map over single characters the only order that
        matters is the backslash's: put first, it doubles the backslashes of the input and none of those the other replacements write"""
        if not self.simultaneous:
            return list(self.pairs)
        return sorted(self.pairs, key=lambda p: p[0] != "\\")


def escape_maps(mod: Module, fn: ast.AST, min_chain: int = 2, within: Optional[list] = None, repo: Optional[Repo] = None) -> list[EscapeMap]:
    """the escape maps in fn: maximal chains of at least `min_chain` constant str.replace calls; `<s>.translate(<table>)` with a table that
    evaluates to a constant map; `"".join(<table>.get(c, c) for c in <s>)`.  A `.translate()` whose table cannot be evaluated is an
    AnalysisError (an unknown map is neither right nor wrong).  `within`: only these statements of fn are searched.  In source order."""
    out: list[EscapeMap] = []
    inner_of_chain: set[int] = set()
    nodes = sorted((n for root in ([fn] if within is None else within) for n in ast.walk(root) if isinstance(n, ast.Call)), key=lambda n: (n.lineno, n.col_offset, -(n.end_lineno or 0), -(n.end_col_offset or 0)))
    for n in nodes:
        if id(n) in inner_of_chain:
            continue
        base, ch = _const_str_pair_chain(n)
        if len(ch) >= min_chain:
            cur: ast.AST = n
            while cur is not base:
                inner_of_chain.add(id(cur))
                cur = cur.func.value  # type: ignore[attr-defined]
            out.append(EscapeMap(n, ch, False, "chain of str.replace"))
            continue
        if isinstance(n.func, ast.Attribute) and n.func.attr == "translate" and len(n.args) == 1 and not n.keywords:
            tab = char_table(mod, fn, n.args[0], False, repo=repo)
            if tab is None:
                raise AnalysisError("%s: the table of %s could not be evaluated" % (mod.rel, norm(n)[:80]))
            out.append(EscapeMap(n, list(tab.items()), True, "str.translate, one pass"))
            continue
        if isinstance(n.func, ast.Attribute) and n.func.attr == "join" and len(n.args) == 1 and isinstance(n.args[0], (ast.GeneratorExp, ast.ListComp)) \
                and len(n.args[0].generators) == 1 and isinstance(n.args[0].generators[0].target, ast.Name) and not n.args[0].generators[0].ifs:
            var = n.args[0].generators[0].target.id
            elt = n.args[0].elt
            if isinstance(elt, ast.Call) and isinstance(elt.func, ast.Attribute) and elt.func.attr == "get" and len(elt.args) == 2 and not elt.keywords \
                    and all(isinstance(a, ast.Name) and a.id == var for a in elt.args):
                tab = char_table(mod, fn, elt.func.value, True, repo=repo)
                if tab is not None:
                    out.append(EscapeMap(n, list(tab.items()), True, "per-character table lookup, one pass"))
    return out


def dispatch_implementations(mod: Module) -> dict[str, list[tuple[str, ast.AST]]]:
    """the functions a call of a `functools.singledispatch` / `singledispatchmethod` generic can evaluate to besides the generic's own body:
    qualified name of the generic -> [(qualified name, FunctionDef)] of everything registered on it in the module - a def decorated with
    `@G.register` / `@G.register(T)` in the scope of G (module level, or the same class body), or handed over in a statement
    `G.register(T, f)` / `G.register(T)(f)`.  A generic is a def of that scope decorated with (functools.)singledispatch(method)."""
    out: dict[str, list[tuple[str, ast.AST]]] = {}

    def is_generic(f: ast.AST) -> bool:
        return any(norm(d).split(".")[-1] in ("singledispatch", "singledispatchmethod") for d in getattr(f, "decorator_list", []))

    def scope(body: list[ast.stmt], prefix: str) -> None:
        fdefs = [st for st in body if isinstance(st, (ast.FunctionDef, ast.AsyncFunctionDef))]
        generics = {f.name for f in fdefs if is_generic(f)}
        if generics:
            by_name = {}
            for f in fdefs:
                by_name.setdefault(f.name, []).append(f)

            def reg_target(e: ast.AST) -> Optional[str]:
                """G for the expressions `G.register` and `G.register(...)`"""
                if isinstance(e, ast.Call):
                    e = e.func
                if isinstance(e, ast.Attribute) and e.attr == "register" and isinstance(e.value, ast.Name) and e.value.id in generics:
                    return e.value.id
                return None

            for f in fdefs:
                for d in f.decorator_list:
                    g_ = reg_target(d)
                    if g_ is not None:
                        out.setdefault(prefix + g_, []).append((prefix + f.name, f))
            for st in body:
                if isinstance(st, ast.Expr) and isinstance(st.value, ast.Call):
                    c = st.value
                    g_ = reg_target(c.func) if not (isinstance(c.func, ast.Attribute) and c.func.attr == "register") else reg_target(c)
                    if g_ is None:
                        continue
                    for a in c.args:
                        if isinstance(a, ast.Name) and a.id in by_name and a.id not in generics:
                            for f in by_name[a.id]:
                                out.setdefault(prefix + g_, []).append((prefix + f.name, f))
        for st in body:
            if isinstance(st, ast.ClassDef):
                scope(st.body, prefix + st.name + ".")

    scope(mod.tree.body, "")
    return out


def module_call_closure(mod: Module, roots: list[str]) -> list[str]:
    """qualified names of the functions of `mod` reachable from `roots` through calls by plain name of module-level functions and
    `self.m()` calls of methods of the same class (roots first, then in order of discovery).  A call of a single-dispatch generic can
    evaluate to every implementation registered on it (dispatch_implementations): those are reached with the generic; an implementation
    whose name the module re-uses (`def _(x)`) is walked for the calls it makes as part of the generic."""
    seen: list[str] = []
    todo = [r for r in roots if mod.has(r)]
    impls = dispatch_implementations(mod)
    while todo:
        q = todo.pop(0)
        if q in seen:
            continue
        seen.append(q)
        f = mod.defs[q]
        cls = q.rsplit(".", 1)[0] if "." in q else None
        bodies = [f]
        for q2, f2 in impls.get(q, []):
            if mod.has(q2) and mod.defs[q2] is f2:
                todo.append(q2)
            else:
                bodies.append(f2)
        for c in (x for b in bodies for x in ast.walk(b)):
            if not isinstance(c, ast.Call):
                continue
            if isinstance(c.func, ast.Name) and mod.has(c.func.id) and isinstance(mod.defs[c.func.id], (ast.FunctionDef, ast.AsyncFunctionDef)):
                todo.append(c.func.id)
            elif cls and isinstance(c.func, ast.Attribute) and isinstance(c.func.value, ast.Name) and c.func.value.id == "self" and mod.has(cls + "." + c.func.attr):
                todo.append(cls + "." + c.func.attr)
    return seen


def counter_bounds(cg: "ClassGraph", inner: list, facts_of: dict):
    """-> f(method, call) = {counter text: raise}: the `self.<attr>` counters known to be within a bound when `call` (an edge of the call
    cycle whose edges are `inner`) is made, with the least net amount the counter was raised since the comparison.
    For every method on the cycle the counters are computed that are within a bound whenever the method is entered *from the cycle* (a
    pass round the cycle enters it through one of these calls).  A counter is within a bound at a call if a comparison that says so holds at
    the call itself, or held at every such entry of the calling method (which then must not assign the counter outright); the raise is
    counted along the straight line to the call.  Least fixed point: nothing is assumed about a method before all its callers are known."""
    def local(a, c) -> dict[str, int]:
        mod, f = cg.defs[a]
        out: dict[str, int] = {}
        for fact in facts_of[id(c)]:
            for x in ast.walk(fact[0]):
                if isinstance(x, ast.Attribute) and isinstance(x.value, ast.Name) and x.value.id == "self":
                    t = norm(x)
                    if within_bound(fact, t):
                        out[t] = net_increment_before(mod, f, c, t)
        return out

    def assigns_outright(a, t: str) -> bool:
        f = cg.defs[a][1]
        for n in own_nodes(f):
            tg = n.targets if isinstance(n, ast.Assign) else [n.target] if isinstance(n, (ast.AnnAssign, ast.NamedExpr)) else []
            if any(norm(x) == t for x in tg):
                return True
            if isinstance(n, ast.AugAssign) and norm(n.target) == t and not (isinstance(n.op, (ast.Add, ast.Sub)) and _const_int(n.value) is not None):
                return True
        return False

    entry: dict = {}

    def at_call(a, c) -> dict[str, int]:
        mod, f = cg.defs[a]
        out = {t: k + net_increment_before(mod, f, c, t) for t, k in entry.get(a, {}).items() if not assigns_outright(a, t)}
        out.update(local(a, c))  # a comparison at the call itself is the most recent one
        return out

    nodes = sorted({b for _, _, b in inner})
    for _ in range(len(nodes) + 2):
        changed = False
        for b in nodes:
            ins = [at_call(a, c) for a, c, b2 in inner if b2 == b]
            common = set(ins[0]).intersection(*[set(d) for d in ins[1:]]) if ins else set()
            new = {t: max(-9, min(d[t] for d in ins)) for t in common}
            if new != entry.get(b, {}):
                entry[b] = new
                changed = True
        if not changed:
            break
    return at_call


def reachable_nodes(fn: ast.AST, atom, g=None):
    """(CFG of fn, the nodes of it control can reach from the entry in a state where `atom(expr)` gives the truth value of the conditions it
    knows - True / False; None = unknown).  Branches of `if` / `while` whose test has, by Kleene's tables, the other value are not taken.
    (Exception edges stay: any statement of a try body may raise.)"""
    from .cfg import CFG

    g = g or CFG(fn)
    seen: set[int] = set()
    stack = [g.entry]
    while stack:
        n = stack.pop()
        if n in seen:
            continue
        seen.add(n)
        node = g.nodes[n]
        verdict = None
        if node.kind == "test" and node.ast is not None:
            verdict = tri_eval(node.ast.test, atom)  # type: ignore[attr-defined]
        for m in g.succ[n]:
            lab = g.edge_label.get((n, m), "")
            if verdict is not None and lab != "exc":
                if (lab == "true") != verdict:
                    continue
            stack.append(m)
    return g, seen


def reachable_assuming(fn: ast.AST, target_stmt_or_expr: ast.AST, mod: Module, atom) -> bool:
    """can control reach the statement that evaluates `target` from the entry of fn in a state described by `atom` (reachable_nodes)?"""
    g, seen = reachable_nodes(fn, atom)
    return g.node_of(target_stmt_or_expr, mod) in seen


# --------------------------------------------------------------------------- a visited-set kept by an object (rule a, clause ii)


def _package_method(repo: Repo, full: str) -> Optional[tuple[Module, str, ast.FunctionDef]]:
    """'pkg.mod.Class.meth' -> (module, 'Class.meth', def) if it is a method of a class of the analysed package"""
    parts = full.split(".")
    for k in range(len(parts) - 2, 0, -1):
        mname, q = ".".join(parts[:k]), ".".join(parts[k:])
        if mname in repo.modules and repo.modules[mname].has(q):
            d = repo.modules[mname].defs[q]
            if isinstance(d, (ast.FunctionDef, ast.AsyncFunctionDef)) and "." in q:
                return repo.modules[mname], q, d
    return None


def _refuses_repeats(meth: ast.FunctionDef, k: int) -> Optional[str]:
    """the method raises when its k-th argument is in a collection `self.<S>` and adds it to that collection otherwise (`if x in self.S: raise ...`
    not inside a try, and `self.S.add(x)` / `.append(x)` / `self.S[x] = ...`), and never re-binds self.S: the name of S"""
    ps = params(meth)
    if len(ps) < k + 2:
        return None
    p = ps[k + 1]
    if any(isinstance(n, ast.Name) and n.id == p and isinstance(n.ctx, (ast.Store, ast.Del)) for n in own_nodes(meth)):
        return None
    if any(isinstance(n, ast.Try) for n in own_nodes(meth)):
        return None
    def member_of(t: ast.AST) -> Optional[ast.Attribute]:
        """t says `p in self.<S>`: S"""
        if isinstance(t, ast.UnaryOp) and isinstance(t.op, ast.Not):
            t2 = t.operand
            want = ast.NotIn
        else:
            t2, want = t, ast.In
        if isinstance(t2, ast.Compare) and len(t2.ops) == 1 and isinstance(t2.ops[0], want) and isinstance(t2.left, ast.Name) and t2.left.id == p:
            coll = t2.comparators[0]
            if isinstance(coll, ast.Attribute) and isinstance(coll.value, ast.Name) and coll.value.id == ps[0]:
                return coll
        return None

    for i in own_nodes(meth):
        if not (isinstance(i, ast.If) and i.body and isinstance(i.body[-1], ast.Raise)):
            continue
        # `p in S` alone decides: the test itself, or one disjunct of it (an `and` with something else would let a repeat through)
        for t in [i.test] + (list(i.test.values) if isinstance(i.test, ast.BoolOp) and isinstance(i.test.op, ast.Or) else []):
            coll = member_of(t)
            if coll is None:
                continue
            ct = norm(coll)
            if any(isinstance(n, (ast.Assign, ast.AugAssign, ast.AnnAssign, ast.Delete)) and any(norm(x) == ct for x in (n.targets if isinstance(n, (ast.Assign, ast.Delete)) else [n.target])) for n in own_nodes(meth)):
                continue
            for c in own_nodes(meth):
                if isinstance(c, ast.Call) and isinstance(c.func, ast.Attribute) and c.func.attr in ("add", "append") and norm(c.func.value) == ct and len(c.args) == 1 \
                        and isinstance(c.args[0], ast.Name) and c.args[0].id == p:
                    return ct
                if isinstance(c, ast.Subscript) and isinstance(c.ctx, ast.Store) and norm(c.value) == ct and isinstance(c.slice, ast.Name) and c.slice.id == p:
                    return ct
    return None


def visited_guard_object(repo: Repo, mod: Module, fn: ast.AST, loop: ast.While, cursor: str) -> Optional[str]:
    """clause (ii) of C03.a when the visited-set lives in an object: inside the loop (and inside no `try` of it) the cursor - or the
    temporary it is assigned from - is handed to a method, of a class of the package, that raises if it has been handed the same node before
    and remembers it otherwise (_refuses_repeats); the object is made outside the loop.  The raise leaves the loop as `if x in seen: raise` did."""
    curs = {cursor}
    for a in ast.walk(loop):
        if isinstance(a, ast.Assign) and any(isinstance(t, ast.Name) and t.id == cursor for t in a.targets):
            curs |= {n.id for n in ast.walk(a.value) if isinstance(n, ast.Name) and isinstance(n.ctx, ast.Load)}
    for c in ast.walk(loop):
        if not (isinstance(c, ast.Call) and isinstance(c.func, ast.Attribute) and not c.keywords and c.args and not any(isinstance(a, ast.Starred) for a in c.args)):
            continue
        hits = [k for k, a in enumerate(c.args) if isinstance(a, ast.Name) and a.id in curs]
        if not hits:
            continue
        recv = c.func.value
        if isinstance(recv, ast.Name):
            made_inside = any(isinstance(n, ast.Name) and n.id == recv.id and isinstance(n.ctx, (ast.Store, ast.Del)) for n in ast.walk(loop))
        elif isinstance(recv, ast.Attribute) and isinstance(recv.value, ast.Name):
            rt = norm(recv)
            made_inside = any(isinstance(n, ast.Attribute) and isinstance(n.ctx, (ast.Store, ast.Del)) and norm(n) == rt for n in ast.walk(loop))
        else:
            continue
        if made_inside:
            continue
        in_try = False
        for p in mod.parents(c):
            if p is loop:
                break
            if isinstance(p, ast.Try):
                in_try = True
        if in_try:
            continue
        callees = repo.typed.callees(mod.name, c)
        if not callees:
            continue
        for k in hits:
            colls = []
            for full in callees:
                pm = _package_method(repo, full)
                colls.append(_refuses_repeats(pm[2], k) if pm is not None else None)
            if colls and all(x is not None for x in colls):
                return "visited-set kept by %s: %s raises on a node it was handed before and remembers every node it is handed (%s)" % (norm(recv), norm(c.func), colls[0])
    return None


def validators_of(mod: Module, fn: ast.AST, call: ast.Call, arg: Optional[ast.expr], sites_of, depth: int = 3, _seen: frozenset = frozenset(), accept=None) -> Optional[set[str]]:
    """the validator methods V such that `call` (made in fn) is made only for an `arg` that `self.V(arg)` has accepted:
    * the call sits in the body of an `if self.V(<same expression>):` of fn, or
    * `arg` is a parameter of fn that fn never re-binds, and every call of fn (`sites_of(fn)` -> [(module, function, call)], the calls
      the rule knows of) passes for it an expression validated in this sense at that call (so the test may sit one or more
      methods up from the walk it protects).
    None if some way to the call is not validated.  `accept(V)`: which methods count as validators (default: any)."""
    if arg is None:
        return None
    ev = enclosing_validator(mod, fn, call, arg, accept)
    if ev is not None:
        return {ev[1]}
    if depth <= 0 or not isinstance(arg, ast.Name) or arg.id not in params(fn)[1:] or (id(fn), arg.id) in _seen:
        return None
    if any(isinstance(k, ast.Name) and k.id == arg.id and isinstance(k.ctx, (ast.Store, ast.Del)) for k in own_nodes(fn)):
        return None
    sites = sites_of(fn)
    if not sites:
        return None
    out: set[str] = set()
    for mod2, fn2, call2 in sites:
        r = validators_of(mod2, fn2, call2, arg_of(call2, fn, arg.id), sites_of, depth - 1, _seen | {(id(fn), arg.id)}, accept)
        if r is None:
            return None
        out |= r
    return out


# --------------------------------------------------------------------------- referrer counters of a recursive serializer, by role


def referrer_counters(repo: Repo, cls_full: str, entry: str = "preprocess") -> set[str]:
    """the attributes `self.<A>` in which a serializer class counts how often a node is referred to: some method that the public
    preprocessing pass (`entry`, resolved along the MRO; every override of a method it reaches counts, since a subclass hook may call
    super()) reaches through self / super() adds a positive constant to `self.<A>[<node>]` - `self.A[x] += 1` or
    `self.A[x] = self.A[x] + 1`.  The attribute is found by what is done to it, not by its name."""
    cg = ClassGraph(repo, cls_full)
    start = cg.resolve(entry)
    if start is None:
        return set()
    succ: dict = {}
    for a, _, b in cg.edges:
        succ.setdefault(a, set()).add(b)
    seen = {start}
    todo = [start]
    while todo:
        v = todo.pop()
        for w in succ.get(v, ()):
            if w not in seen:
                seen.add(w)
                todo.append(w)
    names = {m for _, m in seen}
    out: set[str] = set()

    def self_sub(t: ast.AST) -> Optional[str]:
        if isinstance(t, ast.Subscript) and isinstance(t.value, ast.Attribute) and isinstance(t.value.value, ast.Name) and t.value.value.id == "self":
            return t.value.attr
        return None

    def pos_const(e: ast.AST) -> bool:
        return isinstance(e, ast.Constant) and type(e.value) is int and e.value > 0

    for (c, m), (mod, f) in cg.defs.items():
        if m not in names:
            continue
        for n in own_nodes(f):
            if isinstance(n, ast.AugAssign) and isinstance(n.op, ast.Add) and pos_const(n.value):
                a = self_sub(n.target)
                if a is not None:
                    out.add(a)
            elif isinstance(n, ast.Assign) and len(n.targets) == 1 and isinstance(n.value, ast.BinOp) and isinstance(n.value.op, ast.Add):
                a = self_sub(n.targets[0])
                if a is not None and ((pos_const(n.value.right) and norm(n.value.left) == norm(n.targets[0])) or (pos_const(n.value.left) and norm(n.value.right) == norm(n.targets[0]))):
                    out.add(a)
    return out
