"""Helpers of the later C03 rules (checks/c03.py): branch facts that hold at a node, local def-use, and the
self-call graph of a class resolved through its MRO.  Pure `ast`; nothing of the analysed tree is executed."""
from __future__ import annotations

import ast
from typing import Iterator, Optional

from .core import AnalysisError, Module, Repo, norm, own_nodes

# --------------------------------------------------------------------------- branch facts


def terminates(stmts: list[ast.stmt]) -> bool:
    """the statement list never falls through (ends in return / raise / continue / break on every branch)"""
    if not stmts:
        return False
    last = stmts[-1]
    if isinstance(last, (ast.Return, ast.Raise, ast.Continue, ast.Break)):
        return True
    if isinstance(last, ast.If):
        return terminates(last.body) and terminates(last.orelse)
    return False


def _stored_names(stmts) -> set[str]:
    out: set[str] = set()
    for s in stmts:
        for n in ast.walk(s):
            if isinstance(n, ast.Name) and isinstance(n.ctx, (ast.Store, ast.Del)):
                out.add(n.id)
    return out


def _names(e: ast.AST) -> set[str]:
    return {n.id for n in ast.walk(e) if isinstance(n, ast.Name)}


def split_fact(test: ast.expr, pol: bool) -> Iterator[tuple[ast.expr, bool]]:
    """a fact and everything it implies structurally: `a and b` true -> a, b true; `a or b` false -> a, b false; `not a` flips"""
    yield test, pol
    if isinstance(test, ast.UnaryOp) and isinstance(test.op, ast.Not):
        yield from split_fact(test.operand, not pol)
    elif isinstance(test, ast.BoolOp):
        if (isinstance(test.op, ast.And) and pol) or (isinstance(test.op, ast.Or) and not pol):
            for v in test.values:
                yield from split_fact(v, pol)


def facts_at(mod: Module, fn: ast.AST, node: ast.AST) -> list[tuple[ast.expr, bool]]:
    """(expression, truth value) pairs known to hold whenever `node` is evaluated inside `fn`:
    * tests of the enclosing `if` / conditional expressions / earlier operands of an enclosing and/or,
    * tests of earlier sibling `if` statements one of whose branches never falls through (`if c: return` => not c afterwards).
    A fact is dropped when a local name it reads is re-bound between the test and the node."""
    raw: list[tuple[ast.expr, bool]] = []
    child: ast.AST = node
    for p in mod.parents(node):
        if isinstance(p, ast.If):
            if any(child is s for s in p.body):
                i = [k for k, s in enumerate(p.body) if s is child][0]
                if not (_names(p.test) & _stored_names(p.body[:i])):
                    raw.append((p.test, True))
            elif any(child is s for s in p.orelse):
                i = [k for k, s in enumerate(p.orelse) if s is child][0]
                if not (_names(p.test) & _stored_names(p.orelse[:i])):
                    raw.append((p.test, False))
        elif isinstance(p, ast.IfExp):
            if child is p.body:
                raw.append((p.test, True))
            elif child is p.orelse:
                raw.append((p.test, False))
        elif isinstance(p, ast.BoolOp):
            idx = [k for k, v in enumerate(p.values) if v is child]
            if idx:
                for v in p.values[: idx[0]]:
                    raw.append((v, isinstance(p.op, ast.And)))
        # earlier siblings in whatever statement list holds `child`
        for field in ("body", "orelse", "finalbody"):
            lst = getattr(p, field, None)
            if isinstance(lst, list) and any(child is s for s in lst):
                i = [k for k, s in enumerate(lst) if s is child][0]
                for j, s in enumerate(lst[:i]):
                    if not isinstance(s, ast.If):
                        continue
                    between = _stored_names(lst[j + 1 : i])
                    if _names(s.test) & between:
                        continue
                    if terminates(s.body) and not terminates(s.orelse):
                        if not (_names(s.test) & _stored_names(s.orelse)):
                            raw.append((s.test, False))
                    elif s.orelse and terminates(s.orelse) and not terminates(s.body):
                        if not (_names(s.test) & _stored_names(s.body)):
                            raw.append((s.test, True))
        if p is fn:
            break
        child = p
    out: list[tuple[ast.expr, bool]] = []
    for t, pol in raw:
        out.extend(split_fact(t, pol))
    return out


def with_implied(mod: Module, fn: ast.AST, facts: list[tuple[ast.expr, bool]]) -> list[tuple[ast.expr, bool]]:
    """facts plus what `x is not None` implies when the local x is bound to a non-None value in one place only and None elsewhere:
    whatever held where that value was computed (the usual `x = f() if cond else None ... if x is not None:` shape).  Only facts that
    read no local name are carried over (locals may have been re-bound since)."""
    out = list(facts)
    for e, pol in facts:
        if isinstance(e, ast.Compare) and len(e.ops) == 1 and isinstance(e.left, ast.Name) and isinstance(e.comparators[0], ast.Constant) and e.comparators[0].value is None \
                and ((isinstance(e.ops[0], ast.IsNot) and pol) or (isinstance(e.ops[0], ast.Is) and not pol)):
            sites = []
            for n in own_nodes(fn):
                if isinstance(n, (ast.Assign, ast.AnnAssign)) and n.value is not None:
                    tg = n.targets if isinstance(n, ast.Assign) else [n.target]
                    if any(isinstance(t, ast.Name) and t.id == e.left.id for t in tg) and not (isinstance(n.value, ast.Constant) and n.value.value is None):
                        sites.append(n)

            def _same_guard(fact2) -> bool:
                e2, pol2 = fact2
                return isinstance(e2, ast.Compare) and len(e2.ops) == 1 and isinstance(e2.left, ast.Name) and e2.left.id == e.left.id and isinstance(e2.comparators[0], ast.Constant) \
                    and e2.comparators[0].value is None and ((isinstance(e2.ops[0], ast.IsNot) and pol2) or (isinstance(e2.ops[0], ast.Is) and not pol2))
            # (a re-binding that itself sits under `x is not None` does not count: it only happens once x was non-None already)
            sites = [n for n in sites if not any(_same_guard(f2) for f2 in facts_at(mod, fn, n))]
            if len(sites) == 1:
                rebound = _stored_names(getattr(fn, "body", []))
                at_def = facts_at(mod, fn, sites[0])
                v = sites[0].value
                if isinstance(v, ast.IfExp):  # x = f() if cond else None
                    if isinstance(v.orelse, ast.Constant) and v.orelse.value is None:
                        at_def = at_def + list(split_fact(v.test, True))
                    elif isinstance(v.body, ast.Constant) and v.body.value is None:
                        at_def = at_def + list(split_fact(v.test, False))
                for f2 in at_def:
                    if not (_names(f2[0]) & rebound):
                        out.append(f2)
    return out


# --------------------------------------------------------------------------- local def-use


def local_defs(fn: ast.AST, name: str) -> list[ast.expr]:
    """every expression bound to the local `name` by a plain / annotated / walrus assignment in fn (tuple targets: the matching element
    when the value is a tuple display of the same length, else the whole value)"""
    out: list[ast.expr] = []
    for n in own_nodes(fn):
        if isinstance(n, ast.Assign):
            for t in n.targets:
                if isinstance(t, ast.Name) and t.id == name:
                    out.append(n.value)
                elif isinstance(t, (ast.Tuple, ast.List)):
                    for k, e in enumerate(t.elts):
                        if isinstance(e, ast.Name) and e.id == name:
                            if isinstance(n.value, (ast.Tuple, ast.List)) and len(n.value.elts) == len(t.elts):
                                out.append(n.value.elts[k])
                            else:
                                out.append(n.value)
        elif isinstance(n, ast.AnnAssign) and n.value is not None and isinstance(n.target, ast.Name) and n.target.id == name:
            out.append(n.value)
        elif isinstance(n, ast.NamedExpr) and n.target.id == name:
            out.append(n.value)
    return out


def derives_from(fn: ast.AST, e: ast.AST, pred, depth: int = 4) -> bool:
    """`e` contains a node satisfying pred, directly or through the local names it reads (def-use, `depth` steps)"""
    seen: set[str] = set()

    def go(x: ast.AST, d: int) -> bool:
        for n in ast.walk(x):
            if pred(n):
                return True
        if d <= 0:
            return False
        for n in ast.walk(x):
            if isinstance(n, ast.Name) and isinstance(n.ctx, ast.Load) and n.id not in seen:
                seen.add(n.id)
                for v in local_defs(fn, n.id):
                    if go(v, d - 1):
                        return True
        return False

    return go(e, depth)


def params(fn: ast.AST) -> list[str]:
    a = fn.args  # type: ignore[attr-defined]
    return [x.arg for x in a.posonlyargs + a.args + a.kwonlyargs]


# --------------------------------------------------------------------------- self-call graph of a class


class ClassGraph:
    """methods visible on a concrete class (first definition along the MRO wins) and the calls among them:
    `self.m(...)` resolves from the concrete class, `super().m(...)` / `super(K, self).m(...)` from the class after the caller's.
    Nodes are (defining class full name, method name)."""

    def __init__(self, repo: Repo, cls_full: str):
        self.repo = repo
        self.cls = cls_full
        self.mro = [c for c in repo.typed.mro(cls_full) if c in repo.typed.classes and c.startswith("rdflib.")]
        if not self.mro:
            raise AnalysisError("class %s unknown to the typed program" % cls_full)
        self.defs: dict[tuple[str, str], tuple[Module, ast.FunctionDef]] = {}
        for c in self.mro:
            modname, cname = c.rsplit(".", 1)
            if modname not in repo.modules:
                continue
            mod = repo.modules[modname]
            if not mod.has(cname):
                continue
            for m, f in mod.methods(cname).items():
                self.defs[(c, m)] = (mod, f)
        self.edges: list[tuple[tuple[str, str], ast.Call, tuple[str, str]]] = []
        for (c, m), (mod, f) in self.defs.items():
            for call in own_nodes(f):
                if not (isinstance(call, ast.Call) and isinstance(call.func, ast.Attribute)):
                    continue
                recv = call.func.value
                start = None
                if isinstance(recv, ast.Name) and recv.id == "self":
                    start = 0
                elif isinstance(recv, ast.Call) and isinstance(recv.func, ast.Name) and recv.func.id == "super":
                    start = self.mro.index(c) + 1
                if start is None:
                    continue
                tgt = self.resolve(call.func.attr, start)
                if tgt is not None:
                    self.edges.append(((c, m), call, tgt))

    def resolve(self, name: str, start: int = 0) -> Optional[tuple[str, str]]:
        for c in self.mro[start:]:
            if (c, name) in self.defs:
                return (c, name)
        return None

    def sccs(self, edges=None) -> list[set[tuple[str, str]]]:
        """strongly connected components that contain a cycle (size > 1 or a self loop)"""
        edges = self.edges if edges is None else edges
        succ: dict[tuple[str, str], set[tuple[str, str]]] = {}
        for a, _, b in edges:
            succ.setdefault(a, set()).add(b)
            succ.setdefault(b, set())
        index: dict = {}
        low: dict = {}
        stack: list = []
        on: set = set()
        out: list[set] = []
        counter = [0]

        def strong(v):  # iterative Tarjan
            work = [(v, iter(sorted(succ[v])))]
            index[v] = low[v] = counter[0]
            counter[0] += 1
            stack.append(v)
            on.add(v)
            while work:
                node, it = work[-1]
                adv = False
                for w in it:
                    if w not in index:
                        index[w] = low[w] = counter[0]
                        counter[0] += 1
                        stack.append(w)
                        on.add(w)
                        work.append((w, iter(sorted(succ[w]))))
                        adv = True
                        break
                    elif w in on:
                        low[node] = min(low[node], index[w])
                if adv:
                    continue
                work.pop()
                if work:
                    low[work[-1][0]] = min(low[work[-1][0]], low[node])
                if low[node] == index[node]:
                    comp = set()
                    while True:
                        w = stack.pop()
                        on.discard(w)
                        comp.add(w)
                        if w == node:
                            break
                    if len(comp) > 1 or node in succ[node]:
                        out.append(comp)

        for v in sorted(succ):
            if v not in index:
                strong(v)
        return out


def short(node: tuple[str, str]) -> str:
    return "%s.%s" % (node[0].rsplit(".", 1)[1], node[1])


# --------------------------------------------------------------------------- depth bounds


def _const_int(e: ast.AST) -> Optional[int]:
    if isinstance(e, ast.Constant) and isinstance(e.value, int) and not isinstance(e.value, bool):
        return e.value
    return None


def within_bound(fact: tuple[ast.expr, bool], counter_text: str) -> bool:
    """the fact says `<counter> <= / < bound` (in any spelling) for a bound that is not the counter itself"""
    e, pol = fact
    if not (isinstance(e, ast.Compare) and len(e.ops) == 1):
        return False
    l, op, r = e.left, e.ops[0], e.comparators[0]
    if norm(r) == counter_text and norm(l) != counter_text:
        l, r = r, l
        op = {ast.Lt: ast.Gt, ast.LtE: ast.GtE, ast.Gt: ast.Lt, ast.GtE: ast.LtE}.get(type(op), type(op))()
    if norm(l) != counter_text or any(norm(x) == counter_text for x in ast.walk(r) if isinstance(x, (ast.Name, ast.Attribute))):
        return False
    if isinstance(op, (ast.Lt, ast.LtE)):
        return pol
    if isinstance(op, (ast.Gt, ast.GtE)):
        return not pol
    return False


def net_increment_before(mod: Module, fn: ast.AST, node: ast.AST, attr_text: str) -> int:
    """sum of the constant `attr += k` / `attr -= k` statements that lie on the straight line from the start of fn to `node`
    (statements of the enclosing blocks that precede it; nested branches are not entered)"""
    total = 0
    child: ast.AST = node
    for p in mod.parents(node):
        for field in ("body", "orelse", "finalbody"):
            lst = getattr(p, field, None)
            if isinstance(lst, list) and any(child is s for s in lst):
                i = [k for k, s in enumerate(lst) if s is child][0]
                for s in lst[:i]:
                    if isinstance(s, ast.AugAssign) and norm(s.target) == attr_text and _const_int(s.value) is not None:
                        if isinstance(s.op, ast.Add):
                            total += _const_int(s.value)  # type: ignore[operator]
                        elif isinstance(s.op, ast.Sub):
                            total -= _const_int(s.value)  # type: ignore[operator]
        if p is fn:
            break
        child = p
    return total


# --------------------------------------------------------------------------- round 3 helpers (rules ab .. af of checks/c03.py)


def tri_eval(e: ast.expr, atom) -> Optional[bool]:
    """three-valued value of a boolean expression when `atom(sub-expression)` gives the value of the sub-expressions it knows
    (True / False) and None for the others: and / or / not are evaluated by Kleene's tables"""
    v = atom(e)
    if v is not None:
        return v
    if isinstance(e, ast.UnaryOp) and isinstance(e.op, ast.Not):
        v = tri_eval(e.operand, atom)
        return None if v is None else (not v)
    if isinstance(e, ast.BoolOp):
        vals = [tri_eval(x, atom) for x in e.values]
        if isinstance(e.op, ast.And):
            if any(x is False for x in vals):
                return False
            return True if all(x is True for x in vals) else None
        if any(x is True for x in vals):
            return True
        return False if all(x is False for x in vals) else None
    return None


def method_call_sites(mods: list[Module], name: str) -> list[tuple[Module, str, ast.FunctionDef, ast.Call]]:
    """every `self.<name>(...)` / `super(...).<name>(...)` call in the functions of `mods`"""
    out = []
    for mod in mods:
        for q, f in mod.functions():
            for c in own_nodes(f):
                if isinstance(c, ast.Call) and isinstance(c.func, ast.Attribute) and c.func.attr == name:
                    r = c.func.value
                    if (isinstance(r, ast.Name) and r.id == "self") or (isinstance(r, ast.Call) and isinstance(r.func, ast.Name) and r.func.id == "super"):
                        out.append((mod, q, f, c))
    return out


def arg_of(call: ast.Call, fn: ast.AST, pname: str) -> Optional[ast.expr]:
    """the expression a bound-method call passes for parameter `pname` of fn (self is parameter 0)"""
    for k in call.keywords:
        if k.arg == pname:
            return k.value
    ps = params(fn)[1:]
    if pname in ps and ps.index(pname) < len(call.args) and not any(isinstance(a, ast.Starred) for a in call.args):
        return call.args[ps.index(pname)]
    return None


def enclosing_validator(mod: Module, fn: ast.AST, call: ast.Call, arg: ast.expr, accept=None) -> Optional[tuple[ast.If, str]]:
    """the innermost `if self.<V>(<same arg>):` whose body holds `call` (and, if given, accept(V) holds): (the if, V)"""
    child: ast.AST = call
    for p in mod.parents(call):
        if isinstance(p, ast.If) and any(child is s for s in p.body):
            t = p.test
            if isinstance(t, ast.Call) and isinstance(t.func, ast.Attribute) and isinstance(t.func.value, ast.Name) and t.func.value.id == "self" \
                    and t.args and norm(t.args[0]) == norm(arg) and (accept is None or accept(t.func.attr)):
                return p, t.func.attr
        if p is fn:
            break
        child = p
    return None


def returns_falsy(stmts: list[ast.stmt]) -> bool:
    """the block ends by returning False / None"""
    if not stmts:
        return False
    last = stmts[-1]
    return isinstance(last, ast.Return) and (last.value is None or (isinstance(last.value, ast.Constant) and last.value.value in (False, None)))


def namedtuple_fields(mod: Module, name: str) -> list[str]:
    """fields of a module-level `<name> = namedtuple("<name>", "a, b, ..." | [..])`"""
    for st in mod.tree.body:
        if isinstance(st, ast.Assign) and len(st.targets) == 1 and isinstance(st.targets[0], ast.Name) and st.targets[0].id == name and isinstance(st.value, ast.Call) \
                and norm(st.value.func).split(".")[-1] == "namedtuple" and len(st.value.args) >= 2:
            spec = st.value.args[1]
            try:
                val = ast.literal_eval(spec)
            except ValueError:
                break
            if isinstance(val, str):
                return [x for x in val.replace(",", " ").split() if x]
            return [str(x) for x in val]
    raise AnalysisError("%s: namedtuple %s not found" % (mod.rel, name))


# --------------------------------------------------------------------------- escape maps (rule b), call-site facts (rule t), path facts (rule w)


def _const_str_pair_chain(e: ast.AST) -> tuple[ast.AST, list[tuple[str, str]]]:
    """X.replace(a, b).replace(c, d) -> (X, [(a, b), (c, d)]) in the order of application; constant arguments only"""
    chain: list[tuple[str, str]] = []
    cur = e
    while isinstance(cur, ast.Call) and isinstance(cur.func, ast.Attribute) and cur.func.attr == "replace" and len(cur.args) == 2 and not cur.keywords \
            and all(isinstance(a, ast.Constant) and isinstance(a.value, str) for a in cur.args):
        chain.append((cur.args[0].value, cur.args[1].value))  # type: ignore[attr-defined]
        cur = cur.func.value
    chain.reverse()
    return cur, chain


def _binding_of(mod: Module, fn: Optional[ast.AST], name: str) -> Optional[ast.expr]:
    """the one expression the name is bound to where fn reads it: its only local binding, else its only binding at module level
    (a name bound twice, or re-bound anywhere else in the module, is not resolved)"""
    if fn is not None:
        loc = local_defs(fn, name)
        if name in params(fn) or len(loc) > 1:
            return None
        if loc:
            return loc[0]
    top = [st for st in mod.tree.body if isinstance(st, (ast.Assign, ast.AnnAssign)) and st.value is not None
           and any(isinstance(t, ast.Name) and t.id == name for t in (st.targets if isinstance(st, ast.Assign) else [st.target]))]
    stores = [n for n in ast.walk(mod.tree) if isinstance(n, ast.Name) and n.id == name and isinstance(n.ctx, (ast.Store, ast.Del))]
    if len(top) == 1 and len(stores) == 1:
        return top[0].value
    return None


def _char_key(e: ast.expr) -> Optional[str]:
    """the character a key of a translation table stands for: 34, ord('"')"""
    if isinstance(e, ast.Constant) and isinstance(e.value, int) and not isinstance(e.value, bool) and 0 <= e.value < 0x110000:
        return chr(e.value)
    if isinstance(e, ast.Call) and isinstance(e.func, ast.Name) and e.func.id == "ord" and len(e.args) == 1 and isinstance(e.args[0], ast.Constant) \
            and isinstance(e.args[0].value, str) and len(e.args[0].value) == 1:
        return e.args[0].value
    return None


def _table_value(e: ast.expr) -> Optional[str]:
    if isinstance(e, ast.Constant):
        if isinstance(e.value, str):
            return e.value
        if e.value is None:
            return ""  # the character is deleted
        if isinstance(e.value, int) and not isinstance(e.value, bool) and 0 <= e.value < 0x110000:
            return chr(e.value)
    return None


def char_table(mod: Module, fn: Optional[ast.AST], e: ast.expr, str_keys: bool, depth: int = 4) -> Optional[dict[str, str]]:
    """the constant character -> replacement map an expression evaluates to, or None if that cannot be told:
    a dict display, `str.maketrans(<dict>)`, `str.maketrans("abc", "xyz"[, "deleted"])`, `dict(<display>)`, or a name bound once to one of these
    (in the function or at module level).  `str_keys`: one-character string keys count (a table handed to str.translate *directly* is looked
    up by code point, so there they do not; through str.maketrans, or in a table indexed with the characters themselves, they do)."""
    if depth <= 0:
        return None
    if isinstance(e, ast.Name):
        v = _binding_of(mod, fn, e.id)
        return char_table(mod, fn, v, str_keys, depth - 1) if v is not None else None
    if isinstance(e, ast.Dict):
        out: dict[str, str] = {}
        for k, v in zip(e.keys, e.values):
            if k is None:
                return None
            key = _char_key(k)
            if key is None and isinstance(k, ast.Constant) and isinstance(k.value, str):
                if not str_keys:
                    continue  # never matched by str.translate
                if len(k.value) != 1:
                    return None
                key = k.value
            val = _table_value(v)
            if key is None or val is None:
                return None
            out[key] = val
        return out
    if isinstance(e, ast.Call) and not e.keywords:
        fname = norm(e.func)
        if fname == "dict" and len(e.args) == 1:
            return char_table(mod, fn, e.args[0], str_keys, depth - 1)
        if isinstance(e.func, ast.Attribute) and e.func.attr == "maketrans" and (norm(e.func.value) in ("str", "bytes") or isinstance(e.func.value, ast.Constant)):
            if len(e.args) == 1:
                return char_table(mod, fn, e.args[0], True, depth - 1)
            if len(e.args) in (2, 3) and all(isinstance(a, ast.Constant) and isinstance(a.value, str) for a in e.args):
                a, b = e.args[0].value, e.args[1].value  # type: ignore[attr-defined]
                if len(a) != len(b):
                    return None
                out = dict(zip(a, b))
                if len(e.args) == 3:
                    for ch in e.args[2].value:  # type: ignore[attr-defined]
                        out[ch] = ""
                return out
    return None


class EscapeMap:
    """one place where a function rewrites characters of a string by a constant map.  `pairs` in the order of application;
    `simultaneous`: the map is applied in one pass over the string (str.translate, a per-character table lookup), so what one
    replacement writes is never read by another - a chain of str.replace is sequential"""

    def __init__(self, node: ast.AST, pairs: list[tuple[str, str]], simultaneous: bool, how: str):
        self.node, self.pairs, self.simultaneous, self.how = node, pairs, simultaneous, how

    def as_sequence(self) -> list[tuple[str, str]]:
        """a sequence of replacements with the same result as the map.  For a one-pass map over single characters the only order that
        matters is the backslash's: put first, it doubles the backslashes of the input and none of those the other replacements write"""
        if not self.simultaneous:
            return list(self.pairs)
        return sorted(self.pairs, key=lambda p: p[0] != "\\")


def escape_maps(mod: Module, fn: ast.AST, min_chain: int = 2, within: Optional[list] = None) -> list[EscapeMap]:
    """the escape maps in fn: maximal chains of at least `min_chain` constant str.replace calls; `<s>.translate(<table>)` with a table that
    evaluates to a constant map; `"".join(<table>.get(c, c) for c in <s>)`.  A `.translate()` whose table cannot be evaluated is an
    AnalysisError (an unknown map is neither right nor wrong).  `within`: only these statements of fn are searched.  In source order."""
    out: list[EscapeMap] = []
    inner_of_chain: set[int] = set()
    nodes = sorted((n for root in ([fn] if within is None else within) for n in ast.walk(root) if isinstance(n, ast.Call)), key=lambda n: (n.lineno, n.col_offset, -(n.end_lineno or 0), -(n.end_col_offset or 0)))
    for n in nodes:
        if id(n) in inner_of_chain:
            continue
        base, ch = _const_str_pair_chain(n)
        if len(ch) >= min_chain:
            cur: ast.AST = n
            while cur is not base:
                inner_of_chain.add(id(cur))
                cur = cur.func.value  # type: ignore[attr-defined]
            out.append(EscapeMap(n, ch, False, "chain of str.replace"))
            continue
        if isinstance(n.func, ast.Attribute) and n.func.attr == "translate" and len(n.args) == 1 and not n.keywords:
            tab = char_table(mod, fn, n.args[0], False)
            if tab is None:
                raise AnalysisError("%s: the table of %s could not be evaluated" % (mod.rel, norm(n)[:80]))
            out.append(EscapeMap(n, list(tab.items()), True, "str.translate, one pass"))
            continue
        if isinstance(n.func, ast.Attribute) and n.func.attr == "join" and len(n.args) == 1 and isinstance(n.args[0], (ast.GeneratorExp, ast.ListComp)) \
                and len(n.args[0].generators) == 1 and isinstance(n.args[0].generators[0].target, ast.Name) and not n.args[0].generators[0].ifs:
            var = n.args[0].generators[0].target.id
            elt = n.args[0].elt
            if isinstance(elt, ast.Call) and isinstance(elt.func, ast.Attribute) and elt.func.attr == "get" and len(elt.args) == 2 and not elt.keywords \
                    and all(isinstance(a, ast.Name) and a.id == var for a in elt.args):
                tab = char_table(mod, fn, elt.func.value, True)
                if tab is not None:
                    out.append(EscapeMap(n, list(tab.items()), True, "per-character table lookup, one pass"))
    return out


def module_call_closure(mod: Module, roots: list[str]) -> list[str]:
    """qualified names of the functions of `mod` reachable from `roots` through calls by plain name of module-level functions and
    `self.m()` calls of methods of the same class (roots first, then in order of discovery)"""
    seen: list[str] = []
    todo = [r for r in roots if mod.has(r)]
    while todo:
        q = todo.pop(0)
        if q in seen:
            continue
        seen.append(q)
        f = mod.defs[q]
        cls = q.rsplit(".", 1)[0] if "." in q else None
        for c in ast.walk(f):
            if not isinstance(c, ast.Call):
                continue
            if isinstance(c.func, ast.Name) and mod.has(c.func.id) and isinstance(mod.defs[c.func.id], (ast.FunctionDef, ast.AsyncFunctionDef)):
                todo.append(c.func.id)
            elif cls and isinstance(c.func, ast.Attribute) and isinstance(c.func.value, ast.Name) and c.func.value.id == "self" and mod.has(cls + "." + c.func.attr):
                todo.append(cls + "." + c.func.attr)
    return seen


def counter_bounds(cg: "ClassGraph", inner: list, facts_of: dict):
    """-> f(method, call) = {counter text: raise}: the `self.<attr>` counters known to be within a bound when `call` (an edge of the call
    cycle whose edges are `inner`) is made, with the least net amount the counter was raised since the comparison.
    For every method on the cycle the counters are computed that are within a bound whenever the method is entered *from the cycle* (a
    pass round the cycle enters it through one of these calls).  A counter is within a bound at a call if a comparison that says so holds at
    the call itself, or held at every such entry of the calling method (which then must not assign the counter outright); the raise is
    counted along the straight line to the call.  Least fixed point: nothing is assumed about a method before all its callers are known."""
    def local(a, c) -> dict[str, int]:
        mod, f = cg.defs[a]
        out: dict[str, int] = {}
        for fact in facts_of[id(c)]:
            for x in ast.walk(fact[0]):
                if isinstance(x, ast.Attribute) and isinstance(x.value, ast.Name) and x.value.id == "self":
                    t = norm(x)
                    if within_bound(fact, t):
                        out[t] = net_increment_before(mod, f, c, t)
        return out

    def assigns_outright(a, t: str) -> bool:
        f = cg.defs[a][1]
        for n in own_nodes(f):
            tg = n.targets if isinstance(n, ast.Assign) else [n.target] if isinstance(n, (ast.AnnAssign, ast.NamedExpr)) else []
            if any(norm(x) == t for x in tg):
                return True
            if isinstance(n, ast.AugAssign) and norm(n.target) == t and not (isinstance(n.op, (ast.Add, ast.Sub)) and _const_int(n.value) is not None):
                return True
        return False

    entry: dict = {}

    def at_call(a, c) -> dict[str, int]:
        mod, f = cg.defs[a]
        out = {t: k + net_increment_before(mod, f, c, t) for t, k in entry.get(a, {}).items() if not assigns_outright(a, t)}
        out.update(local(a, c))  # a comparison at the call itself is the most recent one
        return out

    nodes = sorted({b for _, _, b in inner})
    for _ in range(len(nodes) + 2):
        changed = False
        for b in nodes:
            ins = [at_call(a, c) for a, c, b2 in inner if b2 == b]
            common = set(ins[0]).intersection(*[set(d) for d in ins[1:]]) if ins else set()
            new = {t: max(-9, min(d[t] for d in ins)) for t in common}
            if new != entry.get(b, {}):
                entry[b] = new
                changed = True
        if not changed:
            break
    return at_call


def reachable_assuming(fn: ast.AST, target_stmt_or_expr: ast.AST, mod: Module, atom) -> bool:
    """can control reach the statement that evaluates `target` from the entry of fn in a state where `atom(expr)` gives the truth value of
    the conditions it knows (True / False; None = unknown)?  Branches of `if` / `while` whose test has, by Kleene's tables, the other
    value are not taken.  (Exception edges stay: any statement of a try body may raise.)"""
    from .cfg import CFG

    g = CFG(fn)
    tgt = g.node_of(target_stmt_or_expr, mod)
    seen: set[int] = set()
    stack = [g.entry]
    while stack:
        n = stack.pop()
        if n in seen:
            continue
        seen.add(n)
        if n == tgt:
            return True
        node = g.nodes[n]
        verdict = None
        if node.kind == "test" and node.ast is not None:
            verdict = tri_eval(node.ast.test, atom)  # type: ignore[attr-defined]
        for m in g.succ[n]:
            lab = g.edge_label.get((n, m), "")
            if verdict is not None and lab != "exc":
                if (lab == "true") != verdict:
                    continue
            stack.append(m)
    return False


def validators_of(mod: Module, fn: ast.AST, call: ast.Call, arg: Optional[ast.expr], sites_of, depth: int = 3, _seen: frozenset = frozenset(), accept=None) -> Optional[set[str]]:
    """the validator methods V such that `call` (made in fn) is made only for an `arg` that `self.V(arg)` has accepted:
    * the call sits in the body of an `if self.V(<same expression>):` of fn, or
    * `arg` is a parameter of fn that fn never re-binds, and every call of fn (`sites_of(fn)` -> [(module, function, call)], the calls
      the rule knows of) passes for it an expression validated in this sense at that call (so the test may sit one or more
      methods up from the walk it protects).
    None if some way to the call is not validated.  `accept(V)`: which methods count as validators (default: any)."""
    if arg is None:
        return None
    ev = enclosing_validator(mod, fn, call, arg, accept)
    if ev is not None:
        return {ev[1]}
    if depth <= 0 or not isinstance(arg, ast.Name) or arg.id not in params(fn)[1:] or (id(fn), arg.id) in _seen:
        return None
    if any(isinstance(k, ast.Name) and k.id == arg.id and isinstance(k.ctx, (ast.Store, ast.Del)) for k in own_nodes(fn)):
        return None
    sites = sites_of(fn)
    if not sites:
        return None
    out: set[str] = set()
    for mod2, fn2, call2 in sites:
        r = validators_of(mod2, fn2, call2, arg_of(call2, fn, arg.id), sites_of, depth - 1, _seen | {(id(fn), arg.id)}, accept)
        if r is None:
            return None
        out |= r
    return out
