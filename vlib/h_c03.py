"""Helpers of the later C03 rules (checks/c03.py): branch facts that hold at a node, local def-use, and the
self-call graph of a class resolved through its MRO.  Pure `ast`; nothing of the analysed tree is executed."""
from __future__ import annotations

import ast
from typing import Iterator, Optional

from .core import AnalysisError, Module, Repo, norm, own_nodes

# --------------------------------------------------------------------------- branch facts


def terminates(stmts: list[ast.stmt]) -> bool:
    """the statement list never falls through (ends in return / raise / continue / break on every branch)"""
    if not stmts:
        return False
    last = stmts[-1]
    if isinstance(last, (ast.Return, ast.Raise, ast.Continue, ast.Break)):
        return True
    if isinstance(last, ast.If):
        return terminates(last.body) and terminates(last.orelse)
    return False


def _stored_names(stmts) -> set[str]:
    out: set[str] = set()
    for s in stmts:
        for n in ast.walk(s):
            if isinstance(n, ast.Name) and isinstance(n.ctx, (ast.Store, ast.Del)):
                out.add(n.id)
    return out


def _names(e: ast.AST) -> set[str]:
    return {n.id for n in ast.walk(e) if isinstance(n, ast.Name)}


def split_fact(test: ast.expr, pol: bool) -> Iterator[tuple[ast.expr, bool]]:
    """a fact and everything it implies structurally: `a and b` true -> a, b true; `a or b` false -> a, b false; `not a` flips"""
    yield test, pol
    if isinstance(test, ast.UnaryOp) and isinstance(test.op, ast.Not):
        yield from split_fact(test.operand, not pol)
    elif isinstance(test, ast.BoolOp):
        if (isinstance(test.op, ast.And) and pol) or (isinstance(test.op, ast.Or) and not pol):
            for v in test.values:
                yield from split_fact(v, pol)


def facts_at(mod: Module, fn: ast.AST, node: ast.AST) -> list[tuple[ast.expr, bool]]:
    """(expression, truth value) pairs known to hold whenever `node` is evaluated inside `fn`:
    * tests of the enclosing `if` / conditional expressions / earlier operands of an enclosing and/or,
    * tests of earlier sibling `if` statements one of whose branches never falls through (`if c: return` => not c afterwards).
    A fact is dropped when a local name it reads is re-bound between the test and the node."""
    raw: list[tuple[ast.expr, bool]] = []
    child: ast.AST = node
    for p in mod.parents(node):
        if isinstance(p, ast.If):
            if any(child is s for s in p.body):
                i = [k for k, s in enumerate(p.body) if s is child][0]
                if not (_names(p.test) & _stored_names(p.body[:i])):
                    raw.append((p.test, True))
            elif any(child is s for s in p.orelse):
                i = [k for k, s in enumerate(p.orelse) if s is child][0]
                if not (_names(p.test) & _stored_names(p.orelse[:i])):
                    raw.append((p.test, False))
        elif isinstance(p, ast.IfExp):
            if child is p.body:
                raw.append((p.test, True))
            elif child is p.orelse:
                raw.append((p.test, False))
        elif isinstance(p, ast.BoolOp):
            idx = [k for k, v in enumerate(p.values) if v is child]
            if idx:
                for v in p.values[: idx[0]]:
                    raw.append((v, isinstance(p.op, ast.And)))
        # earlier siblings in whatever statement list holds `child`
        for field in ("body", "orelse", "finalbody"):
            lst = getattr(p, field, None)
            if isinstance(lst, list) and any(child is s for s in lst):
                i = [k for k, s in enumerate(lst) if s is child][0]
                for j, s in enumerate(lst[:i]):
                    if not isinstance(s, ast.If):
                        continue
                    between = _stored_names(lst[j + 1 : i])
                    if _names(s.test) & between:
                        continue
                    if terminates(s.body) and not terminates(s.orelse):
                        if not (_names(s.test) & _stored_names(s.orelse)):
                            raw.append((s.test, False))
                    elif s.orelse and terminates(s.orelse) and not terminates(s.body):
                        if not (_names(s.test) & _stored_names(s.body)):
                            raw.append((s.test, True))
        if p is fn:
            break
        child = p
    out: list[tuple[ast.expr, bool]] = []
    for t, pol in raw:
        out.extend(split_fact(t, pol))
    return out


def with_implied(mod: Module, fn: ast.AST, facts: list[tuple[ast.expr, bool]]) -> list[tuple[ast.expr, bool]]:
    """facts plus what `x is not None` implies when the local x is bound to a non-None value in one place only and None elsewhere:
    whatever held where that value was computed (the usual `x = f() if cond else None ... if x is not None:` shape).  Only facts that
    read no local name are carried over (locals may have been re-bound since)."""
    out = list(facts)
    for e, pol in facts:
        if isinstance(e, ast.Compare) and len(e.ops) == 1 and isinstance(e.left, ast.Name) and isinstance(e.comparators[0], ast.Constant) and e.comparators[0].value is None \
                and ((isinstance(e.ops[0], ast.IsNot) and pol) or (isinstance(e.ops[0], ast.Is) and not pol)):
            sites = []
            for n in own_nodes(fn):
                if isinstance(n, (ast.Assign, ast.AnnAssign)) and n.value is not None:
                    tg = n.targets if isinstance(n, ast.Assign) else [n.target]
                    if any(isinstance(t, ast.Name) and t.id == e.left.id for t in tg) and not (isinstance(n.value, ast.Constant) and n.value.value is None):
                        sites.append(n)

            def _same_guard(fact2) -> bool:
                e2, pol2 = fact2
                return isinstance(e2, ast.Compare) and len(e2.ops) == 1 and isinstance(e2.left, ast.Name) and e2.left.id == e.left.id and isinstance(e2.comparators[0], ast.Constant) \
                    and e2.comparators[0].value is None and ((isinstance(e2.ops[0], ast.IsNot) and pol2) or (isinstance(e2.ops[0], ast.Is) and not pol2))
            # (a re-binding that itself sits under `x is not None` does not count: it only happens once x was non-None already)
            sites = [n for n in sites if not any(_same_guard(f2) for f2 in facts_at(mod, fn, n))]
            if len(sites) == 1:
                rebound = _stored_names(getattr(fn, "body", []))
                at_def = facts_at(mod, fn, sites[0])
                v = sites[0].value
                if isinstance(v, ast.IfExp):  # x = f() if cond else None
                    if isinstance(v.orelse, ast.Constant) and v.orelse.value is None:
                        at_def = at_def + list(split_fact(v.test, True))
                    elif isinstance(v.body, ast.Constant) and v.body.value is None:
                        at_def = at_def + list(split_fact(v.test, False))
                for f2 in at_def:
                    if not (_names(f2[0]) & rebound):
                        out.append(f2)
    return out


# --------------------------------------------------------------------------- local def-use


def local_defs(fn: ast.AST, name: str) -> list[ast.expr]:
    """every expression bound to the local `name` by a plain / annotated / walrus assignment in fn (tuple targets: the matching element
    when the value is a tuple display of the same length, else the whole value)"""
    out: list[ast.expr] = []
    for n in own_nodes(fn):
        if isinstance(n, ast.Assign):
            for t in n.targets:
                if isinstance(t, ast.Name) and t.id == name:
                    out.append(n.value)
                elif isinstance(t, (ast.Tuple, ast.List)):
                    for k, e in enumerate(t.elts):
                        if isinstance(e, ast.Name) and e.id == name:
                            if isinstance(n.value, (ast.Tuple, ast.List)) and len(n.value.elts) == len(t.elts):
                                out.append(n.value.elts[k])
                            else:
                                out.append(n.value)
        elif isinstance(n, ast.AnnAssign) and n.value is not None and isinstance(n.target, ast.Name) and n.target.id == name:
            out.append(n.value)
        elif isinstance(n, ast.NamedExpr) and n.target.id == name:
            out.append(n.value)
    return out


def derives_from(fn: ast.AST, e: ast.AST, pred, depth: int = 4) -> bool:
    """`e` contains a node satisfying pred, directly or through the local names it reads (def-use, `depth` steps)"""
    seen: set[str] = set()

    def go(x: ast.AST, d: int) -> bool:
        for n in ast.walk(x):
            if pred(n):
                return True
        if d <= 0:
            return False
        for n in ast.walk(x):
            if isinstance(n, ast.Name) and isinstance(n.ctx, ast.Load) and n.id not in seen:
                seen.add(n.id)
                for v in local_defs(fn, n.id):
                    if go(v, d - 1):
                        return True
        return False

    return go(e, depth)


def params(fn: ast.AST) -> list[str]:
    a = fn.args  # type: ignore[attr-defined]
    return [x.arg for x in a.posonlyargs + a.args + a.kwonlyargs]


# --------------------------------------------------------------------------- self-call graph of a class


class ClassGraph:
    """methods visible on a concrete class (first definition along the MRO wins) and the calls among them:
    `self.m(...)` resolves from the concrete class, `super().m(...)` / `super(K, self).m(...)` from the class after the caller's.
    Nodes are (defining class full name, method name)."""

    def __init__(self, repo: Repo, cls_full: str):
        self.repo = repo
        self.cls = cls_full
        self.mro = [c for c in repo.typed.mro(cls_full) if c in repo.typed.classes and c.startswith("rdflib.")]
        if not self.mro:
            raise AnalysisError("class %s unknown to the typed program" % cls_full)
        self.defs: dict[tuple[str, str], tuple[Module, ast.FunctionDef]] = {}
        for c in self.mro:
            modname, cname = c.rsplit(".", 1)
            if modname not in repo.modules:
                continue
            mod = repo.modules[modname]
            if not mod.has(cname):
                continue
            for m, f in mod.methods(cname).items():
                self.defs[(c, m)] = (mod, f)
        self.edges: list[tuple[tuple[str, str], ast.Call, tuple[str, str]]] = []
        for (c, m), (mod, f) in self.defs.items():
            for call in own_nodes(f):
                if not (isinstance(call, ast.Call) and isinstance(call.func, ast.Attribute)):
                    continue
                recv = call.func.value
                start = None
                if isinstance(recv, ast.Name) and recv.id == "self":
                    start = 0
                elif isinstance(recv, ast.Call) and isinstance(recv.func, ast.Name) and recv.func.id == "super":
                    start = self.mro.index(c) + 1
                if start is None:
                    continue
                tgt = self.resolve(call.func.attr, start)
                if tgt is not None:
                    self.edges.append(((c, m), call, tgt))

    def resolve(self, name: str, start: int = 0) -> Optional[tuple[str, str]]:
        for c in self.mro[start:]:
            if (c, name) in self.defs:
                return (c, name)
        return None

    def sccs(self, edges=None) -> list[set[tuple[str, str]]]:
        """strongly connected components that contain a cycle (size > 1 or a self loop)"""
        edges = self.edges if edges is None else edges
        succ: dict[tuple[str, str], set[tuple[str, str]]] = {}
        for a, _, b in edges:
            succ.setdefault(a, set()).add(b)
            succ.setdefault(b, set())
        index: dict = {}
        low: dict = {}
        stack: list = []
        on: set = set()
        out: list[set] = []
        counter = [0]

        def strong(v):  # iterative Tarjan
            work = [(v, iter(sorted(succ[v])))]
            index[v] = low[v] = counter[0]
            counter[0] += 1
            stack.append(v)
            on.add(v)
            while work:
                node, it = work[-1]
                adv = False
                for w in it:
                    if w not in index:
                        index[w] = low[w] = counter[0]
                        counter[0] += 1
                        stack.append(w)
                        on.add(w)
                        work.append((w, iter(sorted(succ[w]))))
                        adv = True
                        break
                    elif w in on:
                        low[node] = min(low[node], index[w])
                if adv:
                    continue
                work.pop()
                if work:
                    low[work[-1][0]] = min(low[work[-1][0]], low[node])
                if low[node] == index[node]:
                    comp = set()
                    while True:
                        w = stack.pop()
                        on.discard(w)
                        comp.add(w)
                        if w == node:
                            break
                    if len(comp) > 1 or node in succ[node]:
                        out.append(comp)

        for v in sorted(succ):
            if v not in index:
                strong(v)
        return out


def short(node: tuple[str, str]) -> str:
    return "%s.%s" % (node[0].rsplit(".", 1)[1], node[1])


# --------------------------------------------------------------------------- depth bounds


def _const_int(e: ast.AST) -> Optional[int]:
    if isinstance(e, ast.Constant) and isinstance(e.value, int) and not isinstance(e.value, bool):
        return e.value
    return None


def within_bound(fact: tuple[ast.expr, bool], counter_text: str) -> bool:
    """the fact says `<counter> <= / < bound` (in any spelling) for a bound that is not the counter itself"""
    e, pol = fact
    if not (isinstance(e, ast.Compare) and len(e.ops) == 1):
        return False
    l, op, r = e.left, e.ops[0], e.comparators[0]
    if norm(r) == counter_text and norm(l) != counter_text:
        l, r = r, l
        op = {ast.Lt: ast.Gt, ast.LtE: ast.GtE, ast.Gt: ast.Lt, ast.GtE: ast.LtE}.get(type(op), type(op))()
    if norm(l) != counter_text or any(norm(x) == counter_text for x in ast.walk(r) if isinstance(x, (ast.Name, ast.Attribute))):
        return False
    if isinstance(op, (ast.Lt, ast.LtE)):
        return pol
    if isinstance(op, (ast.Gt, ast.GtE)):
        return not pol
    return False


def net_increment_before(mod: Module, fn: ast.AST, node: ast.AST, attr_text: str) -> int:
    """sum of the constant `attr += k` / `attr -= k` statements that lie on the straight line from the start of fn to `node`
    (statements of the enclosing blocks that precede it; nested branches are not entered)"""
    total = 0
    child: ast.AST = node
    for p in mod.parents(node):
        for field in ("body", "orelse", "finalbody"):
            lst = getattr(p, field, None)
            if isinstance(lst, list) and any(child is s for s in lst):
                i = [k for k, s in enumerate(lst) if s is child][0]
                for s in lst[:i]:
                    if isinstance(s, ast.AugAssign) and norm(s.target) == attr_text and _const_int(s.value) is not None:
                        if isinstance(s.op, ast.Add):
                            total += _const_int(s.value)  # type: ignore[operator]
                        elif isinstance(s.op, ast.Sub):
                            total -= _const_int(s.value)  # type: ignore[operator]
        if p is fn:
            break
        child = p
    return total
