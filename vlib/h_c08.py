"""Helpers of checks/c08.py (static only): grammar optionality table, exception-escape analysis, small def-use utilities."""
from __future__ import annotations

import ast
from typing import Iterable, Optional

from vlib.core import AnalysisError, Module, Repo, norm, own_nodes


# --------------------------------------------------------------------------- imports / resolution


def import_map(mod: Module) -> dict[str, tuple[str, str]]:
    """local name -> (module, original name) for every `from M import a [as b]` of the module (any nesting level)"""
    out: dict[str, tuple[str, str]] = {}
    for n in ast.walk(mod.tree):
        if isinstance(n, ast.ImportFrom) and n.module and not n.level:
            for a in n.names:
                out[a.asname or a.name] = (n.module, a.name)
    return out


def resolve_function(repo: Repo, mod: Module, name: str) -> Optional[tuple[Module, ast.FunctionDef]]:
    """the module-level function a bare name refers to in `mod`: defined there, or imported from another rdflib module"""
    d = mod.defs.get(name)
    if isinstance(d, (ast.FunctionDef, ast.AsyncFunctionDef)):
        return mod, d  # type: ignore[return-value]
    imp = import_map(mod).get(name)
    if imp and imp[0] in repo.modules:
        m2 = repo.modules[imp[0]]
        d = m2.defs.get(imp[1])
        if isinstance(d, (ast.FunctionDef, ast.AsyncFunctionDef)):
            return m2, d  # type: ignore[return-value]
    return None


def type_names(e: Optional[ast.expr]) -> set[str]:
    """class names written in an `except` clause / second argument of isinstance (Name, dotted name or tuple of them)"""
    if e is None:
        return set()
    if isinstance(e, ast.Tuple):
        return set().union(*[type_names(x) for x in e.elts]) if e.elts else set()
    if isinstance(e, ast.Name):
        return {e.id}
    if isinstance(e, ast.Attribute):
        return {e.attr}
    return set()


# --------------------------------------------------------------------------- grammar: optional parameters per Comp


def grammar_params(par: Module) -> dict[str, tuple[set[str], set[str]]]:
    """Comp name -> (all Param/ParamList names of the production, those that may be absent: written under Optional()/ZeroOrMore()
    or in only some alternatives of a `|`).  Module-level grammar fragments that are not Comps themselves are inlined."""
    top: dict[str, ast.expr] = {}
    for st in par.tree.body:
        if isinstance(st, ast.Assign) and len(st.targets) == 1 and isinstance(st.targets[0], ast.Name):
            top[st.targets[0].id] = st.value

    def collect(e: ast.AST, optional: bool, out: dict[str, list[bool]], seen: tuple[str, ...]) -> None:
        if isinstance(e, ast.Call):
            fn = norm(e.func)
            if fn in ("Param", "ParamList") and e.args and isinstance(e.args[0], ast.Constant):
                out.setdefault(str(e.args[0].value), []).append(optional)
                return
            if fn == "Comp":
                return  # a nested Comp has its own parameter namespace
            opt = optional or fn in ("Optional", "ZeroOrMore")
            for a in e.args:
                collect(a, opt, out, seen)
            return
        if isinstance(e, ast.BinOp) and isinstance(e.op, ast.BitOr):
            alts: list[ast.AST] = []

            def flat(x: ast.AST) -> None:
                if isinstance(x, ast.BinOp) and isinstance(x.op, ast.BitOr):
                    flat(x.left)
                    flat(x.right)
                else:
                    alts.append(x)

            flat(e)
            subs = []
            for a in alts:
                o: dict[str, list[bool]] = {}
                collect(a, optional, o, seen)
                subs.append(o)
            for k in set().union(*subs):
                in_all = all(k in s for s in subs)
                for s in subs:
                    for v in s.get(k, []):
                        out.setdefault(k, []).append(v or not in_all)
            return
        if isinstance(e, ast.BinOp):
            collect(e.left, optional, out, seen)
            collect(e.right, optional, out, seen)
            return
        if isinstance(e, ast.Name) and e.id in top and e.id not in seen and len(seen) < 5:
            collect(top[e.id], optional, out, seen + (e.id,))

    table: dict[str, tuple[set[str], set[str]]] = {}
    for n in ast.walk(par.tree):
        if isinstance(n, ast.Call) and norm(n.func) == "Comp" and len(n.args) > 1 and isinstance(n.args[0], ast.Constant):
            o: dict[str, list[bool]] = {}
            collect(n.args[1], False, o, ())
            allp, optp = table.setdefault(str(n.args[0].value), (set(), set()))
            allp.update(o)
            optp.update(k for k, v in o.items() if any(v))
    return table


# --------------------------------------------------------------------------- None guards


def non_none_guarded(mod: Module, node: ast.AST, expr_text: str, stop: ast.AST) -> bool:
    """node lies in a branch that is only taken when the expression `expr_text` is not None: body of `if E is not None` / `if E`,
    else-branch of `if E is None` / `if not E` (If statements and conditional expressions, also as a conjunct of an `and`)"""
    child = node
    for p in mod.parents(node):
        if isinstance(p, (ast.If, ast.IfExp)):
            in_body = child in p.body if isinstance(p, ast.If) else child is p.body
            in_else = child in p.orelse if isinstance(p, ast.If) else child is p.orelse
            tests = [p.test]
            if in_body and isinstance(p.test, ast.BoolOp) and isinstance(p.test.op, ast.And):
                tests = list(p.test.values)
            for t in tests:
                pos = None  # True: the test holds iff E is not None
                if isinstance(t, ast.Compare) and len(t.ops) == 1 and isinstance(t.comparators[0], ast.Constant) and t.comparators[0].value is None and norm(t.left) == expr_text:
                    pos = True if isinstance(t.ops[0], ast.IsNot) else False if isinstance(t.ops[0], ast.Is) else None
                elif norm(t) == expr_text:
                    pos = True
                elif isinstance(t, ast.UnaryOp) and isinstance(t.op, ast.Not) and norm(t.operand) == expr_text:
                    pos = False
                if (pos is True and in_body) or (pos is False and in_else):
                    return True
        if p is stop:
            break
        child = p
    return False


# --------------------------------------------------------------------------- exception escape analysis


class Escapes:
    """Which exceptions of one family (subclasses of `root`) can leave a function: raise statements, calls of module-level functions
    (followed through imports, two levels), calls of methods on `self` (resolved in the MRO of the class under analysis, including
    instance-level re-bindings `self.m = self.other` made in an __init__), minus what enclosing try/except clauses catch.  A test on a
    parameter for which the call site passes a constant is decided."""

    def __init__(self, repo: Repo, root: str):
        self.repo = repo
        self.typed = repo.typed
        fam = self.typed.subclasses(root)
        if root not in fam:
            raise AnalysisError("exception family root %s not found" % root)
        # short name -> short names of all its bases (what an except clause may name to catch it)
        self.bases: dict[str, set[str]] = {c.rsplit(".", 1)[1]: {b.rsplit(".", 1)[1] for b in self.typed.mro(c)} for c in fam}
        self._stack: list[int] = []

    def catches(self, handler: ast.ExceptHandler, kind: str) -> bool:
        return handler.type is None or bool(type_names(handler.type) & self.bases[kind])

    # -- methods of a class (own module only)
    def self_methods(self, mod: Module, cfull: str, name: str) -> list[ast.FunctionDef]:
        names = {name}
        prefix = mod.name + "."
        chain = [b.rsplit(".", 1)[1] for b in self.typed.mro(cfull) if b.startswith(prefix)]
        replaced = False
        for cname in chain:  # self.<name> = self.<other> in an __init__: either may be called ...
            init = mod.methods(cname).get("__init__")
            for n in own_nodes(init) if init is not None else ():
                if isinstance(n, ast.Assign) and isinstance(n.value, ast.Attribute) and norm(n.value.value) == "self":
                    for t in n.targets:
                        if isinstance(t, ast.Attribute) and norm(t.value) == "self" and t.attr == name and not replaced:
                            if mod.parent.get(id(n)) is init:
                                # ... unless the re-binding is unconditional (a statement of __init__ itself, most derived class first): only the new one is
                                names = {n.value.attr}
                                replaced = True
                            else:
                                names.add(n.value.attr)
        out = []
        for nm in sorted(names):
            for cname in chain:
                m = mod.methods(cname).get(nm)
                if m is not None:
                    out.append(m)
                    break
        return out

    def of_function(self, mod: Module, fn: ast.AST, cfull: Optional[str] = None, consts: Optional[dict[str, bool]] = None) -> set[str]:
        if id(fn) in self._stack or len(self._stack) > 4:
            return set()
        self._stack.append(id(fn))
        try:
            return self._block(fn.body, (mod, fn, cfull, consts or {}))  # type: ignore[attr-defined]
        finally:
            self._stack.pop()

    def _block(self, stmts: Iterable[ast.stmt], env) -> set[str]:
        out: set[str] = set()
        for st in stmts:
            out |= self._stmt(st, env)
        return out

    def _stmt(self, st: ast.stmt, env) -> set[str]:
        mod, fn, cfull, consts = env
        if isinstance(st, (ast.FunctionDef, ast.AsyncFunctionDef, ast.ClassDef)):
            return set()
        if isinstance(st, ast.Try):
            rest = self._block(st.body, env)
            out: set[str] = set()
            for h in st.handlers:
                caught = {k for k in rest if self.catches(h, k)}
                rest = rest - caught
                out |= self._block(h.body, env)
                if any(isinstance(n, ast.Raise) and n.exc is None for s in h.body for n in ast.walk(s)):
                    out |= caught
            return out | rest | self._block(st.orelse, env) | self._block(st.finalbody, env)
        if isinstance(st, ast.If):
            v = consts.get(st.test.id) if isinstance(st.test, ast.Name) else None
            out = self._expr(st.test, env)
            if v is not False:
                out |= self._block(st.body, env)
            if v is not True:
                out |= self._block(st.orelse, env)
            return out
        if isinstance(st, (ast.For, ast.AsyncFor)):
            return self._expr(st.iter, env) | self._block(st.body, env) | self._block(st.orelse, env)
        if isinstance(st, ast.While):
            return self._expr(st.test, env) | self._block(st.body, env) | self._block(st.orelse, env)
        if isinstance(st, (ast.With, ast.AsyncWith)):
            out = set()
            for it in st.items:
                out |= self._expr(it.context_expr, env)
            return out | self._block(st.body, env)
        if isinstance(st, ast.Match):
            raise AnalysisError("%s: match statement not modelled by the escape analysis" % mod.qual_of(st))
        if isinstance(st, ast.Raise):
            out = self._expr(st, env)
            k = self._raised(st, env)
            if k is not None:
                out.add(k)
            return out
        return self._expr(st, env)

    def _raised(self, st: ast.Raise, env) -> Optional[str]:
        mod, fn, cfull, consts = env
        e = st.exc
        if e is None:
            return None  # re-raise: accounted for at the try statement
        if isinstance(e, ast.Call):
            e = e.func
        nm = next(iter(type_names(e)), None)
        if nm in self.bases:
            return nm
        if isinstance(e, ast.Name):
            # `raise v` of a local: its class is what an enclosing isinstance(v, T) test established
            for p in mod.parents(st):
                if isinstance(p, ast.If):
                    for c in ast.walk(p.test):
                        if isinstance(c, ast.Call) and norm(c.func) == "isinstance" and len(c.args) == 2 and norm(c.args[0]) == e.id:
                            ks = type_names(c.args[1]) & set(self.bases)
                            if ks:
                                return sorted(ks, key=lambda k: len(self.bases[k]))[0]  # the most general one
                if p is fn:
                    break
        return None

    def _expr(self, node: ast.AST, env) -> set[str]:
        mod, fn, cfull, consts = env
        out: set[str] = set()
        stack = [node]
        while stack:
            n = stack.pop()
            if isinstance(n, ast.Lambda):
                continue
            stack.extend(ast.iter_child_nodes(n))
            if not isinstance(n, ast.Call):
                continue
            if isinstance(n.func, ast.Name):
                r = resolve_function(self.repo, mod, n.func.id)
                if r is not None:
                    m2, f2 = r
                    params = [a.arg for a in f2.args.args]
                    cs: dict[str, bool] = {}
                    for i, a in enumerate(n.args):
                        if i < len(params) and isinstance(a, ast.Constant) and isinstance(a.value, bool):
                            cs[params[i]] = a.value
                    for k in n.keywords:
                        if k.arg and isinstance(k.value, ast.Constant) and isinstance(k.value.value, bool):
                            cs[k.arg] = k.value.value
                    # a default that is a bool constant, if the call does not pass the parameter
                    nd = len(params) - len(f2.args.defaults)
                    passed = set(params[: len(n.args)]) | {k.arg for k in n.keywords if k.arg}
                    for i, d in enumerate(f2.args.defaults):
                        p_ = params[nd + i]
                        if p_ not in passed and isinstance(d, ast.Constant) and isinstance(d.value, bool):
                            cs[p_] = d.value
                    out |= self.of_function(m2, f2, None, cs)
            elif isinstance(n.func, ast.Attribute) and isinstance(n.func.value, ast.Name) and cfull is not None \
                    and isinstance(fn, (ast.FunctionDef, ast.AsyncFunctionDef)) and fn.args.args and n.func.value.id == fn.args.args[0].arg:
                for m in self.self_methods(mod, cfull, n.func.attr):
                    out |= self.of_function(mod, m, cfull, None)
        return out


# --------------------------------------------------------------------------- def-use


def first_load_after(fn: ast.AST, name: str, after: ast.AST) -> Optional[ast.Name]:
    """first read (source order) of local `name` in fn after the end of node `after`"""
    pos = (getattr(after, "end_lineno", after.lineno), getattr(after, "end_col_offset", 0))
    loads = [n for n in ast.walk(fn) if isinstance(n, ast.Name) and n.id == name and isinstance(n.ctx, ast.Load) and (n.lineno, n.col_offset) >= pos]
    return min(loads, key=lambda n: (n.lineno, n.col_offset)) if loads else None


def always_returns_value(stmts: list[ast.stmt]) -> bool:
    """every path through the block ends in `return <expr>` or `raise` (no fall-through, no bare return)"""
    if not stmts:
        return False
    for st in stmts:
        for r in ast.walk(st):
            if isinstance(r, ast.Return) and r.value is None:
                return False
    last = stmts[-1]
    if isinstance(last, ast.Return):
        return last.value is not None
    if isinstance(last, ast.Raise):
        return True
    if isinstance(last, ast.If):
        return bool(last.orelse) and always_returns_value(last.body) and always_returns_value(last.orelse)
    if isinstance(last, ast.Try):
        ok_body = always_returns_value(last.orelse) if last.orelse else always_returns_value(last.body)
        return (always_returns_value(last.finalbody) if last.finalbody else False) or (ok_body and all(always_returns_value(h.body) for h in last.handlers))
    if isinstance(last, (ast.With, ast.AsyncWith)):
        return always_returns_value(last.body)
    if isinstance(last, ast.Match):
        # exhaustive only with a case that cannot fail (a wildcard or a bare capture, possibly the alternative of an or-pattern, no guard); every case returns
        return any(c.guard is None and _irrefutable(c.pattern) for c in last.cases) and all(always_returns_value(c.body) for c in last.cases)
    return False


def _irrefutable(p: ast.AST) -> bool:
    if isinstance(p, ast.MatchAs):
        return p.pattern is None or _irrefutable(p.pattern)
    if isinstance(p, ast.MatchOr):
        return any(_irrefutable(x) for x in p.patterns)
    return False


def expand_locals(fn: ast.AST, e: ast.AST, params: set[str], depth: int = 0) -> list[ast.AST]:
    """e together with the (unique) values assigned to the local names it reads, transitively: the expressions e is computed from"""
    out = [e]
    if depth > 4:
        return out
    for n in ast.walk(e):
        if isinstance(n, ast.Name) and isinstance(n.ctx, ast.Load) and n.id not in params:
            defs = [a.value for a in ast.walk(fn) if isinstance(a, ast.Assign) and any(isinstance(t, ast.Name) and t.id == n.id for t in a.targets)]
            if len(defs) == 1:
                out.extend(expand_locals(fn, defs[0], params, depth + 1))
    return out


# --------------------------------------------------------------------------- round 3 (rules s - ac): algebra navigation, dispatch tables, name branches

P_STEPS = ("p", "p1", "p2")  # the operand fields of an algebra node


def const_strings(e: ast.AST, mod: Optional[Module] = None, depth: int = 0) -> Optional[set[str]]:
    """the strings a collection expression holds: a tuple / list / set display of string constants, frozenset(...) / set(...) / tuple(...) / list(...)
    of one, or a name bound exactly once, at module level, to such an expression (a table moved out of the function).  None: not such a collection"""
    if isinstance(e, (ast.Tuple, ast.List, ast.Set)):
        if all(isinstance(x, ast.Constant) and isinstance(x.value, str) for x in e.elts):
            return {x.value for x in e.elts}  # type: ignore[attr-defined]
        return None
    if isinstance(e, ast.Call) and isinstance(e.func, ast.Name) and e.func.id in ("frozenset", "set", "tuple", "list") and len(e.args) == 1 and not e.keywords:
        return const_strings(e.args[0], mod, depth)
    if isinstance(e, ast.Name) and mod is not None and depth < 3:
        binds = []
        for n in ast.walk(mod.tree):
            if isinstance(n, ast.Name) and n.id == e.id and isinstance(n.ctx, (ast.Store, ast.Del)):
                binds.append(n)
        if len(binds) != 1:
            return None  # rebound somewhere (or a local of the same name): not a constant table
        if any(isinstance(n, ast.Attribute) and isinstance(n.value, ast.Name) and n.value.id == e.id and isinstance(mod.parent.get(id(n)), ast.Call)
               and mod.parent[id(n)].func is n for n in ast.walk(mod.tree)):  # type: ignore[attr-defined]
            return None  # a method is called on it (it may be filled or changed at run time)
        for st in mod.tree.body:
            if isinstance(st, ast.Assign) and len(st.targets) == 1 and st.targets[0] is binds[0]:
                return const_strings(st.value, mod, depth + 1)
            if isinstance(st, ast.AnnAssign) and st.target is binds[0] and st.value is not None:
                return const_strings(st.value, mod, depth + 1)
    return None


def name_tests(test: ast.AST, subject: str, mod: Optional[Module] = None) -> set[str]:
    """the node names a test selects: K of `<subject>.name == "K"`, K1.. of `<subject>.name in <collection of "K1", ...>` (anywhere in the test, e.g. as a
    conjunct); the collection is a display or a module-level constant table (see const_strings)"""
    out: set[str] = set()
    for t in ast.walk(test):
        if isinstance(t, ast.Compare) and len(t.ops) == 1 and norm(t.left) == subject + ".name":
            c = t.comparators[0]
            if isinstance(t.ops[0], ast.Eq) and isinstance(c, ast.Constant) and isinstance(c.value, str):
                out.add(c.value)
            elif isinstance(t.ops[0], ast.In):
                if isinstance(c, (ast.Tuple, ast.List, ast.Set)):
                    out |= {x.value for x in c.elts if isinstance(x, ast.Constant) and isinstance(x.value, str)}
                else:
                    out |= const_strings(c, mod) or set()
    return out


def name_branches(fn: ast.AST, subject: str, mod: Optional[Module] = None) -> list[tuple[set[str], ast.If]]:
    """every `if` of fn (nested defs excluded) whose test selects algebra / parse node names of `subject`"""
    out = []
    for n in own_nodes(fn):
        if isinstance(n, ast.If):
            ks = name_tests(n.test, subject, mod)
            if ks:
                out.append((ks, n))
    return out


def dispatch_table(mod: Module, fname: str = "evalPart") -> dict[str, str]:
    """algebra node name -> name of the evaluator function: `if part.name == "K": return evalK(ctx, part)` chain of evalPart"""
    f = mod.func(fname)
    if len(f.args.args) < 2:
        raise AnalysisError("%s: signature not recognised" % fname)
    subj = f.args.args[1].arg
    table: dict[str, str] = {}
    for ks, br in name_branches(f, subj, mod):
        for st in br.body:
            if isinstance(st, ast.Return) and isinstance(st.value, ast.Call) and isinstance(st.value.func, ast.Name) \
                    and any(isinstance(a, ast.Name) and a.id == subj for a in st.value.args):
                for k in ks:
                    table[k] = st.value.func.id
    return table


def root_name(e: ast.AST) -> Optional[str]:
    """the local name an attribute / subscript / call chain starts from"""
    while isinstance(e, (ast.Attribute, ast.Subscript, ast.Call)):
        e = e.func if isinstance(e, ast.Call) else e.value
    return e.id if isinstance(e, ast.Name) else None


def local_values(fn: ast.AST, name: str) -> list[ast.expr]:
    """the values assigned to local `name` in fn (plain and annotated assignments)"""
    out = []
    for a in own_nodes(fn):
        if isinstance(a, ast.Assign) and any(isinstance(t, ast.Name) and t.id == name for t in a.targets):
            out.append(a.value)
        elif isinstance(a, ast.AnnAssign) and isinstance(a.target, ast.Name) and a.target.id == name and a.value is not None:
            out.append(a.value)
    return out


def flag_polarity(test: ast.AST, node: str, flag: str) -> Optional[bool]:
    """True: the test holds iff <node>.<flag> is set; False: iff it is not; None: the test does not read the flag.  Unmodelled forms raise."""
    reads = [a for a in ast.walk(test) if isinstance(a, ast.Attribute) and a.attr == flag and norm(a.value) == node]
    if not reads:
        return None
    t = test
    if isinstance(t, ast.Attribute):
        return True
    if isinstance(t, ast.UnaryOp) and isinstance(t.op, ast.Not) and isinstance(t.operand, ast.Attribute):
        return False
    if isinstance(t, ast.Compare) and len(t.ops) == 1 and isinstance(t.left, ast.Attribute) and isinstance(t.comparators[0], ast.Constant) and isinstance(t.comparators[0].value, bool):
        positive = isinstance(t.ops[0], (ast.Is, ast.Eq))
        if not positive and not isinstance(t.ops[0], (ast.IsNot, ast.NotEq)):
            raise AnalysisError("test of .%s not modelled: %s" % (flag, norm(test)))
        return positive == t.comparators[0].value
    raise AnalysisError("test of .%s not modelled: %s" % (flag, norm(test)))


def leaves(stmts: list[ast.stmt]) -> bool:
    """the block always ends in return / raise (a bare return counts: generators)"""
    if not stmts:
        return False
    last = stmts[-1]
    if isinstance(last, (ast.Return, ast.Raise)):
        return True
    if isinstance(last, ast.If):
        return bool(last.orelse) and leaves(last.body) and leaves(last.orelse)
    return False


def established(mod: Module, fn: ast.AST, site: ast.AST, holds) -> bool:
    """a fact is known at `site`: `holds(test)` answers (the fact follows when the test is true, the fact follows when the test is false) for the test
    of an if / conditional expression / while; the site lies in the branch from which the fact follows, or an earlier statement of an enclosing block is
    `if <test whose being false gives the fact>: ... return / raise` (a guard clause).  Dominance by structure, no names involved"""
    child = site
    for p in mod.parents(site):
        if isinstance(p, (ast.If, ast.IfExp)):
            in_body = child in p.body if isinstance(p, ast.If) else child is p.body
            in_else = child in p.orelse if isinstance(p, ast.If) else child is p.orelse
            if in_body or in_else:
                when_true, when_false = holds(p.test)
                if (when_true and in_body) or (when_false and in_else):
                    return True
        for field in ("body", "orelse", "finalbody"):
            blk = getattr(p, field, None)
            if isinstance(blk, list) and child in blk:
                for prev in blk[: blk.index(child)]:
                    if isinstance(prev, ast.If) and not prev.orelse and leaves(prev.body) and holds(prev.test)[1]:
                        return True
        if p is fn:
            break
        child = p
    return False


def flag_gated(mod: Module, fn: ast.AST, site: ast.AST, node: str, flag: str) -> bool:
    """site is only reached when <node>.<flag> is set: it lies in the body of `if <flag set>` / the else of `if <flag not set>`, or an earlier
    statement of an enclosing block is `if <flag not set>: ... return`"""

    def holds(test: ast.AST) -> tuple[bool, bool]:
        pol = flag_polarity(test, node, flag)
        return pol is True, pol is False

    return established(mod, fn, site, holds)


def instance_test(subject: str, cls: str):
    """`holds` function (see established) of the fact `<subject> is an instance of <cls>`: isinstance(<subject>, <cls>), its negation, as a conjunct of an
    `and` (when true) or its negation as a disjunct of an `or` (when false)"""

    def holds(test: ast.AST) -> tuple[bool, bool]:
        if isinstance(test, ast.Call) and norm(test.func) == "isinstance" and len(test.args) == 2 and norm(test.args[0]) == subject:
            names = type_names(test.args[1])
            # being in one of several classes does not make it a <cls> when the test is what is left over
            return cls in names, False
        if isinstance(test, ast.UnaryOp) and isinstance(test.op, ast.Not):
            t, f = holds(test.operand)
            if t and isinstance(test.operand, ast.Call) and type_names(test.operand.args[1]) != {cls}:
                t = False
            return f, t
        if isinstance(test, ast.BoolOp) and isinstance(test.op, ast.And):
            return any(holds(v)[0] for v in test.values), False
        if isinstance(test, ast.BoolOp) and isinstance(test.op, ast.Or):
            return False, any(holds(v)[1] for v in test.values)
        return False, False

    return holds


# --------------------------------------------------------------------------- the callable a key= expression evaluates to


def resolve_callable(repo: Repo, mod: Module, name: str, at: ast.AST) -> Optional[tuple[Module, ast.FunctionDef]]:
    """the function a bare name read at `at` refers to: a def nested in one of the enclosing functions (innermost first), else a module-level function of
    `mod`, else one imported from another module of the package"""
    for p in mod.parents(at):
        if isinstance(p, (ast.FunctionDef, ast.AsyncFunctionDef)):
            for n in own_nodes(p):
                if isinstance(n, (ast.FunctionDef, ast.AsyncFunctionDef)) and n.name == name:
                    return mod, n  # type: ignore[return-value]
    return resolve_function(repo, mod, name)


def _positional(f: ast.AST) -> list[str]:
    return [a.arg for a in f.args.posonlyargs + f.args.args]  # type: ignore[attr-defined]


def key_chain(repo: Repo, mod: Module, key: ast.AST, at: ast.AST) -> list[tuple[Module, ast.FunctionDef, Optional[str]]]:
    """The functions of the package whose return value is the sort key when `key` is used as key= (of sorted / min / max) at `at`, outermost first, each with the
    name of its parameter that carries the element being ordered (None if no argument depends on it).  `key` is whatever evaluates to the callable: a lambda whose body is a call of such a
    function, a name of one (nested def, module-level, imported), functools.partial(<one>, ...), an instance `K(...)` of a class of the package with a __call__
    method, or a local bound once to one of these; a function whose whole body is `return g(...)` hands on to g.  The last entry is the
    function that computes the key.  [] for a key that is an expression or a builtin"""
    out: list[tuple[Module, ast.FunctionDef, Optional[str]]] = []

    def follow(m: Module, call: ast.AST, elem: set[str], site: ast.AST) -> None:
        if len(out) > 4 or not (isinstance(call, ast.Call) and isinstance(call.func, ast.Name)):
            return
        r = resolve_callable(repo, m, call.func.id, site)
        if r is None:
            return
        m2, g = r
        params = _positional(g)
        subject = None
        for i, a in enumerate(call.args):
            if i < len(params) and any(isinstance(x, ast.Name) and x.id in elem for x in ast.walk(a)):
                subject = params[i]
                break
        if subject is None:
            for k in call.keywords:
                if k.arg and any(isinstance(x, ast.Name) and x.id in elem for x in ast.walk(k.value)):
                    subject = k.arg
                    break
        enter(m2, g, subject)

    def enter(m: Module, f: ast.FunctionDef, subject: Optional[str]) -> None:
        if any(f is g for _m, g, _s in out):
            return
        out.append((m, f, subject))
        body = [st for st in f.body if not (isinstance(st, ast.Expr) and isinstance(st.value, ast.Constant) and isinstance(st.value.value, str))]
        if subject is not None and len(body) == 1 and isinstance(body[0], ast.Return) and body[0].value is not None:
            follow(m, body[0].value, {subject}, body[0])

    def callable_of(m: Module, key: ast.AST, site: ast.AST, depth: int = 0) -> None:
        """enter the function that is run when the value of `key` is called with the element as its only argument"""
        if isinstance(key, ast.Lambda):
            follow(m, key.body, {a.arg for a in key.args.posonlyargs + key.args.args}, site)
        elif isinstance(key, ast.Name):
            r = resolve_callable(repo, m, key.id, site)
            if r is not None:
                ps = _positional(r[1])
                enter(r[0], r[1], ps[0] if ps else None)
            elif depth < 3:
                # a local bound once, to an expression that evaluates to a callable (key_of = <lambda / partial / instance>)
                fn = next((p for p in m.parents(site) if isinstance(p, (ast.FunctionDef, ast.AsyncFunctionDef))), None)
                vals = local_values(fn, key.id) if fn is not None else []
                stores = [n for n in ast.walk(fn) if isinstance(n, ast.Name) and n.id == key.id and isinstance(n.ctx, (ast.Store, ast.Del))] if fn is not None else []
                if len(vals) == 1 and len(stores) == 1:
                    callable_of(m, vals[0], site, depth + 1)
        elif isinstance(key, ast.Call) and depth < 3:
            fname = key.func.attr if isinstance(key.func, ast.Attribute) else key.func.id if isinstance(key.func, ast.Name) else None
            if fname == "partial" and key.args and _is_functools_partial(m, key.func):
                # functools.partial(f, a, b, k=..): f is called with the element after the positional arguments already given
                inner = key.args[0]
                if isinstance(inner, ast.Name):
                    r = resolve_callable(repo, m, inner.id, site)
                    if r is not None:
                        ps = [p_ for p_ in _positional(r[1])[len(key.args) - 1:] if p_ not in {k.arg for k in key.keywords}]
                        enter(r[0], r[1], ps[0] if ps else None)
            elif isinstance(key.func, ast.Name):
                # an instance of a class of the package that defines __call__: calling it runs __call__(self, element)
                rc = resolve_class(repo, m, key.func.id)
                if rc is not None:
                    cm, call = rc
                    ps = _positional(call)
                    enter(cm, call, ps[1] if len(ps) > 1 else None)

    callable_of(mod, key, at)
    return out


def _is_functools_partial(mod: Module, func: ast.AST) -> bool:
    """`functools.partial` / `partial` imported from functools"""
    if isinstance(func, ast.Attribute):
        return isinstance(func.value, ast.Name) and func.value.id == "functools" and func.attr == "partial"
    if isinstance(func, ast.Name):
        for n in ast.walk(mod.tree):
            if isinstance(n, ast.ImportFrom) and n.module == "functools" and any((a.asname or a.name) == func.id and a.name == "partial" for a in n.names):
                return True
    return False


def resolve_class(repo: Repo, mod: Module, name: str) -> Optional[tuple[Module, ast.FunctionDef]]:
    """(module, the __call__ method) of the class of the package a bare name refers to in `mod` (defined there or imported), __call__ looked up along
    the bases that live in the same module; None if the name is not such a class"""
    d = mod.defs.get(name)
    m2 = mod
    if not isinstance(d, ast.ClassDef):
        imp = import_map(mod).get(name)
        if not imp or imp[0] not in repo.modules:
            return None
        m2 = repo.modules[imp[0]]
        d = m2.defs.get(imp[1])
        if not isinstance(d, ast.ClassDef):
            return None
    seen = set()
    todo = [d]
    while todo:
        c = todo.pop(0)
        if id(c) in seen:
            continue
        seen.add(id(c))
        for st in c.body:
            if isinstance(st, ast.FunctionDef) and st.name == "__call__":
                return m2, st
        for b in c.bases:
            if isinstance(b, ast.Name) and isinstance(m2.defs.get(b.id), ast.ClassDef):
                todo.append(m2.defs[b.id])  # type: ignore[arg-type]
    return None


def sort_key_sites(repo: Repo, mods: Iterable[Module]) -> list[tuple[Module, ast.Call, list[tuple[Module, ast.FunctionDef, Optional[str]]]]]:
    """every sorted(..., key=K) / min(..., key=K) / max(..., key=K) of the modules, with the chain of functions K evaluates to (key_chain)"""
    out = []
    for m in mods:
        for c in ast.walk(m.tree):
            if sort_callee(m, c) is not None:
                for k in c.keywords:  # type: ignore[attr-defined]
                    if k.arg == "key":
                        out.append((m, c, key_chain(repo, m, k.value, c)))
    return out


def sort_callee(mod: Module, c: ast.AST) -> Optional[str]:
    """'sorted' / 'min' / 'max' when `c` is a call that fixes the key= of that builtin: the call of the builtin itself, or functools.partial(<builtin>, ..., key=K) -
    the callable so made orders whatever it is called with by K, wherever it is bound (a local, a class attribute, a staticmethod)"""
    if not isinstance(c, ast.Call):
        return None
    f = c.func
    if isinstance(f, ast.Name) and f.id in ("sorted", "min", "max"):
        return f.id
    if c.args and isinstance(c.args[0], ast.Name) and c.args[0].id in ("sorted", "min", "max") and _is_functools_partial(mod, f):
        return c.args[0].id
    return None


def term_key_functions(repo: Repo, ev: Module, ag: Module, sites) -> list[tuple[Module, ast.FunctionDef, str, list[ast.Return]]]:
    """The key functions (last of each key chain of `sites`, see sort_key_sites) that order terms, each once, with the parameter carrying the term and its
    `return`s that are reached only with that parameter known to be a Literal.  By role: the sorts of the evaluator the dispatch of evalPart names for the
    OrderBy node and of the Accumulator classes (MIN, MAX) are over terms - a key function there without a case for literals is an AnalysisError; the key of
    another sort takes part if it has such a case, and otherwise is not a key over terms (it orders triple patterns, numbers, ...)"""
    try:
        orderby = dispatch_table(ev).get("OrderBy")
    except AnalysisError:
        orderby = None
    typed = repo.typed
    out: dict[int, tuple[Module, ast.FunctionDef, str, list[ast.Return]]] = {}
    for m, c, chain in sites:
        if not chain:
            continue
        km, kfn, subject = chain[-1]
        top = m.qual_of(c).split(".")[0]
        by_role = (m is ev and orderby is not None and top == orderby) or (
            m is ag and isinstance(m.defs.get(top), ast.ClassDef) and typed.is_subclass(m.name + "." + top, m.name + ".Accumulator"))
        rets: list[ast.Return] = []
        if subject is not None:
            holds = instance_test(subject, "Literal")
            rets = [r for r in own_nodes(kfn) if isinstance(r, ast.Return) and established(km, kfn, r, holds)]
        if not rets:
            if by_role:
                raise AnalysisError("%s: branch for Literal not found" % kfn.name)
            continue
        out[id(kfn)] = (km, kfn, subject, sorted(merge_returns(km, kfn, rets), key=lambda r: r.lineno))  # type: ignore[arg-type]
    return list(out.values())


def block_value(stmts: list[ast.stmt]) -> Optional[ast.expr]:
    """The one expression a block of statements returns, when the block is nothing but a decision which value to return: `return E` is E;
    `if T: <block A> else: <block B>` and the guard clause `if T: <block A>` followed by <block B> are `A if T else B`; two tuples of the same length are
    merged component by component (`(a, x) if T else (a, y)` is `(a, x if T else y)`: a component that is the same on both sides stays as it is).  Assignments
    to plain local names between the tests are passed over (the readers look the single definition of a local up in the function).  None for anything else"""
    stmts = [st for st in stmts if not (isinstance(st, ast.Assign) and all(isinstance(t, ast.Name) for t in st.targets))
             and not (isinstance(st, ast.AnnAssign) and isinstance(st.target, ast.Name))]
    if not stmts:
        return None
    first = stmts[0]
    if isinstance(first, ast.Return):
        return first.value
    if isinstance(first, ast.If):
        a = block_value(first.body)
        b = block_value(first.orelse) if first.orelse else block_value(stmts[1:]) if leaves(first.body) else None
        if a is None or b is None:
            return None
        return _choice(first.test, a, b)
    return None


def _choice(test: ast.expr, a: ast.expr, b: ast.expr) -> ast.expr:
    if norm(a) == norm(b):
        return a
    if isinstance(a, ast.Tuple) and isinstance(b, ast.Tuple) and len(a.elts) == len(b.elts) and not any(isinstance(e, ast.Starred) for e in a.elts + b.elts):
        return ast.copy_location(ast.Tuple(elts=[_choice(test, x, y) for x, y in zip(a.elts, b.elts)], ctx=ast.Load()), a)
    return ast.copy_location(ast.IfExp(test=test, body=a, orelse=b), a)


def merge_returns(mod: Module, fn: ast.AST, rets: list[ast.Return]) -> list[ast.Return]:
    """`rets` (returns of fn that share a fact, e.g. all reached only with the parameter known to be a Literal) with those that are the outcomes of one decision
    replaced by a single return of the merged value (block_value): `if P: return (3, False, '', v)` / `return (3, True, str(v.datatype), v)` is read as
    `return (3, False if P else True, '' if P else str(v.datatype), v)` - the key as a function of the element, however the cases are laid out.  A tail of a
    block is merged only if every return in it is one of `rets`; returns that are not part of such a tail are kept as they are"""
    inset = {id(r) for r in rets}

    def wholly(node: ast.AST) -> bool:
        return all(id(r) in inset for r in ast.walk(node) if isinstance(r, ast.Return))

    tops: dict[int, ast.AST] = {}
    for r in rets:
        top: ast.AST = r
        for p in mod.parents(r):
            if p is fn or not (isinstance(p, ast.If) and wholly(p)):
                break
            top = p
        tops[id(top)] = top
    out: list[ast.Return] = []
    done: set[int] = set()
    for top in tops.values():
        if id(top) in done:
            continue
        parent = next(iter(mod.parents(top)), None)
        blk = next((b for f_ in ("body", "orelse", "finalbody") for b in [getattr(parent, f_, None)] if isinstance(b, list) and top in b), None)
        tail = blk[blk.index(top):] if blk is not None else [top]
        # the tail starts at the first of the top nodes of this block
        firsts = [t for t in (blk or []) if id(t) in tops]
        if firsts:
            tail = blk[blk.index(firsts[0]):]  # type: ignore[index]
        val = block_value(tail) if all(wholly(st) for st in tail) and len([r for st in tail for r in ast.walk(st) if isinstance(r, ast.Return)]) > 1 else None
        members = [t for t in tail if id(t) in tops] if val is not None else [top]
        for t in members:
            done.add(id(t))
        if val is not None:
            first_ret = min((r for st in tail for r in ast.walk(st) if isinstance(r, ast.Return)), key=lambda r: (r.lineno, r.col_offset))
            out.append(ast.copy_location(ast.Return(value=val), first_ret))
        else:
            out.extend(r for r in ast.walk(top) if isinstance(r, ast.Return))
    return out


def subst_locals(fn: ast.AST, e: ast.AST, params: set[str], depth: int = 0) -> ast.AST:
    """e with every local name that is bound exactly once in fn, by a plain assignment that is a statement of fn's own body (so on every path) and lies before
    e, replaced by the value assigned (transitively): the expression in terms of the parameters.  Names bound more than once, or conditionally, stay"""
    if depth > 4:
        return e
    fbody = getattr(fn, "body", [])

    def single_def(name: str, before: int) -> Optional[ast.expr]:
        stores = [n for n in ast.walk(fn) if isinstance(n, ast.Name) and n.id == name and isinstance(n.ctx, (ast.Store, ast.Del))]
        if len(stores) != 1:
            return None
        for st in fbody:
            if isinstance(st, ast.Assign) and len(st.targets) == 1 and st.targets[0] is stores[0] and st.lineno < before:
                return st.value
            if isinstance(st, ast.AnnAssign) and st.target is stores[0] and st.value is not None and st.lineno < before:
                return st.value
        return None

    class Sub(ast.NodeTransformer):
        def visit_Name(self, n: ast.Name):  # noqa: N802
            if isinstance(n.ctx, ast.Load) and n.id not in params:
                v = single_def(n.id, getattr(n, "lineno", 10 ** 9))
                if v is not None:
                    return subst_locals(fn, v, params, depth + 1)
            return n

        def visit_Lambda(self, n):  # noqa: N802
            return n

    import copy

    return Sub().visit(copy.deepcopy(e))


def stored_names(stmts: Iterable[ast.AST]) -> set[str]:
    """every local name bound somewhere in the statements (assignment, loop / comprehension target, with, except)"""
    out = set()
    for s in stmts:
        for n in ast.walk(s):
            if isinstance(n, ast.Name) and isinstance(n.ctx, ast.Store):
                out.add(n.id)
    return out


def walk_with_parents(e: ast.AST) -> Iterable[tuple[ast.AST, tuple[ast.AST, ...]]]:
    stack: list[tuple[ast.AST, tuple[ast.AST, ...]]] = [(e, ())]
    while stack:
        n, ps = stack.pop()
        yield n, ps
        for c in ast.iter_child_nodes(n):
            stack.append((c, ps + (n,)))


def expand_all(fn: ast.AST, e: ast.AST, params: set[str], depth: int = 0, seen: Optional[set[str]] = None) -> list[ast.AST]:
    """like expand_locals, but follows every assignment of a local (a name assigned on several paths, or re-assigned in terms of itself)"""
    seen = set() if seen is None else seen
    out = [e]
    if depth > 4:
        return out
    for n in ast.walk(e):
        if isinstance(n, ast.Name) and isinstance(n.ctx, ast.Load) and n.id not in params and n.id not in seen:
            seen.add(n.id)
            for v in local_values(fn, n.id):
                out.extend(expand_all(fn, v, params, depth + 1, seen))
    return out


# --------------------------------------------------------------------------- second wave: local closures, callables, constant tables, properties


def nested_defs(fn: ast.AST) -> dict[str, ast.FunctionDef]:
    """the defs nested directly in fn (any block of it) whose name is bound nowhere else in fn: a call `h(..)` in fn calls that def"""
    found: dict[str, list[ast.FunctionDef]] = {}
    for n in own_nodes(fn):
        if isinstance(n, (ast.FunctionDef, ast.AsyncFunctionDef)):
            found.setdefault(n.name, []).append(n)  # type: ignore[arg-type]
    other = {n.id for n in own_nodes(fn) if isinstance(n, ast.Name) and isinstance(n.ctx, (ast.Store, ast.Del))}
    other |= {a.arg for a in getattr(fn, "args", ast.arguments(posonlyargs=[], args=[], kwonlyargs=[], kw_defaults=[], defaults=[])).args}
    return {k: v[0] for k, v in found.items() if len(v) == 1 and k not in other}


def _binds(fn: ast.AST, names: set[str]) -> bool:
    """fn has one of `names` as a parameter or binds it (it is then a local of fn, not the captured variable)"""
    a = fn.args  # type: ignore[attr-defined]
    params = {x.arg for x in a.posonlyargs + a.args + a.kwonlyargs} | ({a.vararg.arg} if a.vararg else set()) | ({a.kwarg.arg} if a.kwarg else set())
    if params & names:
        return True
    for n in own_nodes(fn):
        if isinstance(n, ast.Name) and n.id in names and isinstance(n.ctx, (ast.Store, ast.Del)):
            return True
    return False


def effect_sites(fn: ast.AST, is_effect, captured: set[str], depth: int = 0) -> list[tuple[ast.AST, ast.AST]]:
    """Where fn performs an effect on one of its locals `captured`: (site, effect) for every node of fn's own body that is the effect (site is the node
    itself), and for every call in fn's own body of a def nested in fn - which sees the local as a closure variable - whose body performs it, directly or
    through another nested def (site is the call in fn, effect the node in the nested def).  Extract-into-a-local-function keeps the sites"""
    out: list[tuple[ast.AST, ast.AST]] = [(n, n) for n in own_nodes(fn) if is_effect(n)]
    if depth > 2:
        return out
    defs = nested_defs(fn)
    inner: dict[str, list[ast.AST]] = {}
    for name, d in defs.items():
        if _binds(d, captured):
            continue
        effs = [e for _s, e in effect_sites(d, is_effect, captured, depth + 1)]
        # a sibling nested def called from this one
        for c in own_nodes(d):
            if isinstance(c, ast.Call) and isinstance(c.func, ast.Name) and c.func.id in defs and c.func.id != name and not _binds(defs[c.func.id], captured):
                effs += [n for n in own_nodes(defs[c.func.id]) if is_effect(n)]
        if effs:
            inner[name] = effs
    for c in own_nodes(fn):
        if isinstance(c, ast.Call) and isinstance(c.func, ast.Name) and c.func.id in inner:
            out.extend((c, e) for e in inner[c.func.id])
    return out


def simple_properties(repo: Repo, mod: Module, cls: str) -> dict[str, tuple[str, ast.expr]]:
    """name -> (name of self, the expression returned) for every @property of the class `cls` of `mod` whose body is a single `return <expr>`
    and that no subclass of the class (in the package) defines again: reading it on an instance of the class IS evaluating that expression on it"""
    out: dict[str, tuple[str, ast.expr]] = {}
    c = mod.cls(cls)
    for st in c.body:
        if not isinstance(st, ast.FunctionDef) or len(st.args.args) != 1 or st.args.vararg or st.args.kwarg or st.args.kwonlyargs:
            continue
        if not any((isinstance(d, ast.Name) and d.id == "property") for d in st.decorator_list) or len(st.decorator_list) != 1:
            continue
        body = [b for b in st.body if not (isinstance(b, ast.Expr) and isinstance(b.value, ast.Constant) and isinstance(b.value.value, str))]
        if len(body) == 1 and isinstance(body[0], ast.Return) and body[0].value is not None:
            out[st.name] = (st.args.args[0].arg, body[0].value)
    # a setter / deleter / second definition under the same name in the class: not a plain computed value
    counts: dict[str, int] = {}
    for st in c.body:
        if isinstance(st, (ast.FunctionDef, ast.AsyncFunctionDef)):
            counts[st.name] = counts.get(st.name, 0) + 1
    full = mod.name + "." + cls
    for sub in repo.typed.subclasses(full):
        if sub != full:
            for name in list(out):
                if name in repo.typed.classes.get(sub, {}).get("defs", ()):
                    del out[name]
    return {k: v for k, v in out.items() if counts.get(k) == 1}


def expand_property_reads(e: ast.AST, props: dict[str, tuple[str, ast.expr]], depth: int = 0) -> ast.AST:
    """e with every read `<name>.<p>` of a computed property p of `props` (see simple_properties) replaced by the property's expression, self being <name>
    (properties that only hand out a stored attribute stay as they are written)"""
    import copy

    class Subst(ast.NodeTransformer):
        def __init__(self, frm: str, to: str):
            self.frm, self.to = frm, to

        def visit_Name(self, n: ast.Name):  # noqa: N802
            return ast.copy_location(ast.Name(id=self.to, ctx=n.ctx), n) if n.id == self.frm else n

        def visit_Lambda(self, n):  # noqa: N802
            return n

    class Exp(ast.NodeTransformer):
        def visit_Attribute(self, n: ast.Attribute):  # noqa: N802
            self.generic_visit(n)
            if n.attr in props and isinstance(n.ctx, ast.Load) and isinstance(n.value, ast.Name) and depth < 3:
                selfn, body = props[n.attr]
                if isinstance(body, ast.Attribute) and isinstance(body.value, ast.Name) and body.value.id == selfn:
                    return n  # a plain getter of a stored attribute (`return self._datatype`): the read says as much as the body
                b = Subst(selfn, n.value.id).visit(copy.deepcopy(body))
                return expand_property_reads(b, props, depth + 1)
            return n

    return Exp().visit(copy.deepcopy(e))


def module_constant(mod: Module, name: str) -> Optional[ast.expr]:
    """the value of a module-level name that is bound exactly once in the whole module (a plain or annotated assignment at module level) and on which no
    method is ever called (append / update / ...), nor an item stored: a constant table.  None otherwise"""
    binds = [n for n in ast.walk(mod.tree) if isinstance(n, ast.Name) and n.id == name and isinstance(n.ctx, (ast.Store, ast.Del))]
    if len(binds) != 1:
        return None
    for n in ast.walk(mod.tree):
        if isinstance(n, ast.Name) and n.id == name and isinstance(n.ctx, ast.Load):
            par = mod.parent.get(id(n))
            if isinstance(par, ast.Attribute) and par.attr not in ("items", "keys", "values", "get", "index", "count"):
                return None
            if isinstance(par, ast.Subscript) and par.value is n and isinstance(par.ctx, (ast.Store, ast.Del)):
                return None
            if isinstance(par, ast.AugAssign):
                return None
    for st in mod.tree.body:
        if isinstance(st, ast.Assign) and len(st.targets) == 1 and st.targets[0] is binds[0]:
            return st.value
        if isinstance(st, ast.AnnAssign) and st.target is binds[0] and st.value is not None:
            return st.value
    return None


def _const_rows(mod: Module, it: ast.expr) -> Optional[list[ast.expr]]:
    """the rows a loop `for .. in <it>` runs over when <it> is a constant table of the module: a tuple / list display (also given in place) whose
    elements are constants or tuples of constants, or `<dict display with constant keys and values>.items()`"""

    def const(e: ast.AST) -> bool:
        return isinstance(e, ast.Constant) or (isinstance(e, ast.Tuple) and all(const(x) for x in e.elts))

    items = False
    if isinstance(it, ast.Call) and isinstance(it.func, ast.Attribute) and it.func.attr == "items" and not it.args and not it.keywords:
        items, it = True, it.func.value
    if isinstance(it, ast.Name):
        v = module_constant(mod, it.id)
        if v is None:
            return None
        it = v
    if items:
        if isinstance(it, ast.Dict) and all(k is not None and const(k) for k in it.keys) and all(const(v) for v in it.values):
            return [ast.Tuple(elts=[k, v], ctx=ast.Load()) for k, v in zip(it.keys, it.values)]  # type: ignore[list-item]
        return None
    if isinstance(it, (ast.Tuple, ast.List)) and it.elts and all(const(x) for x in it.elts):
        return list(it.elts)
    return None


def unroll_constant_loops(mod: Module, fn: ast.AST) -> ast.AST:
    """A copy of fn in which every loop over a constant table of the module (see _const_rows) is written out: one `if True:` block per row, the loop
    variables replaced by the constants of the row.  What the code does for each row of the table can then be read like a chain of ifs.  Only for
    reading what is done per row: `break` / `continue` of the loop stay where they were.  Loops that rebind their variables, have an else, or whose
    target does not match the rows are left alone.  Source positions are those of the loop body"""
    import copy

    class Subst(ast.NodeTransformer):
        def __init__(self, env: dict[str, ast.expr]):
            self.env = env

        def visit_Name(self, n: ast.Name):  # noqa: N802
            if isinstance(n.ctx, ast.Load) and n.id in self.env:
                return ast.copy_location(copy.deepcopy(self.env[n.id]), n)
            return n

    def bind(target: ast.expr, row: ast.expr, env: dict[str, ast.expr]) -> bool:
        if isinstance(target, ast.Name):
            env[target.id] = row
            return True
        if isinstance(target, (ast.Tuple, ast.List)) and isinstance(row, ast.Tuple) and len(target.elts) == len(row.elts):
            return all(bind(t, r, env) for t, r in zip(target.elts, row.elts))
        return False

    class Unroll(ast.NodeTransformer):
        def visit_For(self, node: ast.For):  # noqa: N802
            self.generic_visit(node)
            rows = _const_rows(mod, node.iter) if not node.orelse else None
            if rows is None:
                return node
            names = {n.id for n in ast.walk(node.target) if isinstance(n, ast.Name)}
            if any(isinstance(n, ast.Name) and n.id in names and isinstance(n.ctx, (ast.Store, ast.Del)) for s_ in node.body for n in ast.walk(s_)):
                return node
            out: list[ast.stmt] = []
            for row in rows:
                env: dict[str, ast.expr] = {}
                if not bind(node.target, row, env):
                    return node
                body = [Subst(env).visit(copy.deepcopy(s_)) for s_ in node.body]
                out.append(ast.copy_location(ast.If(test=ast.copy_location(ast.Constant(value=True), node), body=body, orelse=[]), node))
            return out

        def visit_FunctionDef(self, node):  # noqa: N802
            if node is not top:
                return node
            self.generic_visit(node)
            return node

        visit_Lambda = visit_ClassDef = lambda self, node: node  # noqa: E731

    top = copy.deepcopy(fn)
    return Unroll().visit(top)


def creates_instance(mod: Module, fn: ast.AST, e: ast.AST, is_cls, depth: int = 0) -> bool:
    """evaluating the expression e (in fn) makes a new instance of the class for which is_cls(<callee expression>) holds: a call of the class, or of
    something that evaluates to a factory of it (see instance_factory), or the lookup `d[k]` in a local d that is on every assignment a
    defaultdict(<factory>) - a key that is not there yet is made by the factory"""
    if depth > 4:
        return False
    if isinstance(e, ast.Call):
        return instance_factory(mod, fn, e.func, is_cls, depth + 1)
    if isinstance(e, ast.Subscript) and isinstance(e.ctx, ast.Load) and isinstance(e.value, ast.Name):
        vals = local_values(fn, e.value.id)
        return bool(vals) and all(isinstance(v, ast.Call) and norm(v.func).split(".")[-1] == "defaultdict" and v.args
                                  and instance_factory(mod, fn, v.args[0], is_cls, depth + 1) for v in vals)
    return False


def instance_factory(mod: Module, fn: ast.AST, e: ast.AST, is_cls, depth: int = 0) -> bool:
    """the expression e evaluates to a callable that returns a new instance of the class each time it is called: the class itself, a lambda whose body
    makes one, functools.partial(<factory>, ...), a def nested in fn each of whose returns makes one, a local bound (on every assignment) to such a value"""
    if depth > 4:
        return False
    if is_cls(e):
        return True
    if isinstance(e, ast.Lambda):
        return creates_instance(mod, fn, e.body, is_cls, depth + 1)
    if isinstance(e, ast.Call) and e.args and norm(e.func).split(".")[-1] == "partial" and _is_functools_partial(mod, e.func):
        return instance_factory(mod, fn, e.args[0], is_cls, depth + 1)
    if isinstance(e, ast.Name):
        d = nested_defs(fn).get(e.id)
        if d is not None:
            rets = [r for r in own_nodes(d) if isinstance(r, ast.Return)]
            return bool(rets) and all(r.value is not None and creates_instance(mod, d, r.value, is_cls, depth + 1) for r in rets)
        vals = local_values(fn, e.id)
        return bool(vals) and all(instance_factory(mod, fn, v, is_cls, depth + 1) for v in vals)
    return False


def iterated_sources(fn: ast.AST, it: ast.AST, params: set[str], depth: int = 0) -> set[str]:
    """the expressions (normalised text) whose elements a `for` over `it` visits, in order and each once: `it` itself; X for `X or <empty display>` (an absent /
    empty X gives no round either way), for `X if X else <empty>`, for list(X) / tuple(X) / iter(X), and for a local bound once to one of these"""
    out = {norm(it)}
    if depth > 3:
        return out

    def empty(e: ast.AST) -> bool:
        return (isinstance(e, (ast.Tuple, ast.List, ast.Set)) and not e.elts) or (isinstance(e, ast.Dict) and not e.keys) or (
            isinstance(e, ast.Call) and isinstance(e.func, ast.Name) and e.func.id in ("tuple", "list", "set", "frozenset") and not e.args and not e.keywords) or (
            isinstance(e, ast.Constant) and e.value in ("", b""))

    if isinstance(it, ast.BoolOp) and isinstance(it.op, ast.Or) and len(it.values) == 2 and empty(it.values[1]):
        out |= iterated_sources(fn, it.values[0], params, depth + 1)
    elif isinstance(it, ast.IfExp) and empty(it.orelse) and norm(it.test) == norm(it.body):
        out |= iterated_sources(fn, it.body, params, depth + 1)
    elif isinstance(it, ast.Call) and isinstance(it.func, ast.Name) and it.func.id in ("list", "tuple", "iter") and len(it.args) == 1 and not it.keywords:
        out |= iterated_sources(fn, it.args[0], params, depth + 1)
    elif isinstance(it, ast.Name) and it.id not in params:
        vals = local_values(fn, it.id)
        stores = [n for n in ast.walk(fn) if isinstance(n, ast.Name) and n.id == it.id and isinstance(n.ctx, (ast.Store, ast.Del))]
        if len(vals) == 1 and len(stores) == 1:
            out |= iterated_sources(fn, vals[0], params, depth + 1)
    return out
