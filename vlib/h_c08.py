"""Helpers of checks/c08.py (static only): grammar optionality table, exception-escape analysis, small def-use utilities."""
from __future__ import annotations

import ast
from typing import Iterable, Optional

from vlib.core import AnalysisError, Module, Repo, norm, own_nodes


# --------------------------------------------------------------------------- imports / resolution


def import_map(mod: Module) -> dict[str, tuple[str, str]]:
    """local name -> (module, original name) for every `from M import a [as b]` of the module (any nesting level)"""
    out: dict[str, tuple[str, str]] = {}
    for n in ast.walk(mod.tree):
        if isinstance(n, ast.ImportFrom) and n.module and not n.level:
            for a in n.names:
                out[a.asname or a.name] = (n.module, a.name)
    return out


def resolve_function(repo: Repo, mod: Module, name: str) -> Optional[tuple[Module, ast.FunctionDef]]:
    """the module-level function a bare name refers to in `mod`: defined there, or imported from another rdflib module"""
    d = mod.defs.get(name)
    if isinstance(d, (ast.FunctionDef, ast.AsyncFunctionDef)):
        return mod, d  # type: ignore[return-value]
    imp = import_map(mod).get(name)
    if imp and imp[0] in repo.modules:
        m2 = repo.modules[imp[0]]
        d = m2.defs.get(imp[1])
        if isinstance(d, (ast.FunctionDef, ast.AsyncFunctionDef)):
            return m2, d  # type: ignore[return-value]
    return None


def type_names(e: Optional[ast.expr]) -> set[str]:
    """class names written in an `except` clause / second argument of isinstance (Name, dotted name or tuple of them)"""
    if e is None:
        return set()
    if isinstance(e, ast.Tuple):
        return set().union(*[type_names(x) for x in e.elts]) if e.elts else set()
    if isinstance(e, ast.Name):
        return {e.id}
    if isinstance(e, ast.Attribute):
        return {e.attr}
    return set()


# --------------------------------------------------------------------------- grammar: optional parameters per Comp


def grammar_params(par: Module) -> dict[str, tuple[set[str], set[str]]]:
    """Comp name -> (all Param/ParamList names of the production, those that may be absent: written under Optional()/ZeroOrMore()
    or in only some alternatives of a `|`).  Module-level grammar fragments that are not Comps themselves are inlined."""
    top: dict[str, ast.expr] = {}
    for st in par.tree.body:
        if isinstance(st, ast.Assign) and len(st.targets) == 1 and isinstance(st.targets[0], ast.Name):
            top[st.targets[0].id] = st.value

    def collect(e: ast.AST, optional: bool, out: dict[str, list[bool]], seen: tuple[str, ...]) -> None:
        if isinstance(e, ast.Call):
            fn = norm(e.func)
            if fn in ("Param", "ParamList") and e.args and isinstance(e.args[0], ast.Constant):
                out.setdefault(str(e.args[0].value), []).append(optional)
                return
            if fn == "Comp":
                return  # a nested Comp has its own parameter namespace
            opt = optional or fn in ("Optional", "ZeroOrMore")
            for a in e.args:
                collect(a, opt, out, seen)
            return
        if isinstance(e, ast.BinOp) and isinstance(e.op, ast.BitOr):
            alts: list[ast.AST] = []

            def flat(x: ast.AST) -> None:
                if isinstance(x, ast.BinOp) and isinstance(x.op, ast.BitOr):
                    flat(x.left)
                    flat(x.right)
                else:
                    alts.append(x)

            flat(e)
            subs = []
            for a in alts:
                o: dict[str, list[bool]] = {}
                collect(a, optional, o, seen)
                subs.append(o)
            for k in set().union(*subs):
                in_all = all(k in s for s in subs)
                for s in subs:
                    for v in s.get(k, []):
                        out.setdefault(k, []).append(v or not in_all)
            return
        if isinstance(e, ast.BinOp):
            collect(e.left, optional, out, seen)
            collect(e.right, optional, out, seen)
            return
        if isinstance(e, ast.Name) and e.id in top and e.id not in seen and len(seen) < 5:
            collect(top[e.id], optional, out, seen + (e.id,))

    table: dict[str, tuple[set[str], set[str]]] = {}
    for n in ast.walk(par.tree):
        if isinstance(n, ast.Call) and norm(n.func) == "Comp" and len(n.args) > 1 and isinstance(n.args[0], ast.Constant):
            o: dict[str, list[bool]] = {}
            collect(n.args[1], False, o, ())
            allp, optp = table.setdefault(str(n.args[0].value), (set(), set()))
            allp.update(o)
            optp.update(k for k, v in o.items() if any(v))
    return table


# --------------------------------------------------------------------------- None guards


def non_none_guarded(mod: Module, node: ast.AST, expr_text: str, stop: ast.AST) -> bool:
    """node lies in a branch that is only taken when the expression `expr_text` is not None: body of `if E is not None` / `if E`,
    else-branch of `if E is None` / `if not E` (If statements and conditional expressions, also as a conjunct of an `and`)"""
    child = node
    for p in mod.parents(node):
        if isinstance(p, (ast.If, ast.IfExp)):
            in_body = child in p.body if isinstance(p, ast.If) else child is p.body
            in_else = child in p.orelse if isinstance(p, ast.If) else child is p.orelse
            tests = [p.test]
            if in_body and isinstance(p.test, ast.BoolOp) and isinstance(p.test.op, ast.And):
                tests = list(p.test.values)
            for t in tests:
                pos = None  # True: the test holds iff E is not None
                if isinstance(t, ast.Compare) and len(t.ops) == 1 and isinstance(t.comparators[0], ast.Constant) and t.comparators[0].value is None and norm(t.left) == expr_text:
                    pos = True if isinstance(t.ops[0], ast.IsNot) else False if isinstance(t.ops[0], ast.Is) else None
                elif norm(t) == expr_text:
                    pos = True
                elif isinstance(t, ast.UnaryOp) and isinstance(t.op, ast.Not) and norm(t.operand) == expr_text:
                    pos = False
                if (pos is True and in_body) or (pos is False and in_else):
                    return True
        if p is stop:
            break
        child = p
    return False


# --------------------------------------------------------------------------- exception escape analysis


class Escapes:
    """Which exceptions of one family (subclasses of `root`) can leave a function: raise statements, calls of module-level functions
    (followed through imports, two levels), calls of methods on `self` (resolved in the MRO of the class under analysis, including
    instance-level re-bindings `self.m = self.other` made in an __init__), minus what enclosing try/except clauses catch.  A test on a
    parameter for which the call site passes a constant is decided."""

    def __init__(self, repo: Repo, root: str):
        self.repo = repo
        self.typed = repo.typed
        fam = self.typed.subclasses(root)
        if root not in fam:
            raise AnalysisError("exception family root %s not found" % root)
        # short name -> short names of all its bases (what an except clause may name to catch it)
        self.bases: dict[str, set[str]] = {c.rsplit(".", 1)[1]: {b.rsplit(".", 1)[1] for b in self.typed.mro(c)} for c in fam}
        self._stack: list[int] = []

    def catches(self, handler: ast.ExceptHandler, kind: str) -> bool:
        return handler.type is None or bool(type_names(handler.type) & self.bases[kind])

    # -- methods of a class (own module only)
    def self_methods(self, mod: Module, cfull: str, name: str) -> list[ast.FunctionDef]:
        names = {name}
        prefix = mod.name + "."
        chain = [b.rsplit(".", 1)[1] for b in self.typed.mro(cfull) if b.startswith(prefix)]
        replaced = False
        for cname in chain:  # self.<name> = self.<other> in an __init__: either may be called ...
            init = mod.methods(cname).get("__init__")
            for n in own_nodes(init) if init is not None else ():
                if isinstance(n, ast.Assign) and isinstance(n.value, ast.Attribute) and norm(n.value.value) == "self":
                    for t in n.targets:
                        if isinstance(t, ast.Attribute) and norm(t.value) == "self" and t.attr == name and not replaced:
                            if mod.parent.get(id(n)) is init:
                                # ... unless the re-binding is unconditional (a statement of __init__ itself, most derived class first): only the new one is
                                names = {n.value.attr}
                                replaced = True
                            else:
                                names.add(n.value.attr)
        out = []
        for nm in sorted(names):
            for cname in chain:
                m = mod.methods(cname).get(nm)
                if m is not None:
                    out.append(m)
                    break
        return out

    def of_function(self, mod: Module, fn: ast.AST, cfull: Optional[str] = None, consts: Optional[dict[str, bool]] = None) -> set[str]:
        if id(fn) in self._stack or len(self._stack) > 4:
            return set()
        self._stack.append(id(fn))
        try:
            return self._block(fn.body, (mod, fn, cfull, consts or {}))  # type: ignore[attr-defined]
        finally:
            self._stack.pop()

    def _block(self, stmts: Iterable[ast.stmt], env) -> set[str]:
        out: set[str] = set()
        for st in stmts:
            out |= self._stmt(st, env)
        return out

    def _stmt(self, st: ast.stmt, env) -> set[str]:
        mod, fn, cfull, consts = env
        if isinstance(st, (ast.FunctionDef, ast.AsyncFunctionDef, ast.ClassDef)):
            return set()
        if isinstance(st, ast.Try):
            rest = self._block(st.body, env)
            out: set[str] = set()
            for h in st.handlers:
                caught = {k for k in rest if self.catches(h, k)}
                rest = rest - caught
                out |= self._block(h.body, env)
                if any(isinstance(n, ast.Raise) and n.exc is None for s in h.body for n in ast.walk(s)):
                    out |= caught
            return out | rest | self._block(st.orelse, env) | self._block(st.finalbody, env)
        if isinstance(st, ast.If):
            v = consts.get(st.test.id) if isinstance(st.test, ast.Name) else None
            out = self._expr(st.test, env)
            if v is not False:
                out |= self._block(st.body, env)
            if v is not True:
                out |= self._block(st.orelse, env)
            return out
        if isinstance(st, (ast.For, ast.AsyncFor)):
            return self._expr(st.iter, env) | self._block(st.body, env) | self._block(st.orelse, env)
        if isinstance(st, ast.While):
            return self._expr(st.test, env) | self._block(st.body, env) | self._block(st.orelse, env)
        if isinstance(st, (ast.With, ast.AsyncWith)):
            out = set()
            for it in st.items:
                out |= self._expr(it.context_expr, env)
            return out | self._block(st.body, env)
        if isinstance(st, ast.Match):
            raise AnalysisError("%s: match statement not modelled by the escape analysis" % mod.qual_of(st))
        if isinstance(st, ast.Raise):
            out = self._expr(st, env)
            k = self._raised(st, env)
            if k is not None:
                out.add(k)
            return out
        return self._expr(st, env)

    def _raised(self, st: ast.Raise, env) -> Optional[str]:
        mod, fn, cfull, consts = env
        e = st.exc
        if e is None:
            return None  # re-raise: accounted for at the try statement
        if isinstance(e, ast.Call):
            e = e.func
        nm = next(iter(type_names(e)), None)
        if nm in self.bases:
            return nm
        if isinstance(e, ast.Name):
            # `raise v` of a local: its class is what an enclosing isinstance(v, T) test established
            for p in mod.parents(st):
                if isinstance(p, ast.If):
                    for c in ast.walk(p.test):
                        if isinstance(c, ast.Call) and norm(c.func) == "isinstance" and len(c.args) == 2 and norm(c.args[0]) == e.id:
                            ks = type_names(c.args[1]) & set(self.bases)
                            if ks:
                                return sorted(ks, key=lambda k: len(self.bases[k]))[0]  # the most general one
                if p is fn:
                    break
        return None

    def _expr(self, node: ast.AST, env) -> set[str]:
        mod, fn, cfull, consts = env
        out: set[str] = set()
        stack = [node]
        while stack:
            n = stack.pop()
            if isinstance(n, ast.Lambda):
                continue
            stack.extend(ast.iter_child_nodes(n))
            if not isinstance(n, ast.Call):
                continue
            if isinstance(n.func, ast.Name):
                r = resolve_function(self.repo, mod, n.func.id)
                if r is not None:
                    m2, f2 = r
                    params = [a.arg for a in f2.args.args]
                    cs: dict[str, bool] = {}
                    for i, a in enumerate(n.args):
                        if i < len(params) and isinstance(a, ast.Constant) and isinstance(a.value, bool):
                            cs[params[i]] = a.value
                    for k in n.keywords:
                        if k.arg and isinstance(k.value, ast.Constant) and isinstance(k.value.value, bool):
                            cs[k.arg] = k.value.value
                    # a default that is a bool constant, if the call does not pass the parameter
                    nd = len(params) - len(f2.args.defaults)
                    passed = set(params[: len(n.args)]) | {k.arg for k in n.keywords if k.arg}
                    for i, d in enumerate(f2.args.defaults):
                        p_ = params[nd + i]
                        if p_ not in passed and isinstance(d, ast.Constant) and isinstance(d.value, bool):
                            cs[p_] = d.value
                    out |= self.of_function(m2, f2, None, cs)
            elif isinstance(n.func, ast.Attribute) and isinstance(n.func.value, ast.Name) and cfull is not None \
                    and isinstance(fn, (ast.FunctionDef, ast.AsyncFunctionDef)) and fn.args.args and n.func.value.id == fn.args.args[0].arg:
                for m in self.self_methods(mod, cfull, n.func.attr):
                    out |= self.of_function(mod, m, cfull, None)
        return out


# --------------------------------------------------------------------------- def-use


def first_load_after(fn: ast.AST, name: str, after: ast.AST) -> Optional[ast.Name]:
    """first read (source order) of local `name` in fn after the end of node `after`"""
    pos = (getattr(after, "end_lineno", after.lineno), getattr(after, "end_col_offset", 0))
    loads = [n for n in ast.walk(fn) if isinstance(n, ast.Name) and n.id == name and isinstance(n.ctx, ast.Load) and (n.lineno, n.col_offset) >= pos]
    return min(loads, key=lambda n: (n.lineno, n.col_offset)) if loads else None


def always_returns_value(stmts: list[ast.stmt]) -> bool:
    """every path through the block ends in `return <expr>` or `raise` (no fall-through, no bare return)"""
    if not stmts:
        return False
    for st in stmts:
        for r in ast.walk(st):
            if isinstance(r, ast.Return) and r.value is None:
                return False
    last = stmts[-1]
    if isinstance(last, ast.Return):
        return last.value is not None
    if isinstance(last, ast.Raise):
        return True
    if isinstance(last, ast.If):
        return bool(last.orelse) and always_returns_value(last.body) and always_returns_value(last.orelse)
    if isinstance(last, ast.Try):
        ok_body = always_returns_value(last.orelse) if last.orelse else always_returns_value(last.body)
        return (always_returns_value(last.finalbody) if last.finalbody else False) or (ok_body and all(always_returns_value(h.body) for h in last.handlers))
    if isinstance(last, (ast.With, ast.AsyncWith)):
        return always_returns_value(last.body)
    return False


def expand_locals(fn: ast.AST, e: ast.AST, params: set[str], depth: int = 0) -> list[ast.AST]:
    """e together with the (unique) values assigned to the local names it reads, transitively: the expressions e is computed from"""
    out = [e]
    if depth > 4:
        return out
    for n in ast.walk(e):
        if isinstance(n, ast.Name) and isinstance(n.ctx, ast.Load) and n.id not in params:
            defs = [a.value for a in ast.walk(fn) if isinstance(a, ast.Assign) and any(isinstance(t, ast.Name) and t.id == n.id for t in a.targets)]
            if len(defs) == 1:
                out.extend(expand_locals(fn, defs[0], params, depth + 1))
    return out
