"""Helpers of the later C16 rules (checks/c16.py, rules n..t): regular-expression ASTs, module-level definitions and
imports, grammar reference closure, small def-use utilities.  Static only: `re._parser.parse` builds the AST of a
pattern that is a string constant of the analysed source; nothing of the analysed library is imported or run."""
from __future__ import annotations

import ast
import re
from typing import Iterator, Optional

try:  # Python >= 3.11
    import re._parser as _sre_parse  # type: ignore[import-not-found]
    import re._constants as _sre_c  # type: ignore[import-not-found]
except ImportError:  # pragma: no cover
    import sre_parse as _sre_parse  # type: ignore[no-redef]
    import sre_constants as _sre_c  # type: ignore[no-redef]

from .core import AnalysisError, Module, Repo, norm, own_nodes

BACKSLASH = 92


# ------------------------------------------------------------------------------------------------------- regex ASTs


def regex_seqs(pattern: str, flags: int = 0) -> Iterator[list]:
    """every item sequence (list of (op, av)) of the pattern's AST, outermost first"""
    try:
        top = _sre_parse.parse(pattern, flags)
    except Exception as e:  # re.error
        raise AnalysisError("regular expression %r does not parse: %s" % (pattern[:40], e)) from None
    stack = [top]
    while stack:
        sp = stack.pop()
        items = list(sp)
        yield items
        for op, av in items:
            if op is _sre_c.SUBPATTERN:
                stack.append(av[3])
            elif op is _sre_c.BRANCH:
                stack.extend(av[1])
            elif op in (_sre_c.MAX_REPEAT, _sre_c.MIN_REPEAT) or str(op) == "POSSESSIVE_REPEAT":
                stack.append(av[2])
            elif op in (_sre_c.ASSERT, _sre_c.ASSERT_NOT):
                stack.append(av[1])
            elif str(op) == "ATOMIC_GROUP":
                stack.append(av)
            elif op is _sre_c.GROUPREF_EXISTS:
                stack.extend(x for x in av[1:] if x is not None)


def class_chars(av: list) -> Optional[set[str]]:
    """members of a positive character class [..] made of literals and ranges; None for a negated class or one with categories"""
    out: set[str] = set()
    for op, v in av:
        if op is _sre_c.LITERAL:
            out.add(chr(v))
        elif op is _sre_c.RANGE:
            if v[1] - v[0] > 256:
                return None
            out.update(chr(c) for c in range(v[0], v[1] + 1))
        else:
            return None
    return out


def escape_classes(pattern: str, flags: int = 0) -> list[set[str]]:
    """for every place of the pattern where a literal backslash is followed by a character class (or one literal):
    the characters accepted after the backslash"""
    out = []
    for items in regex_seqs(pattern, flags):
        for (op, av), nxt in zip(items, items[1:]):
            if op is _sre_c.LITERAL and av == BACKSLASH:
                nop, nav = nxt
                if nop is _sre_c.IN:
                    cs = class_chars(nav)
                    if cs is not None:
                        out.append(cs)
                elif nop is _sre_c.LITERAL:
                    out.append({chr(nav)})
    return out


def knows_codepoint_escape(pattern: str, flags: int = 0) -> bool:
    """the pattern has a literal backslash directly followed by the letter u/U (as a literal, or at the head of a group or alternative)"""
    def heads(items: list) -> set[str]:
        if not items:
            return set()
        op, av = items[0]
        if op is _sre_c.LITERAL:
            return {chr(av)}
        if op is _sre_c.IN:
            return class_chars(av) or set()
        if op is _sre_c.SUBPATTERN:
            return heads(list(av[3]))
        if op is _sre_c.BRANCH:
            r: set[str] = set()
            for alt in av[1]:
                r |= heads(list(alt))
            return r
        return set()

    for items in regex_seqs(pattern, flags):
        for i, (op, av) in enumerate(items[:-1]):
            if op is _sre_c.LITERAL and av == BACKSLASH and heads(items[i + 1:]) & {"u", "U"}:
                return True
    return False


# ------------------------------------------------------------------------------------------- module-level definitions


def toplevel(mod: Module) -> Iterator[ast.stmt]:
    """module-level statements, also those under module-level if/try (version switches)"""
    stack = list(reversed(mod.tree.body))
    while stack:
        st = stack.pop()
        yield st
        if isinstance(st, (ast.If, ast.Try)):
            for blk in (st.body, getattr(st, "orelse", []), getattr(st, "finalbody", [])):
                stack.extend(reversed(blk))
            for h in getattr(st, "handlers", []):
                stack.extend(reversed(h.body))


def module_values(mod: Module) -> dict[str, list[ast.expr]]:
    """module-level name -> the expressions bound to it (`N = e`, `N: T = e`, `N <<= e`, `N += e`)"""
    out: dict[str, list[ast.expr]] = {}
    for st in toplevel(mod):
        if isinstance(st, ast.Assign):
            for t in st.targets:
                if isinstance(t, ast.Name):
                    out.setdefault(t.id, []).append(st.value)
        elif isinstance(st, ast.AnnAssign) and st.value is not None and isinstance(st.target, ast.Name):
            out.setdefault(st.target.id, []).append(st.value)
        elif isinstance(st, ast.AugAssign) and isinstance(st.target, ast.Name):
            out.setdefault(st.target.id, []).append(st.value)
    return out


def imports(mod: Module) -> dict[str, tuple[str, str]]:
    """local name -> (module, name) of every `from M import name [as local]` of the module (any nesting level)"""
    out = {}
    for n in ast.walk(mod.tree):
        if isinstance(n, ast.ImportFrom) and n.module and not n.level:
            for a in n.names:
                out[a.asname or a.name] = (n.module, a.name)
        elif isinstance(n, ast.ImportFrom) and n.module and n.level:
            # `from .m import name`: relative to the package this module lives in (itself, when it is a package's __init__)
            parts = mod.name.split(".")
            up = n.level - (1 if mod.rel.endswith("__init__.py") else 0)
            if 0 <= up < len(parts):
                base = parts[:len(parts) - up]
                for a in n.names:
                    out[a.asname or a.name] = (".".join(base + [n.module]), a.name)
    return out


def method_calls_on(mod: Module, attrs: tuple[str, ...]) -> Iterator[tuple[str, ast.Call]]:
    """module-level `NAME.<attr>(...)` expression statements: (NAME, call)"""
    for st in toplevel(mod):
        if isinstance(st, ast.Expr) and isinstance(st.value, ast.Call) and isinstance(st.value.func, ast.Attribute) \
                and st.value.func.attr in attrs and isinstance(st.value.func.value, ast.Name):
            yield st.value.func.value.id, st.value


PARSE_ACTION = ("set_parse_action", "setParseAction", "add_parse_action", "addParseAction")


def action_code(mod: Module, action: ast.expr, depth: int = 2) -> list[ast.AST]:
    """the code a parse action runs: the lambda / named function and the module-level functions it calls by name (to `depth`)"""
    out: list[ast.AST] = []
    seen: set[str] = set()

    def add(node: ast.AST, d: int) -> None:
        out.append(node)
        if d <= 0:
            return
        for c in ast.walk(node):
            if isinstance(c, ast.Call) and isinstance(c.func, ast.Name) and c.func.id not in seen and isinstance(mod.defs.get(c.func.id), ast.FunctionDef):
                seen.add(c.func.id)
                add(mod.defs[c.func.id], d - 1)

    if isinstance(action, ast.Name) and isinstance(mod.defs.get(action.id), ast.FunctionDef):
        seen.add(action.id)
        add(mod.defs[action.id], depth)
    else:
        add(action, depth)
    return out


def const_str(e: ast.expr) -> Optional[str]:
    return e.value if isinstance(e, ast.Constant) and isinstance(e.value, str) else None


def re_flags(call: ast.Call) -> int:
    """flags of a Regex(...)/re.compile(...) call, as far as they matter for parsing the pattern"""
    fl = 0
    exprs = [k.value for k in call.keywords if k.arg == "flags"] + list(call.args[1:2])
    for e in exprs:
        for n in ast.walk(e):
            if isinstance(n, ast.Attribute) and n.attr in ("X", "VERBOSE"):
                fl |= re.VERBOSE
            if isinstance(n, ast.Attribute) and n.attr in ("I", "IGNORECASE"):
                fl |= re.IGNORECASE
    return fl


def resolve_function(repo: Repo, mod: Module, name: str) -> Optional[tuple[Module, ast.FunctionDef]]:
    """the module-level function a bare name denotes in `mod` (defined there or imported with `from M import name`)"""
    d = mod.defs.get(name)
    if isinstance(d, ast.FunctionDef):
        return mod, d
    imp = imports(mod).get(name)
    if imp and imp[0] in repo.modules:
        m2 = repo.modules[imp[0]]
        d = m2.defs.get(imp[1])
        if isinstance(d, ast.FunctionDef):
            return m2, d
    return None


def compiled_patterns_used(repo: Repo, mod: Module, fn: ast.AST) -> list[tuple[str, int]]:
    """(pattern, flags) of the module-level `re.compile(<constant>)` objects whose .sub() the function (nested defs included) calls"""
    vals = module_values(mod)
    out = []
    for c in ast.walk(fn):
        if isinstance(c, ast.Call) and isinstance(c.func, ast.Attribute) and c.func.attr in ("sub", "subn") and isinstance(c.func.value, ast.Name):
            for v in vals.get(c.func.value.id, []):
                if isinstance(v, ast.Call) and norm(v.func).split(".")[-1] == "compile" and v.args and const_str(v.args[0]) is not None:
                    out.append((const_str(v.args[0]), re_flags(v)))
        if isinstance(c, ast.Call) and norm(c.func) in ("re.sub", "re.subn") and c.args and const_str(c.args[0]) is not None:
            out.append((const_str(c.args[0]), 0))
    return out


def is_codepoint_expander(repo: Repo, mod: Module, fn: ast.FunctionDef) -> bool:
    """fn substitutes, with a pattern that knows `\\u` / `\\U`, the character chr(int(<hex digits>, 16))"""
    pats = compiled_patterns_used(repo, mod, fn)
    if not any(knows_codepoint_escape(p, f) for p, f in pats):
        return False
    for c in ast.walk(fn):
        if isinstance(c, ast.Call) and norm(c.func) == "chr" and c.args and isinstance(c.args[0], ast.Call) and norm(c.args[0].func) == "int" \
                and len(c.args[0].args) == 2 and isinstance(c.args[0].args[1], ast.Constant) and c.args[0].args[1].value == 16:
            return True
    return False


def grammar_reaches(repo: Repo, mod: Module, start: str, targets: set[tuple[str, str]], limit: int = 5000) -> Optional[tuple[str, str]]:
    """does the module-level grammar element `start` of `mod` refer, through module-level definitions (and `from M import`
    of other modules of the tree), to one of `targets` = {(module name, element name)}?  Returns the target reached."""
    seen: set[tuple[str, str]] = set()
    work = [(mod.name, start)]
    cache_vals: dict[str, dict[str, list[ast.expr]]] = {}
    cache_imp: dict[str, dict[str, tuple[str, str]]] = {}
    while work and len(seen) < limit:
        mn, nm = work.pop()
        if (mn, nm) in seen:
            continue
        seen.add((mn, nm))
        if (mn, nm) in targets:
            return (mn, nm)
        m = repo.modules.get(mn)
        if m is None:
            continue
        vals = cache_vals.setdefault(mn, module_values(m))
        imps = cache_imp.setdefault(mn, imports(m))
        if nm in vals:
            for v in vals[nm]:
                for x in ast.walk(v):
                    if isinstance(x, ast.Name):
                        work.append((mn, x.id))
        elif nm in imps:
            work.append(imps[nm])
    return None


# ------------------------------------------------------------------------------------------------------- def-use


def enclosing(mod: Module, node: ast.AST, fn: ast.AST) -> list[ast.AST]:
    """ancestors of node, innermost first, up to (excluding) fn"""
    out = []
    for p in mod.parents(node):
        if p is fn:
            break
        out.append(p)
    return out


def innermost_loop(mod: Module, node: ast.AST, fn: ast.AST) -> Optional[ast.AST]:
    for p in enclosing(mod, node, fn):
        if isinstance(p, (ast.For, ast.While, ast.AsyncFor)):
            return p
    return None


def bound_in(node: ast.AST) -> set[str]:
    """names (re)bound anywhere inside node"""
    return {n.id for n in ast.walk(node) if isinstance(n, ast.Name) and isinstance(n.ctx, ast.Store)}


def names_in(node: ast.AST) -> set[str]:
    return {n.id for n in ast.walk(node) if isinstance(n, ast.Name)}


def derived_names(scope: ast.AST, seeds: set[str]) -> set[str]:
    """seeds plus every name assigned inside scope from an expression that mentions one of them (fixpoint)"""
    out = set(seeds)
    changed = True
    while changed:
        changed = False
        for n in ast.walk(scope):
            if isinstance(n, (ast.Assign, ast.AnnAssign, ast.NamedExpr)) and getattr(n, "value", None) is not None:
                tgts = n.targets if isinstance(n, ast.Assign) else [n.target]
                if names_in(n.value) & out:
                    for t in tgts:
                        if isinstance(t, ast.Name) and t.id not in out:
                            out.add(t.id)
                            changed = True
    return out


def guard_tests(mod: Module, node: ast.AST, stop: ast.AST) -> list[ast.expr]:
    """tests of the if statements (either branch) between node and stop"""
    out = []
    for p in mod.parents(node):
        if p is stop:
            break
        if isinstance(p, ast.If):
            out.append(p.test)
    return out


def strip_none_default(e: ast.expr) -> str:
    """normalised text of e, with `m.get(k, None)` written as `m.get(k)`"""
    if isinstance(e, ast.Call) and isinstance(e.func, ast.Attribute) and e.func.attr == "get" and len(e.args) == 2 \
            and isinstance(e.args[1], ast.Constant) and e.args[1].value is None and not e.keywords:
        return "%s(%s)" % (norm(e.func), norm(e.args[0]))
    return norm(e)


# =====================================================================================================================
# helpers of rules u..y (checks/c16.py)


def fold_int(e: ast.expr, depth: int = 0) -> Optional[int]:
    """value of an integer constant expression (+ - * ** << over integer constants), None when it is not one"""
    if isinstance(e, ast.Constant) and isinstance(e.value, int) and not isinstance(e.value, bool):
        return e.value
    if depth > 6:
        return None
    if isinstance(e, ast.UnaryOp) and isinstance(e.op, ast.USub):
        v = fold_int(e.operand, depth + 1)
        return None if v is None else -v
    if isinstance(e, ast.BinOp):
        a, b = fold_int(e.left, depth + 1), fold_int(e.right, depth + 1)
        if a is None or b is None:
            return None
        if isinstance(e.op, ast.Add):
            return a + b
        if isinstance(e.op, ast.Sub):
            return a - b
        if isinstance(e.op, ast.Mult):
            return a * b
        if isinstance(e.op, ast.Pow) and 0 <= b <= 128 and abs(a) <= 16:
            return a ** b
        if isinstance(e.op, ast.LShift) and 0 <= b <= 128:
            return a << b
    return None


def denotes(mod: Module, fn_expr: ast.expr, module: str, names: tuple[str, ...]) -> bool:
    """fn_expr is `<module>.<name>` or a bare name imported `from <module> import <name>`"""
    if isinstance(fn_expr, ast.Attribute) and fn_expr.attr in names and isinstance(fn_expr.value, ast.Name) and fn_expr.value.id == module:
        return True
    if isinstance(fn_expr, ast.Name):
        imp = imports(mod).get(fn_expr.id)
        return imp is not None and imp[0] == module and imp[1] in names
    return False


def stmt_of(mod: Module, node: ast.AST, fn: ast.AST) -> Optional[ast.stmt]:
    """the innermost statement of fn that contains node"""
    if isinstance(node, ast.stmt):
        return node
    for p in mod.parents(node):
        if isinstance(p, ast.stmt):
            return p
        if p is fn:
            break
    return None


def params(fn: ast.AST) -> set[str]:
    a = fn.args  # type: ignore[attr-defined]
    out = {x.arg for x in a.posonlyargs + a.args + a.kwonlyargs}
    for x in (a.vararg, a.kwarg):
        if x is not None:
            out.add(x.arg)
    return out


# ------------------------------------------------------------------------------------- nullability of a grammar element

_NULLABLE_CTORS = ("Optional", "Opt", "ZeroOrMore", "Empty")
_TRANSPARENT_CTORS = ("Suppress", "Group", "Combine", "OneOrMore", "DelimitedList", "delimitedList", "Dict", "Located", "Forward")


def grammar_nullable(repo: Repo, mod: Module, e: ast.expr, seen: Optional[set] = None) -> bool:
    """can the pyparsing expression (module-level definitions followed by name, also into `from M import` modules of the
    tree) match the empty string?  Optional/ZeroOrMore/Empty do, a sequence if all its parts do, an alternative if one
    does; every terminal (Regex, Literal, Keyword, ...) and everything unknown does not."""
    seen = set() if seen is None else seen
    if isinstance(e, ast.BinOp):
        if isinstance(e.op, (ast.Add, ast.BitAnd, ast.Sub)):
            return grammar_nullable(repo, mod, e.left, seen) and grammar_nullable(repo, mod, e.right, seen)
        if isinstance(e.op, (ast.BitOr, ast.BitXor)):
            return grammar_nullable(repo, mod, e.left, seen) or grammar_nullable(repo, mod, e.right, seen)
        return False
    if isinstance(e, ast.Call):
        last = norm(e.func).split(".")[-1]
        if isinstance(e.func, ast.Name) or (isinstance(e.func, ast.Attribute) and isinstance(e.func.value, ast.Name) and e.func.value.id in ("pyparsing", "pp")):
            if last in _NULLABLE_CTORS:
                return True
            if last in _TRANSPARENT_CTORS and e.args:
                return grammar_nullable(repo, mod, e.args[0], seen)
            if last in ("Comp", "Param") and len(e.args) >= 2:  # rdflib.plugins.sparql.parserutils: Comp(name, expr), Param(name, expr)
                return grammar_nullable(repo, mod, e.args[1], seen)
            return False
        if isinstance(e.func, ast.Attribute):  # X.leave_whitespace(), X.set_name(...): the element itself
            return grammar_nullable(repo, mod, e.func.value, seen)
        return False
    if isinstance(e, ast.Name):
        if (mod.name, e.id) in seen:
            return False
        seen.add((mod.name, e.id))
        vals = module_values(mod).get(e.id)
        if vals:
            return any(grammar_nullable(repo, mod, v, seen) for v in vals)
        imp = imports(mod).get(e.id)
        if imp and imp[0] in repo.modules:
            m2 = repo.modules[imp[0]]
            return grammar_nullable(repo, m2, ast.Name(id=imp[1], ctx=ast.Load()), seen)
    return False


# ---------------------------------------------------------------------------------- carriage return before the grammar


def _has_cr(e: ast.expr) -> bool:
    s = const_str(e)
    return s is not None and "\r" in s


def _ends_cr(e: ast.expr) -> Optional[int]:
    """length of the constant suffix if it ends in a carriage return"""
    s = const_str(e)
    return len(s) if s is not None and s.endswith("\r") else None


def cr_guard(test: ast.expr, name: str) -> Optional[int]:
    """the test has a conjunct `<name>.endswith(<constant ending in CR>)`: length of that constant"""
    leaves = [test]
    while leaves:
        t = leaves.pop()
        if isinstance(t, ast.BoolOp) and isinstance(t.op, ast.And):
            leaves.extend(t.values)
        elif isinstance(t, ast.Call) and isinstance(t.func, ast.Attribute) and t.func.attr == "endswith" and isinstance(t.func.value, ast.Name) \
                and t.func.value.id == name and len(t.args) == 1:
            k = _ends_cr(t.args[0])
            if k is not None:
                return k
    return None


def drops_tail(e: ast.expr, name: str, k: int) -> bool:
    """e is <name>[:-k] (or a CR-removing call on <name>)"""
    if isinstance(e, ast.Subscript) and isinstance(e.value, ast.Name) and e.value.id == name and isinstance(e.slice, ast.Slice) \
            and e.slice.lower is None and e.slice.step is None and e.slice.upper is not None:
        return fold_int(e.slice.upper) == -k
    return cr_removing_call(e) and isinstance(e.func.value, ast.Name) and e.func.value.id == name  # type: ignore[attr-defined]


def cr_removing_call(e: ast.AST) -> bool:
    """a str method call after which the text does not end in a carriage return that belonged to a CR LF line end"""
    if not (isinstance(e, ast.Call) and isinstance(e.func, ast.Attribute)):
        return False
    a = e.func.attr
    if a in ("strip", "rstrip"):
        return not e.args or _has_cr(e.args[0])
    if a == "removesuffix":
        return bool(e.args) and _has_cr(e.args[0])
    if a == "replace":
        return bool(e.args) and _has_cr(e.args[0])
    if a in ("split", "rsplit", "partition", "rpartition"):
        return bool(e.args) and _has_cr(e.args[0])
    return False


class LineTrace:
    """backward def-use slice of a text expression inside one function: does it come from a line-wise read
    (`.readline()`, iteration over a file) and has a trailing carriage return been removed on every path"""

    def __init__(self, mod: Module, fn: ast.AST, _stack: tuple = ()):
        from .cfg import CFG
        self.mod, self.fn = mod, fn
        self.g = CFG(fn)
        self.sources: set[str] = set()
        self._stack = _stack + (id(fn),)  # the functions whose parameters are being followed to their call sites

    def _defs(self, at: int, name: str) -> set[int]:
        from .cfg import reaching_defs
        return reaching_defs(self.g, at, name)

    def cr_free(self, e: ast.expr, at: int, seen: Optional[set] = None) -> bool:
        seen = set() if seen is None else seen
        if isinstance(e, ast.Constant):
            return True
        if isinstance(e, ast.Call):
            if cr_removing_call(e):
                self._note(e.func.value, at, seen)  # type: ignore[attr-defined]
                return True
            if isinstance(e.func, ast.Attribute) and e.func.attr in ("readline", "__next__"):
                self.sources.add("readline")
                return False
            if isinstance(e.func, ast.Name) and e.func.id == "next":
                self.sources.add("readline")
                return False
            if isinstance(e.func, ast.Attribute) and e.func.attr in ("strip", "rstrip", "lstrip", "removeprefix", "removesuffix", "lower", "upper", "decode", "encode", "format"):
                return self.cr_free(e.func.value, at, seen)
            if e.args and not e.keywords:  # f(text): taken as a text-to-text function that keeps the line end
                return all([self.cr_free(a, at, seen) for a in e.args])
            self.sources.add("other")
            return False
        if isinstance(e, ast.IfExp):
            for nm in names_in(e.test):
                k = cr_guard(e.test, nm)
                if k is not None and drops_tail(e.body, nm, k) and isinstance(e.orelse, ast.Name) and e.orelse.id == nm:
                    self._note(e.orelse, at, seen)
                    return True
            return all([self.cr_free(e.body, at, seen), self.cr_free(e.orelse, at, seen)])
        if isinstance(e, ast.Subscript):
            return self.cr_free(e.value, at, seen)
        if isinstance(e, ast.BinOp) and isinstance(e.op, ast.Add):  # the end of a concatenation is the end of its right operand
            self._note(e.left, at, seen)
            return self.cr_free(e.right, at, seen)
        if isinstance(e, ast.Name):
            return self._name(e.id, at, seen)
        self.sources.add("other")
        return False

    def _note(self, e: ast.expr, at: int, seen: set) -> None:
        """record the sources below an expression whose verdict is already known"""
        self.cr_free(e, at, set(seen))

    def _name(self, name: str, at: int, seen: set) -> bool:
        if (name, at) in seen:
            return False
        seen.add((name, at))
        g = self.g
        defs = self._defs(at, name)
        if not defs:
            self.sources.add("param")
            return False
        # (b) an `if <name>.endswith("\r"): <name> = <name>[:-1]` that every path to here passes, after every other binding
        for st in own_nodes(self.fn):
            if not (isinstance(st, ast.If) and not st.orelse):
                continue
            k = cr_guard(st.test, name)
            if k is None:
                continue
            inner = [a for s in st.body for a in ast.walk(s) if isinstance(a, (ast.Assign, ast.AnnAssign, ast.AugAssign)) and name in {t.id for t in ast.walk(a) if isinstance(t, ast.Name) and isinstance(t.ctx, ast.Store)}]
            if not inner or not all(isinstance(a, ast.Assign) and len(a.targets) == 1 and isinstance(a.targets[0], ast.Name) and drops_tail(a.value, name, k) for a in inner):
                continue
            t = g.by_ast.get(id(st))
            if t is None or not g.must_pass_before(at, [t]):
                continue
            before = self._defs(t, name)
            inner_ids = {g.by_ast.get(id(a)) for a in inner}
            if all(d in inner_ids or d in before for d in defs):
                for d in before:
                    self._binding(d, name, seen, note_only=True)
                return True
        # (a) every binding that reaches here is itself free of the carriage return
        ok = True
        for d in defs:
            if not self._binding(d, name, seen):
                ok = False
        return ok

    def _binding(self, d: int, name: str, seen: set, note_only: bool = False) -> bool:
        """is the value that the binding d gives to name free of the carriage return; g.entry: the value at function entry,
        for a parameter what the call sites of the function in this module hand in"""
        if d != self.g.entry:
            return self._def_value(d, name, seen, note_only)
        if name in params(self.fn) and self._from_call_sites(name):
            return True
        self.sources.add("param")
        return False

    def _from_call_sites(self, name: str) -> bool:
        """the parameter `name` of self.fn is free of the carriage return at every call of self.fn in this module (and there
        is one); the sources met in the callers are recorded.  False when the function is not called here (its callers are
        unknown) or when some caller hands in a text that still has it."""
        fn = self.fn
        if not isinstance(fn, (ast.FunctionDef, ast.AsyncFunctionDef)) or len(self._stack) > 3:
            return False
        owner = class_of_function(self.mod, fn)
        pos = [a.arg for a in fn.args.posonlyargs + fn.args.args]
        static = any(norm(d) == "staticmethod" for d in fn.decorator_list)
        sites = []
        for q, caller in self.mod.functions():
            if id(caller) in self._stack:
                continue
            for c in own_nodes(caller):
                if isinstance(c, ast.Call) and resolve_callee(self.mod, c, class_of_function(self.mod, caller) if owner is not None else None) is fn:
                    sites.append((caller, c))
        if not sites:
            return False
        ok = True
        for caller, c in sites:
            bound = isinstance(c.func, ast.Attribute) and owner is not None and not static and norm(c.func.value) in ("self", "cls")
            names = pos[1:] if bound else pos
            arg = next((k.value for k in c.keywords if k.arg == name), None)
            if arg is None and name in names and names.index(name) < len(c.args) and not any(isinstance(a, ast.Starred) for a in c.args):
                arg = c.args[names.index(name)]
            if arg is None:
                self.sources.add("other")
                ok = False
                continue
            tr = LineTrace(self.mod, caller, self._stack)
            if not tr.cr_free(arg, tr.g.node_of(c, self.mod)):
                ok = False
            self.sources |= tr.sources
        return ok

    def _def_value(self, d: int, name: str, seen: set, note_only: bool = False) -> bool:
        st = self.g.nodes[d].ast
        # `while (name := <read>):` / `if (name := ..)` - the binding sits in the head of the statement
        head = st.test if isinstance(st, (ast.While, ast.If)) else st if isinstance(st, (ast.Expr, ast.Return, ast.Assign, ast.AnnAssign)) else None
        if head is not None:
            for w in ast.walk(head):
                if isinstance(w, ast.NamedExpr) and isinstance(w.target, ast.Name) and w.target.id == name:
                    return self.cr_free(w.value, d, set(seen) if note_only else seen)
        if isinstance(st, (ast.For, ast.AsyncFor)) and isinstance(st.target, ast.Name) and st.target.id == name:
            self.sources.add("readline")  # a record taken from iterating a source
            return False
        if isinstance(st, ast.Assign) and len(st.targets) == 1 and isinstance(st.targets[0], ast.Name) and st.targets[0].id == name:
            return self.cr_free(st.value, d, set(seen) if note_only else seen)
        if isinstance(st, ast.AnnAssign) and st.value is not None and isinstance(st.target, ast.Name) and st.target.id == name:
            return self.cr_free(st.value, d, set(seen) if note_only else seen)
        self.sources.add("other")
        return False


def eval_count_test(leaf: ast.Compare, is_count, n: int) -> Optional[bool]:
    """truth of a comparison between `the number of variables` (the sub-expressions for which is_count(e) holds) and integer
    constants, for the number n; None when the comparison has another shape"""
    def val(e: ast.expr):
        if is_count(e):
            return n
        v = fold_int(e)
        if v is not None:
            return v
        if isinstance(e, (ast.Tuple, ast.List, ast.Set)):
            vs = [val(x) for x in e.elts]
            return None if any(x is None for x in vs) else tuple(vs)
        return None

    cur = val(leaf.left)
    res = True
    for op, c in zip(leaf.ops, leaf.comparators):
        nxt = val(c)
        if cur is None or nxt is None:
            return None
        if isinstance(op, (ast.In, ast.NotIn)):
            if not isinstance(nxt, tuple) or isinstance(cur, tuple):
                return None
            r = (cur in nxt) if isinstance(op, ast.In) else (cur not in nxt)
        else:
            if isinstance(cur, tuple) or isinstance(nxt, tuple):
                return None
            r = {ast.Eq: cur == nxt, ast.NotEq: cur != nxt, ast.Lt: cur < nxt, ast.LtE: cur <= nxt, ast.Gt: cur > nxt, ast.GtE: cur >= nxt}.get(type(op))
            if r is None:
                return None
        res = res and r
        cur = nxt
    return res


# =====================================================================================================================
# helpers of the restated rules (DESIGN §14): constants folded through module-level names, dispatch on the class of a
# term (if-chain or table), code reached through calls inside the module, limits raised through a helper


def local_names(fn: ast.AST) -> set[str]:
    """parameters and names bound anywhere inside fn: they hide the module-level names"""
    return params(fn) | bound_in(fn) if isinstance(fn, (ast.FunctionDef, ast.AsyncFunctionDef, ast.Lambda)) else set()


def module_constant(repo: Repo, mod: Module, name: str) -> Optional[tuple[Module, ast.expr]]:
    """the one expression a module-level name is bound to (followed through `from M import name` into the modules of
    the tree); None when the name is bound more than once, not at all, or outside the tree"""
    for _ in range(4):
        vals = module_values(mod).get(name)
        if vals is not None:
            return (mod, vals[0]) if len(vals) == 1 else None
        imp = imports(mod).get(name)
        if imp is None or imp[0] not in repo.modules:
            return None
        mod, name = repo.modules[imp[0]], imp[1]
    return None


def fold_text(repo: Repo, mod: Module, e: ast.expr, hidden: set[str] = frozenset(), depth: int = 0) -> Optional[str]:  # type: ignore[assignment]
    """the string a constant expression denotes: string constants, `+`, `%`, f-strings and `.format()` over them, and names
    bound once at module level (followed into the modules of the tree).  A name imported from outside the tree stands for
    itself and is written <module.name>, so that two spellings built on it fold to the same text.  `hidden`: the local names
    of the function the expression sits in.  None when the expression is not such a constant."""
    if depth > 8:
        return None
    if isinstance(e, ast.Constant):
        return e.value if isinstance(e.value, str) else None
    if isinstance(e, ast.Name):
        if e.id in hidden:
            return None
        mc = module_constant(repo, mod, e.id)
        if mc is not None:
            return fold_text(repo, mc[0], mc[1], frozenset(), depth + 1)
        if module_values(mod).get(e.id):
            return None
        imp = imports(mod).get(e.id)
        if imp is not None and imp[0] not in repo.modules:
            return "<%s.%s>" % imp
        return None
    if isinstance(e, ast.BinOp) and isinstance(e.op, ast.Add):
        a, b = fold_text(repo, mod, e.left, hidden, depth + 1), fold_text(repo, mod, e.right, hidden, depth + 1)
        return None if a is None or b is None else a + b
    if isinstance(e, ast.BinOp) and isinstance(e.op, ast.Mod):
        fmt = fold_text(repo, mod, e.left, hidden, depth + 1)
        parts = e.right.elts if isinstance(e.right, ast.Tuple) else [e.right]
        vals = [fold_text(repo, mod, p, hidden, depth + 1) for p in parts]
        if fmt is None or any(v is None for v in vals) or re.search(r"%[^s%]", fmt):
            return None
        try:
            return fmt % tuple(vals)
        except (TypeError, ValueError):
            return None
    if isinstance(e, ast.JoinedStr):
        out = []
        for v in e.values:
            if isinstance(v, ast.FormattedValue):
                if v.format_spec is not None or v.conversion not in (-1, 115):
                    return None
                s = fold_text(repo, mod, v.value, hidden, depth + 1)
            else:
                s = fold_text(repo, mod, v, hidden, depth + 1)
            if s is None:
                return None
            out.append(s)
        return "".join(out)
    if isinstance(e, ast.Call) and isinstance(e.func, ast.Attribute) and e.func.attr == "format" and not e.keywords:
        fmt = fold_text(repo, mod, e.func.value, hidden, depth + 1)
        vals = [fold_text(repo, mod, p, hidden, depth + 1) for p in e.args]
        if fmt is None or any(v is None for v in vals) or re.search(r"\{[^}]", fmt.replace("{{", "")):
            return None
        try:
            return fmt.format(*vals)
        except (IndexError, KeyError, ValueError):
            return None
    return None


def fold_int_in(repo: Repo, mod: Module, e: ast.expr, hidden: set[str] = frozenset()) -> Optional[int]:  # type: ignore[assignment]
    """fold_int, with names bound once at module level (in the tree) replaced by their definitions"""
    class _Sub(ast.NodeTransformer):
        def __init__(self) -> None:
            self.depth = 0

        def visit_Name(self, n: ast.Name) -> ast.AST:
            if n.id in hidden or self.depth > 6:
                return n
            mc = module_constant(repo, mod, n.id)
            if mc is None:
                return n
            self.depth += 1
            try:
                return self.visit(_copy(mc[1]))
            finally:
                self.depth -= 1

    return fold_int(_Sub().visit(_copy(e)))


def _copy(e: ast.AST) -> ast.AST:
    import copy
    return copy.deepcopy(e)


def class_of_function(mod: Module, fn: ast.AST) -> Optional[ast.ClassDef]:
    p = mod.parent.get(id(fn))
    return p if isinstance(p, ast.ClassDef) else None


def resolve_callee(mod: Module, call: ast.Call, owner: Optional[ast.ClassDef], env: Optional[dict[str, ast.expr]] = None) -> Optional[ast.AST]:
    """the function of this module that a call can only run: `f(..)` with f a module-level def (or, through env, a name
    that stands for one, or for a lambda), `self.m(..)` / `cls.m(..)` / `Owner.m(..)` with m defined in the class the
    caller belongs to"""
    f = call.func
    if isinstance(f, ast.Name) and env and f.id in env:
        f = env[f.id]  # type: ignore[assignment]
    if isinstance(f, ast.Lambda):
        return f
    if isinstance(f, ast.Name):
        d = mod.defs.get(f.id)
        return d if isinstance(d, (ast.FunctionDef, ast.AsyncFunctionDef)) else None
    if isinstance(f, ast.Attribute) and isinstance(f.value, ast.Name) and owner is not None and f.value.id in ("self", "cls", owner.name):
        for st in owner.body:
            if isinstance(st, (ast.FunctionDef, ast.AsyncFunctionDef)) and st.name == f.attr:
                return st
    return None


def reached_code(mod: Module, roots: list[ast.AST], owner: Optional[ast.ClassDef], env: Optional[dict[str, ast.expr]] = None, depth: int = 3) -> list[ast.AST]:
    """roots, plus the functions of this module that the roots call (resolve_callee), transitively to `depth`: the code
    that runs when the roots run, as far as it lives in this module"""
    out: list[ast.AST] = list(roots)
    seen: set[int] = {id(r) for r in roots}
    frontier = [(r, env) for r in roots]
    for _ in range(depth):
        nxt = []
        for node, ev in frontier:
            for c in ast.walk(node):
                if isinstance(c, ast.Call):
                    d = resolve_callee(mod, c, owner, ev)
                    if d is not None and id(d) not in seen:
                        seen.add(id(d))
                        out.append(d)
                        nxt.append((d, None))
        frontier = nxt
    return out


def table_rows(repo: Repo, mod: Module, it: ast.expr, hidden: set[str]) -> Optional[list[list[ast.expr]]]:
    """the rows of a constant table that a `for` iterates: a tuple/list display of tuples/lists (rows as written), a dict
    display iterated with .items() (rows (key, value)) or bare / with .keys() (rows (key,)) - written in place or bound
    once to a module-level name"""
    how = "seq"
    if isinstance(it, ast.Call) and isinstance(it.func, ast.Attribute) and it.func.attr in ("items", "keys", "values") and not it.args:
        how, it = it.func.attr, it.func.value
    if isinstance(it, ast.Name):
        if it.id in hidden:
            return None
        mc = module_constant(repo, mod, it.id)
        if mc is None:
            return None
        it = mc[1]
    if isinstance(it, ast.Dict):
        if any(k is None for k in it.keys):
            return None
        if how == "items":
            return [[k, v] for k, v in zip(it.keys, it.values)]  # type: ignore[list-item]
        if how == "values":
            return [[v] for v in it.values]
        return [[k] for k in it.keys]  # type: ignore[list-item]
    if isinstance(it, (ast.Tuple, ast.List)) and how == "seq":
        rows = []
        for r in it.elts:
            if isinstance(r, (ast.Tuple, ast.List)):
                rows.append(list(r.elts))
            elif isinstance(r, ast.Starred):
                return None
            else:
                rows.append([r])
        return rows
    return None


def class_arms(repo: Repo, mod: Module, fn: ast.AST, var: str) -> Iterator[tuple[str, list[ast.AST], "Arm"]]:
    """(class name, code, the arm) for every class C such that fn runs `code` when isinstance(var, C) holds (dispatch_arms,
    inside fn): the code is the arm and what it calls in this module; the arm's .body are its statements."""
    for arm in dispatch_arms(repo, mod, fn, var):
        yield arm.cls, arm_code(mod, arm), arm


def bind_args(callee: ast.AST, call: ast.Call, bound: bool) -> Optional[dict[str, ast.expr]]:
    """parameter name -> the argument expression of this call (defaults for the ones left out); `bound`: the call is made
    on an instance/class, the first parameter is not in the argument list.  None when the call uses * or **."""
    if any(isinstance(a, ast.Starred) for a in call.args) or any(k.arg is None for k in call.keywords):
        return None
    a = callee.args  # type: ignore[attr-defined]
    pos = [x.arg for x in a.posonlyargs + a.args]
    defaults = dict(zip(pos[len(pos) - len(a.defaults):], a.defaults))
    defaults.update({x.arg: d for x, d in zip(a.kwonlyargs, a.kw_defaults) if d is not None})
    if bound:
        pos = pos[1:]
    if len(call.args) > len(pos):
        return None
    env: dict[str, ast.expr] = dict(zip(pos, call.args))
    for k in call.keywords:
        env[k.arg] = k.value  # type: ignore[index]
    for p, d in defaults.items():
        env.setdefault(p, d)
    return env


def is_bound_call(mod: Module, call: ast.Call, callee: ast.AST) -> bool:
    """the call goes through `self.` / `cls.` to a method that takes the instance/class as its first parameter"""
    return isinstance(call.func, ast.Attribute) and isinstance(callee, (ast.FunctionDef, ast.AsyncFunctionDef)) \
        and class_of_function(mod, callee) is not None and not any(norm(d) == "staticmethod" for d in callee.decorator_list) \
        and isinstance(call.func.value, ast.Name) and call.func.value.id in ("self", "cls")


def local_names_of_enclosing(mod: Module, node: ast.AST) -> set[str]:
    """the names bound locally (parameters included) in the function node sits in; empty at module level"""
    for p in mod.parents(node):
        if isinstance(p, (ast.FunctionDef, ast.AsyncFunctionDef, ast.Lambda)):
            return local_names(p) | params(p)
    return set()


def call_establishes(mod: Module, call: ast.Call, owner: Optional[ast.ClassDef], sets, in_with: bool, depth: int = 0, repo: Optional[Repo] = None) -> bool:
    """Does a module-wide setting hold when this call hands control back to its caller?  `sets(module, call, env, fn)` says
    of a call inside function fn whether it puts the setting in force (True), takes it back (False) or is unrelated (None),
    env giving the caller's argument expressions for fn's parameters.  The call establishes the setting when it is itself
    such a call, or when it runs a function of this module (resolve_callee) in which every path to the point where control
    goes back - the normal exit; for a @contextmanager generator entered by `with`, every yield - passes a call that puts
    it in force, with no call that takes it back after that one on a path to that point."""
    from .cfg import CFG

    v = sets(mod, call, None, None)
    if v is not None:
        return bool(v)
    callee = resolve_callee(mod, call, owner)
    if callee is None and repo is not None and isinstance(call.func, ast.Name) and call.func.id not in local_names_of_enclosing(mod, call):
        # a module-level function of another module of the package, imported by name (`from .m import helper`): the same
        # question is asked of its body, read in the module it is written in
        rf = resolve_function(repo, mod, call.func.id)
        if rf is not None:
            mod, callee = rf
            owner = None
    if not isinstance(callee, (ast.FunctionDef, ast.AsyncFunctionDef)) or depth > 2:
        return False
    yields = [y for y in own_nodes(callee) if isinstance(y, (ast.Yield, ast.YieldFrom))]
    is_cm = any(norm(d).split(".")[-1] in ("contextmanager", "asynccontextmanager") for d in callee.decorator_list)
    if bool(yields) != (is_cm and in_with) or (is_cm and not yields):
        return False  # a generator's body runs only as a context manager under `with`; a plain function's when it is called
    env = bind_args(callee, call, is_bound_call(mod, call, callee))
    if env is None:
        return False
    stored = bound_in(callee)
    env = {p: e for p, e in env.items() if p not in stored}
    g = CFG(callee)
    up, down = [], []
    cowner = class_of_function(mod, callee)
    for c in own_nodes(callee):
        if not isinstance(c, ast.Call):
            continue
        v = sets(mod, c, env, callee)
        if v is None and resolve_callee(mod, c, cowner) is not None:
            par = mod.parent.get(id(c))
            # a helper of the helper: followed when its arguments do not depend on this function's parameters
            v = True if not (names_in(c) & set(env)) and call_establishes(mod, c, cowner, sets, isinstance(par, ast.withitem) and par.context_expr is c, depth + 1, repo) else None
        if v is True:
            up.append(g.node_of(c, mod))
        elif v is False:
            down.append(g.node_of(c, mod))
    hand = [g.node_of(y, mod) for y in yields] if yields else [g.exit]
    if not up:
        return False
    for h in hand:
        if not g.must_pass_before(h, up):
            return False
        if any(d not in up and (h == d or h in g.reach(d, avoid=up)) for d in down):
            return False
    return True


def conj_leaves(test: ast.expr, negated: bool = False) -> Optional[list[tuple[ast.expr, bool]]]:
    """the condition `test` (or `not test`) as a conjunction: [(leaf, leaf is negated)], with negations pushed inwards
    (not (a or b) = not a and not b); None when it is a disjunction, i.e. when no leaf is known to hold"""
    if isinstance(test, ast.UnaryOp) and isinstance(test.op, ast.Not):
        return conj_leaves(test.operand, not negated)
    if isinstance(test, ast.BoolOp) and isinstance(test.op, ast.Or if negated else ast.And):
        out: list[tuple[ast.expr, bool]] = []
        for v in test.values:
            sub = conj_leaves(v, negated)
            if sub is None:
                return None
            out += sub
        return out
    if isinstance(test, ast.BoolOp):
        return None
    return [(test, negated)]


_TEXT_KEEPING = ("strip", "rstrip", "lstrip", "removesuffix", "removeprefix", "decode", "encode", "replace", "expandtabs")


def record_names(loop: ast.AST) -> set[str]:
    """names that, inside a reader's row loop, hold the record as it was read - not what was parsed out of it: the target of
    a `for` over the source, what .readline() / next() / .__next__() gave, and copies of those through operations that map
    a text to a text (strip, removesuffix, slices, decode, a conditional expression between such)"""
    out: set[str] = set()
    if isinstance(loop, (ast.For, ast.AsyncFor)):
        out |= bound_in(loop.target)

    def is_read(e: ast.AST) -> bool:
        return isinstance(e, ast.Call) and ((isinstance(e.func, ast.Attribute) and e.func.attr in ("readline", "__next__")) or (isinstance(e.func, ast.Name) and e.func.id == "next"))

    def keeps(e: ast.AST) -> bool:
        if isinstance(e, ast.Name):
            return e.id in out
        if is_read(e):
            return True
        if isinstance(e, ast.Subscript):
            return keeps(e.value)
        if isinstance(e, ast.IfExp):
            return keeps(e.body) and keeps(e.orelse)
        if isinstance(e, ast.Call) and isinstance(e.func, ast.Attribute) and e.func.attr in _TEXT_KEEPING:
            return keeps(e.func.value)
        return False

    binds = [n for n in ast.walk(loop) if isinstance(n, (ast.Assign, ast.AnnAssign, ast.NamedExpr)) and getattr(n, "value", None) is not None]
    changed = True
    while changed:
        changed = False
        for n in binds:
            tg = n.targets if isinstance(n, ast.Assign) else [n.target]
            if keeps(n.value):
                for t in tg:
                    if isinstance(t, ast.Name) and t.id not in out:
                        out.add(t.id)
                        changed = True
    # a name that is also bound to something else inside the loop does not always hold the record
    for n in binds:
        tg = n.targets if isinstance(n, ast.Assign) else [n.target]
        if not keeps(n.value):
            out -= {t.id for t in tg if isinstance(t, ast.Name)}
    return out


def is_emptiness_test(leaf: ast.expr, negated: bool, names: set[str]) -> bool:
    """the (possibly negated) leaf holds exactly when one of `names` is empty: `n == ''` / b'' / [] / (), `len(n) == 0`,
    `not n`, and the negations of `n != ''`, `len(n) > 0`, `n`"""
    def is_name(e: ast.AST) -> bool:
        return isinstance(e, ast.Name) and e.id in names

    def empty_const(e: ast.AST) -> bool:
        return (isinstance(e, ast.Constant) and e.value in ("", b"")) or (isinstance(e, (ast.List, ast.Tuple)) and not e.elts)

    def is_len(e: ast.AST) -> bool:
        return isinstance(e, ast.Call) and norm(e.func) == "len" and len(e.args) == 1 and is_name(e.args[0])

    if is_name(leaf):
        return negated
    if isinstance(leaf, ast.Compare) and len(leaf.ops) == 1:
        a, b, op = leaf.left, leaf.comparators[0], leaf.ops[0]
        if (is_name(a) and empty_const(b)) or (is_name(b) and empty_const(a)):
            return isinstance(op, ast.NotEq if negated else ast.Eq)
        zero = lambda e: isinstance(e, ast.Constant) and e.value == 0 and not isinstance(e.value, bool)  # noqa: E731
        if is_len(a) and zero(b):
            return isinstance(op, (ast.NotEq, ast.Gt) if negated else ast.Eq)
        if is_len(b) and zero(a):
            return isinstance(op, (ast.NotEq, ast.Lt) if negated else ast.Eq)
    return False


# =====================================================================================================================
# helpers of the rules restated on the second wave of preserving variants (DESIGN §14): the ways in which a pass of a
# loop goes by a statement, whatever the spelling (continue under a test / the statement under the opposite test)


class SkipWay:
    """One way in which a pass of a loop does not run a given statement of its body.  `conds`: [(test, negated)], the branch
    conditions that hold on that way; `leaves`: [(leaf, negated)], conjuncts that hold on it - one alternative of the
    disjunctive normal form of the conditions (`if A or B: continue` is two ways, one on which A holds and one on which B
    holds; negations are pushed inwards); `where`: the continue / break taken, or the `if` whose other branch is taken."""

    def __init__(self, where: ast.AST, conds: list[tuple[ast.expr, bool]], leaves: list[tuple[ast.expr, bool]]):
        self.where = where
        self.conds = conds
        self.leaves = leaves

    def text(self) -> str:
        return " and ".join(("not (%s)" % norm(t)) if ng else norm(t) for t, ng in self.conds)


def dnf(test: ast.expr, negated: bool = False, limit: int = 32) -> Optional[list[list[tuple[ast.expr, bool]]]]:
    """`test` (or `not test`) as a disjunction of conjunctions of (leaf, leaf is negated); None when it has more than
    `limit` alternatives"""
    if isinstance(test, ast.UnaryOp) and isinstance(test.op, ast.Not):
        return dnf(test.operand, not negated, limit)
    if isinstance(test, ast.BoolOp):
        parts = [dnf(v, negated, limit) for v in test.values]
        if any(p is None for p in parts):
            return None
        if isinstance(test.op, ast.Or) != negated:  # a disjunction
            out = [alt for p in parts for alt in p]  # type: ignore[union-attr]
        else:
            out = [[]]
            for p in parts:
                out = [a + b for a in out for b in p]  # type: ignore[union-attr]
                if len(out) > limit:
                    return None
        return out if len(out) <= limit else None
    return [[(test, negated)]]


def _ways(where: ast.AST, conds: list[tuple[ast.expr, bool]]) -> list[SkipWay]:
    alts: list[list[tuple[ast.expr, bool]]] = [[]]
    for t, ng in conds:
        d = dnf(t, ng)
        if d is None:
            continue  # too many alternatives: nothing is taken as known from this condition
        alts = [a + b for a in alts for b in d]
        if len(alts) > 64:
            alts = [[]]
            break
    return [SkipWay(where, conds, a) for a in alts]


def _branch_path(mod: Module, node: ast.AST, stop: ast.AST) -> list[tuple[ast.If, bool]]:
    """the if statements between node and stop, innermost first, with: node sits in the else branch"""
    out = []
    child = node
    for p in mod.parents(node):
        if p is stop:
            break
        if isinstance(p, ast.If):
            if any(child is x for x in p.body):
                out.append((p, False))
            elif any(child is x for x in p.orelse):
                out.append((p, True))
        child = p
    return out


def skip_ways(mod: Module, node: ast.AST, loop: ast.AST, fn: ast.AST, jumps: tuple = (ast.Continue,)) -> list[SkipWay]:
    """The ways in which one pass of `loop` does not run `node` (a statement or call in the loop's body, not in a loop nested
    in it), as far as `if` statements decide it:
    * a jump of this loop (continue; `jumps` says which kinds) is taken - under the branch conditions that lead to it;
    * an `if` around node goes the other way - under the negation of its branch condition and the branch conditions of the
      ifs further out.
    `if A: continue` in front of node and `if not A: <node>` give the same leaves."""
    ways = []
    for s in ast.walk(loop):
        if isinstance(s, jumps) and innermost_loop(mod, s, fn) is loop:
            ways += _ways(s, [(i.test, neg) for i, neg in _branch_path(mod, s, loop)])
    path = _branch_path(mod, node, loop)
    for k, (i, neg) in enumerate(path):
        ways += _ways(i, [(i.test, not neg)] + [(j.test, ng) for j, ng in path[k + 1:]])
    return ways


def empty_record_leaves(way: SkipWay, variant: set[str], feeding: set[str]) -> list[ast.expr]:
    """the conjuncts of the way that say `the record of this pass is empty`: a comparison of something computed in the loop
    (`variant`: the names bound in it) with '' / b'' that holds as an equality, or an emptiness test (is_emptiness_test: not n,
    len(n) == 0, n == [] ...) of a name bound in the loop from which the row is computed (`feeding`)"""
    out = []
    for leaf, ng in way.leaves:
        if isinstance(leaf, ast.Compare) and len(leaf.ops) == 1 and isinstance(leaf.ops[0], (ast.Eq, ast.NotEq)):
            sides = [leaf.left, leaf.comparators[0]]
            if any(isinstance(x, ast.Constant) and x.value in ("", b"") for x in sides) and any(names_in(x) & variant for x in sides) \
                    and isinstance(leaf.ops[0], ast.Eq) != ng:
                out.append(leaf)
                continue
        if is_emptiness_test(leaf, ng, variant & feeding):
            out.append(leaf)
    return out


# ------------------------------------------------------------------------ dispatch on a term's class, through the module


def close(e: ast.expr, env: dict[str, ast.expr], hidden: set[str]) -> ast.expr:
    """A copy of the expression e - read inside a function whose local names are `hidden` - that can be read at module
    level: every name of env (a parameter, a loop name over a constant table) is replaced by the closed expression it
    stands for, every other local name by a name that denotes nothing (so that nothing is folded through it)."""
    class _T(ast.NodeTransformer):
        def visit_Name(self, n: ast.Name) -> ast.AST:
            if isinstance(n.ctx, ast.Load):
                if n.id in env:
                    return _copy(env[n.id])
                if n.id in hidden:
                    return ast.copy_location(ast.Name(id="<local %s>" % n.id, ctx=ast.Load()), n)
            return n

    return _T().visit(_copy(e))  # type: ignore[return-value]


def constant_tuple(repo: Repo, mod: Module, e: ast.expr) -> Optional[list[ast.expr]]:
    """the entries of a tuple written in place, or of the tuple a name is bound to once at module level (closed expression)"""
    if isinstance(e, ast.Name):
        mc = module_constant(repo, mod, e.id)
        if mc is None:
            return None
        e = mc[1]
    return list(e.elts) if isinstance(e, ast.Tuple) else None


def _callee_env(mod: Module, callee: ast.AST, call: ast.Call, env: dict[str, ast.expr], hidden: set[str]) -> Optional[dict[str, ast.expr]]:
    """what the parameters of callee stand for at this call: the caller's argument expressions, closed; the callee's own
    defaults as they are; nothing for a parameter that the callee binds again"""
    b = bind_args(callee, call, is_bound_call(mod, call, callee))
    if b is None:
        return None
    a = callee.args  # type: ignore[attr-defined]
    defaults = [d for d in list(a.defaults) + list(a.kw_defaults) if d is not None]
    stored = bound_in(callee)
    return {p: (x if any(x is d for d in defaults) else close(x, env, hidden)) for p, x in b.items() if p not in stored}


def reached_calls(mod: Module, stmts: list, env: dict[str, ast.expr], fn: ast.AST, depth: int = 4, _stack: tuple = ()) -> Iterator[tuple[ast.Call, dict[str, ast.expr], ast.AST]]:
    """Every call that runs when the statements `stmts` of function fn run, as far as it lives in this module, with the
    environment its arguments are to be read in: (call, env, function the call is written in).  A call of a function of
    this module (resolve_callee: f(..), self.m(..), also as the context manager of a `with`) is followed into the callee,
    whose parameters then stand for the caller's (closed) argument expressions: `self._start(tag)` inside a helper called
    with "uri" writes what `startElementNS((NS, "uri"), ..)` writes."""
    owner = class_of_function(mod, fn)
    hidden = local_names(fn)
    for s in stmts:
        for c in ast.walk(s):
            if not isinstance(c, ast.Call):
                continue
            yield c, env, fn
            callee = resolve_callee(mod, c, owner, env)
            if not isinstance(callee, (ast.FunctionDef, ast.AsyncFunctionDef)) or depth <= 0 or id(callee) in _stack:
                continue
            cenv = _callee_env(mod, callee, c, env, hidden)
            if cenv is None:
                continue
            yield from reached_calls(mod, callee.body, cenv, callee, depth - 1, _stack + (id(callee),))


class Arm:
    """code that a function runs when isinstance(<term>, cls) holds: `body` (statements of function `fn`), to be read in
    `env` (loop names over a constant table -> the row's entries, parameters -> the caller's arguments); `test`: the if"""

    def __init__(self, cls: str, body: list, env: dict[str, ast.expr], fn: ast.AST, test: ast.If):
        self.cls, self.body, self.env, self.fn, self.test = cls, body, env, fn, test


def _terminates(body: list) -> bool:
    return bool(body) and isinstance(body[-1], (ast.Raise, ast.Return, ast.Continue, ast.Break))


def _following(mod: Module, st: ast.stmt) -> list:
    """the statements that run after st in its block (for an `elif`, after the whole if statement it belongs to)"""
    p = mod.parent.get(id(st))
    while isinstance(p, ast.If) and len(p.orelse) == 1 and p.orelse[0] is st:
        st, p = p, mod.parent.get(id(p))
    for field in ("body", "orelse", "finalbody"):
        blk = getattr(p, field, None)
        if isinstance(blk, list):
            for i, x in enumerate(blk):
                if x is st:
                    return blk[i + 1:]
    return []


def _class_patterns(p: ast.AST) -> Optional[list[ast.expr]]:
    """the classes C such that the match pattern p succeeds exactly when isinstance(subject, C) for one of them; None when the
    pattern is anything else (a value, a sequence, a class pattern with sub-patterns, a wildcard)"""
    if isinstance(p, ast.MatchAs) and p.pattern is not None:
        return _class_patterns(p.pattern)
    if isinstance(p, ast.MatchClass) and not p.patterns and not p.kwd_patterns:
        return [p.cls]
    if isinstance(p, ast.MatchOr):
        out: list[ast.expr] = []
        for q in p.patterns:
            r = _class_patterns(q)
            if r is None:
                return None
            out += r
        return out
    return None


def dispatch_arms(repo: Repo, mod: Module, fn: ast.AST, var: str, env: Optional[dict[str, ast.expr]] = None, follow: bool = False, depth: int = 3, _stack: tuple = ()) -> Iterator[Arm]:
    """The arms of fn's dispatch on the class of the term held by `var`: for every class C, the code that runs when
    isinstance(var, C) holds -
    * `if isinstance(var, C):` / `if isinstance(var, (C, D)):` - the body;
    * `if not isinstance(var, C): <raise / return / ...>` - what follows the if (or its else branch);
    * `for K, F, .. in TABLE: if isinstance(var, K): ..` over a constant table (table_rows) - one arm per row, the loop
      names standing for the row's entries;
    * with follow: the arms of a function of this module that fn hands `var` to (`self._write_term(val)`), its parameter
      standing for var."""
    env = dict(env or {})
    hidden = local_names(fn)
    for n in ast.walk(fn):
        if not isinstance(n, ast.If):
            continue
        t, neg = n.test, False
        while isinstance(t, ast.UnaryOp) and isinstance(t.op, ast.Not):
            t, neg = t.operand, not neg
        if not (isinstance(t, ast.Call) and norm(t.func) == "isinstance" and len(t.args) == 2 and norm(t.args[0]) == var):
            continue
        if not neg:
            body = list(n.body)
        elif n.orelse:
            body = list(n.orelse)
        elif _terminates(n.body):
            body = _following(mod, n)
        else:
            continue
        k = t.args[1]
        loop = None
        if isinstance(k, ast.Name) and k.id in hidden and k.id not in env:
            for p in mod.parents(n):  # the class is a loop variable: find the for statement that binds it
                if isinstance(p, (ast.For, ast.AsyncFor)) and k.id in bound_in(p.target):
                    loop = p
                    break
                if p is fn:
                    break
        if loop is None:
            kc = close(k, env, hidden)
            for c in (kc.elts if isinstance(kc, ast.Tuple) else [kc]):
                yield Arm(norm(c), body, env, fn, n)
            continue
        rows = table_rows(repo, mod, loop.iter, hidden)
        if rows is None:
            raise AnalysisError("%s: the classes that `%s` is tested against come from `%s`, which is not a constant table" % (getattr(fn, "name", "?"), var, norm(loop.iter)[:60]))
        tg = list(loop.target.elts) if isinstance(loop.target, (ast.Tuple, ast.List)) else [loop.target]
        for row in rows:
            if len(row) != len(tg) or not all(isinstance(x, ast.Name) for x in tg):
                raise AnalysisError("%s: a row of the table `%s` does not match the loop target `%s`" % (getattr(fn, "name", "?"), norm(loop.iter)[:40], norm(loop.target)))
            env2 = dict(env)
            env2.update({x.id: r for x, r in zip(tg, row)})  # type: ignore[attr-defined]
            for c in (env2[k.id].elts if isinstance(env2[k.id], ast.Tuple) else [env2[k.id]]):  # type: ignore[attr-defined]
                yield Arm(norm(c), body, env2, fn, n)
    # `<a> if isinstance(var, C) else <b>` (or with `not`, the other way round): the arm is the expression that is evaluated when
    # the test holds - Arm.body holds that one expression node
    for n in ast.walk(fn):
        if not isinstance(n, ast.IfExp):
            continue
        t, neg = n.test, False
        while isinstance(t, ast.UnaryOp) and isinstance(t.op, ast.Not):
            t, neg = t.operand, not neg
        if not (isinstance(t, ast.Call) and norm(t.func) == "isinstance" and len(t.args) == 2 and norm(t.args[0]) == var):
            continue
        kc = close(t.args[1], env, hidden)
        if isinstance(t.args[1], ast.Name) and t.args[1].id in hidden and t.args[1].id not in env:
            continue  # a class that is a local name: not a constant class
        for c in (kc.elts if isinstance(kc, ast.Tuple) else [kc]):
            yield Arm(norm(c), [n.orelse if neg else n.body], env, fn, n)  # type: ignore[arg-type]
    # `match var:` - a class pattern without sub-patterns and without a guard is the isinstance test of that class (`case C():`,
    # `case C() | D():`, `case C() as x:`); a pattern that looks inside the object, or a guarded case, is narrower than the class
    # and is not an arm of the dispatch on the class
    for n in ast.walk(fn):
        if not (isinstance(n, ast.Match) and norm(n.subject) == var):
            continue
        for case in n.cases:
            if case.guard is not None:
                continue
            for cls_expr in _class_patterns(case.pattern) or []:
                yield Arm(norm(close(cls_expr, env, hidden)), list(case.body), env, fn, case.pattern)  # type: ignore[arg-type]
    if not follow or depth <= 0 or var in bound_in(fn):
        return
    owner = class_of_function(mod, fn)
    for c in own_nodes(fn):
        if not isinstance(c, ast.Call):
            continue
        callee = resolve_callee(mod, c, owner, env)
        if not isinstance(callee, (ast.FunctionDef, ast.AsyncFunctionDef)) or id(callee) in _stack or callee is fn:
            continue
        cenv = _callee_env(mod, callee, c, env, hidden)
        b = bind_args(callee, c, is_bound_call(mod, c, callee))
        if cenv is None or b is None:
            continue
        for p, x in b.items():
            if isinstance(x, ast.Name) and x.id == var and p not in bound_in(callee):
                yield from dispatch_arms(repo, mod, callee, p, cenv, follow, depth - 1, _stack + (id(fn),))


def arm_code(mod: Module, arm: Arm) -> list[ast.AST]:
    """the arm and the functions of the module it calls (reached_code), the arm's table names standing for their entries"""
    return reached_code(mod, list(arm.body), class_of_function(mod, arm.fn), arm.env)


def value_arms(fn: ast.AST, subjects: tuple) -> Iterator[tuple[object, list]]:
    """(constant, statements) for the arms of fn's dispatch on the VALUE of one of `subjects` (normalised source texts; None
    entries are ignored): the body of `if <subject> == <constant>:` and the body of `case <constant>:` (also `case a | b:`) in a
    `match <subject>:` without a guard - a value pattern compares with ==, as the if does."""
    subj = {x for x in subjects if x}
    for n in ast.walk(fn):
        if (isinstance(n, ast.If) and isinstance(n.test, ast.Compare) and len(n.test.ops) == 1 and isinstance(n.test.ops[0], ast.Eq)
                and norm(n.test.left) in subj and isinstance(n.test.comparators[0], ast.Constant)):
            yield n.test.comparators[0].value, list(n.body)
        elif isinstance(n, ast.Match) and norm(n.subject) in subj:
            for case in n.cases:
                if case.guard is not None:
                    continue
                pats = case.pattern.patterns if isinstance(case.pattern, ast.MatchOr) else [case.pattern]
                if all(isinstance(q, ast.MatchValue) and isinstance(q.value, ast.Constant) for q in pats):
                    for q in pats:
                        yield q.value.value, list(case.body)  # type: ignore[attr-defined]


def row_comprehension(e: ast.expr) -> Optional[ast.AST]:
    """the comprehension that builds the list e evaluates to, one element per pass: `[.. for ..]`, a generator expression, or
    one of them handed to list() / tuple(); None for anything else"""
    if isinstance(e, ast.Call) and isinstance(e.func, ast.Name) and e.func.id in ("list", "tuple") and len(e.args) == 1 and not e.keywords:
        e = e.args[0]
    if isinstance(e, (ast.ListComp, ast.GeneratorExp)) and len(e.generators) >= 1:
        return e
    return None


def arm_results(mod: Module, arm: "Arm") -> list[ast.expr]:
    """the expressions whose value the function hands back when the arm runs: the values of the `return`s in the arm's statements
    and, for an arm that is the branch of a conditional expression, that branch when the conditional expression is what is returned
    (directly, or through a local name that is returned)"""
    out: list[ast.expr] = []
    returned = {r.value.id for r in own_nodes(arm.fn) if isinstance(r, ast.Return) and isinstance(r.value, ast.Name)}
    for s in arm.body:
        if isinstance(s, ast.expr) and isinstance(arm.test, ast.IfExp):
            par = mod.parent.get(id(arm.test))
            if isinstance(par, ast.Return) or (isinstance(par, ast.Assign) and any(isinstance(t, ast.Name) and t.id in returned for t in par.targets)) or (
                    isinstance(par, ast.AnnAssign) and isinstance(par.target, ast.Name) and par.target.id in returned):
                out.append(s)
            continue
        for x in ast.walk(s):
            if isinstance(x, ast.Return) and x.value is not None:
                out.append(x.value)
    return out
