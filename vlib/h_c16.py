"""Helpers of the later C16 rules (checks/c16.py, rules n..t): regular-expression ASTs, module-level definitions and
imports, grammar reference closure, small def-use utilities.  Static only: `re._parser.parse` builds the AST of a
pattern that is a string constant of the analysed source; nothing of the analysed library is imported or run."""
from __future__ import annotations

import ast
import re
from typing import Iterator, Optional

try:  # Python >= 3.11
    import re._parser as _sre_parse  # type: ignore[import-not-found]
    import re._constants as _sre_c  # type: ignore[import-not-found]
except ImportError:  # pragma: no cover
    import sre_parse as _sre_parse  # type: ignore[no-redef]
    import sre_constants as _sre_c  # type: ignore[no-redef]

from .core import AnalysisError, Module, Repo, norm, own_nodes

BACKSLASH = 92


# ------------------------------------------------------------------------------------------------------- regex ASTs


def regex_seqs(pattern: str, flags: int = 0) -> Iterator[list]:
    """every item sequence (list of (op, av)) of the pattern's AST, outermost first"""
    try:
        top = _sre_parse.parse(pattern, flags)
    except Exception as e:  # re.error
        raise AnalysisError("regular expression %r does not parse: %s" % (pattern[:40], e)) from None
    stack = [top]
    while stack:
        sp = stack.pop()
        items = list(sp)
        yield items
        for op, av in items:
            if op is _sre_c.SUBPATTERN:
                stack.append(av[3])
            elif op is _sre_c.BRANCH:
                stack.extend(av[1])
            elif op in (_sre_c.MAX_REPEAT, _sre_c.MIN_REPEAT) or str(op) == "POSSESSIVE_REPEAT":
                stack.append(av[2])
            elif op in (_sre_c.ASSERT, _sre_c.ASSERT_NOT):
                stack.append(av[1])
            elif str(op) == "ATOMIC_GROUP":
                stack.append(av)
            elif op is _sre_c.GROUPREF_EXISTS:
                stack.extend(x for x in av[1:] if x is not None)


def class_chars(av: list) -> Optional[set[str]]:
    """members of a positive character class [..] made of literals and ranges; None for a negated class or one with categories"""
    out: set[str] = set()
    for op, v in av:
        if op is _sre_c.LITERAL:
            out.add(chr(v))
        elif op is _sre_c.RANGE:
            if v[1] - v[0] > 256:
                return None
            out.update(chr(c) for c in range(v[0], v[1] + 1))
        else:
            return None
    return out


def escape_classes(pattern: str, flags: int = 0) -> list[set[str]]:
    """for every place of the pattern where a literal backslash is followed by a character class (or one literal):
    the characters accepted after the backslash"""
    out = []
    for items in regex_seqs(pattern, flags):
        for (op, av), nxt in zip(items, items[1:]):
            if op is _sre_c.LITERAL and av == BACKSLASH:
                nop, nav = nxt
                if nop is _sre_c.IN:
                    cs = class_chars(nav)
                    if cs is not None:
                        out.append(cs)
                elif nop is _sre_c.LITERAL:
                    out.append({chr(nav)})
    return out


def knows_codepoint_escape(pattern: str, flags: int = 0) -> bool:
    """the pattern has a literal backslash directly followed by the letter u/U (as a literal, or at the head of a group or alternative)"""
    def heads(items: list) -> set[str]:
        if not items:
            return set()
        op, av = items[0]
        if op is _sre_c.LITERAL:
            return {chr(av)}
        if op is _sre_c.IN:
            return class_chars(av) or set()
        if op is _sre_c.SUBPATTERN:
            return heads(list(av[3]))
        if op is _sre_c.BRANCH:
            r: set[str] = set()
            for alt in av[1]:
                r |= heads(list(alt))
            return r
        return set()

    for items in regex_seqs(pattern, flags):
        for i, (op, av) in enumerate(items[:-1]):
            if op is _sre_c.LITERAL and av == BACKSLASH and heads(items[i + 1:]) & {"u", "U"}:
                return True
    return False


# ------------------------------------------------------------------------------------------- module-level definitions


def toplevel(mod: Module) -> Iterator[ast.stmt]:
    """module-level statements, also those under module-level if/try (version switches)"""
    stack = list(reversed(mod.tree.body))
    while stack:
        st = stack.pop()
        yield st
        if isinstance(st, (ast.If, ast.Try)):
            for blk in (st.body, getattr(st, "orelse", []), getattr(st, "finalbody", [])):
                stack.extend(reversed(blk))
            for h in getattr(st, "handlers", []):
                stack.extend(reversed(h.body))


def module_values(mod: Module) -> dict[str, list[ast.expr]]:
    """module-level name -> the expressions bound to it (`N = e`, `N: T = e`, `N <<= e`, `N += e`)"""
    out: dict[str, list[ast.expr]] = {}
    for st in toplevel(mod):
        if isinstance(st, ast.Assign):
            for t in st.targets:
                if isinstance(t, ast.Name):
                    out.setdefault(t.id, []).append(st.value)
        elif isinstance(st, ast.AnnAssign) and st.value is not None and isinstance(st.target, ast.Name):
            out.setdefault(st.target.id, []).append(st.value)
        elif isinstance(st, ast.AugAssign) and isinstance(st.target, ast.Name):
            out.setdefault(st.target.id, []).append(st.value)
    return out


def imports(mod: Module) -> dict[str, tuple[str, str]]:
    """local name -> (module, name) of every `from M import name [as local]` of the module (any nesting level)"""
    out = {}
    for n in ast.walk(mod.tree):
        if isinstance(n, ast.ImportFrom) and n.module and not n.level:
            for a in n.names:
                out[a.asname or a.name] = (n.module, a.name)
    return out


def method_calls_on(mod: Module, attrs: tuple[str, ...]) -> Iterator[tuple[str, ast.Call]]:
    """module-level `NAME.<attr>(...)` expression statements: (NAME, call)"""
    for st in toplevel(mod):
        if isinstance(st, ast.Expr) and isinstance(st.value, ast.Call) and isinstance(st.value.func, ast.Attribute) \
                and st.value.func.attr in attrs and isinstance(st.value.func.value, ast.Name):
            yield st.value.func.value.id, st.value


PARSE_ACTION = ("set_parse_action", "setParseAction", "add_parse_action", "addParseAction")


def action_code(mod: Module, action: ast.expr, depth: int = 2) -> list[ast.AST]:
    """the code a parse action runs: the lambda / named function and the module-level functions it calls by name (to `depth`)"""
    out: list[ast.AST] = []
    seen: set[str] = set()

    def add(node: ast.AST, d: int) -> None:
        out.append(node)
        if d <= 0:
            return
        for c in ast.walk(node):
            if isinstance(c, ast.Call) and isinstance(c.func, ast.Name) and c.func.id not in seen and isinstance(mod.defs.get(c.func.id), ast.FunctionDef):
                seen.add(c.func.id)
                add(mod.defs[c.func.id], d - 1)

    if isinstance(action, ast.Name) and isinstance(mod.defs.get(action.id), ast.FunctionDef):
        seen.add(action.id)
        add(mod.defs[action.id], depth)
    else:
        add(action, depth)
    return out


def const_str(e: ast.expr) -> Optional[str]:
    return e.value if isinstance(e, ast.Constant) and isinstance(e.value, str) else None


def re_flags(call: ast.Call) -> int:
    """flags of a Regex(...)/re.compile(...) call, as far as they matter for parsing the pattern"""
    fl = 0
    exprs = [k.value for k in call.keywords if k.arg == "flags"] + list(call.args[1:2])
    for e in exprs:
        for n in ast.walk(e):
            if isinstance(n, ast.Attribute) and n.attr in ("X", "VERBOSE"):
                fl |= re.VERBOSE
            if isinstance(n, ast.Attribute) and n.attr in ("I", "IGNORECASE"):
                fl |= re.IGNORECASE
    return fl


def resolve_function(repo: Repo, mod: Module, name: str) -> Optional[tuple[Module, ast.FunctionDef]]:
    """the module-level function a bare name denotes in `mod` (defined there or imported with `from M import name`)"""
    d = mod.defs.get(name)
    if isinstance(d, ast.FunctionDef):
        return mod, d
    imp = imports(mod).get(name)
    if imp and imp[0] in repo.modules:
        m2 = repo.modules[imp[0]]
        d = m2.defs.get(imp[1])
        if isinstance(d, ast.FunctionDef):
            return m2, d
    return None


def compiled_patterns_used(repo: Repo, mod: Module, fn: ast.AST) -> list[tuple[str, int]]:
    """(pattern, flags) of the module-level `re.compile(<constant>)` objects whose .sub() the function (nested defs included) calls"""
    vals = module_values(mod)
    out = []
    for c in ast.walk(fn):
        if isinstance(c, ast.Call) and isinstance(c.func, ast.Attribute) and c.func.attr in ("sub", "subn") and isinstance(c.func.value, ast.Name):
            for v in vals.get(c.func.value.id, []):
                if isinstance(v, ast.Call) and norm(v.func).split(".")[-1] == "compile" and v.args and const_str(v.args[0]) is not None:
                    out.append((const_str(v.args[0]), re_flags(v)))
        if isinstance(c, ast.Call) and norm(c.func) in ("re.sub", "re.subn") and c.args and const_str(c.args[0]) is not None:
            out.append((const_str(c.args[0]), 0))
    return out


def is_codepoint_expander(repo: Repo, mod: Module, fn: ast.FunctionDef) -> bool:
    """fn substitutes, with a pattern that knows `\\u` / `\\U`, the character chr(int(<hex digits>, 16))"""
    pats = compiled_patterns_used(repo, mod, fn)
    if not any(knows_codepoint_escape(p, f) for p, f in pats):
        return False
    for c in ast.walk(fn):
        if isinstance(c, ast.Call) and norm(c.func) == "chr" and c.args and isinstance(c.args[0], ast.Call) and norm(c.args[0].func) == "int" \
                and len(c.args[0].args) == 2 and isinstance(c.args[0].args[1], ast.Constant) and c.args[0].args[1].value == 16:
            return True
    return False


def grammar_reaches(repo: Repo, mod: Module, start: str, targets: set[tuple[str, str]], limit: int = 5000) -> Optional[tuple[str, str]]:
    """does the module-level grammar element `start` of `mod` refer, through module-level definitions (and `from M import`
    of other modules of the tree), to one of `targets` = {(module name, element name)}?  Returns the target reached."""
    seen: set[tuple[str, str]] = set()
    work = [(mod.name, start)]
    cache_vals: dict[str, dict[str, list[ast.expr]]] = {}
    cache_imp: dict[str, dict[str, tuple[str, str]]] = {}
    while work and len(seen) < limit:
        mn, nm = work.pop()
        if (mn, nm) in seen:
            continue
        seen.add((mn, nm))
        if (mn, nm) in targets:
            return (mn, nm)
        m = repo.modules.get(mn)
        if m is None:
            continue
        vals = cache_vals.setdefault(mn, module_values(m))
        imps = cache_imp.setdefault(mn, imports(m))
        if nm in vals:
            for v in vals[nm]:
                for x in ast.walk(v):
                    if isinstance(x, ast.Name):
                        work.append((mn, x.id))
        elif nm in imps:
            work.append(imps[nm])
    return None


# ------------------------------------------------------------------------------------------------------- def-use


def enclosing(mod: Module, node: ast.AST, fn: ast.AST) -> list[ast.AST]:
    """ancestors of node, innermost first, up to (excluding) fn"""
    out = []
    for p in mod.parents(node):
        if p is fn:
            break
        out.append(p)
    return out


def innermost_loop(mod: Module, node: ast.AST, fn: ast.AST) -> Optional[ast.AST]:
    for p in enclosing(mod, node, fn):
        if isinstance(p, (ast.For, ast.While, ast.AsyncFor)):
            return p
    return None


def bound_in(node: ast.AST) -> set[str]:
    """names (re)bound anywhere inside node"""
    return {n.id for n in ast.walk(node) if isinstance(n, ast.Name) and isinstance(n.ctx, ast.Store)}


def names_in(node: ast.AST) -> set[str]:
    return {n.id for n in ast.walk(node) if isinstance(n, ast.Name)}


def derived_names(scope: ast.AST, seeds: set[str]) -> set[str]:
    """seeds plus every name assigned inside scope from an expression that mentions one of them (fixpoint)"""
    out = set(seeds)
    changed = True
    while changed:
        changed = False
        for n in ast.walk(scope):
            if isinstance(n, (ast.Assign, ast.AnnAssign, ast.NamedExpr)) and getattr(n, "value", None) is not None:
                tgts = n.targets if isinstance(n, ast.Assign) else [n.target]
                if names_in(n.value) & out:
                    for t in tgts:
                        if isinstance(t, ast.Name) and t.id not in out:
                            out.add(t.id)
                            changed = True
    return out


def guard_tests(mod: Module, node: ast.AST, stop: ast.AST) -> list[ast.expr]:
    """tests of the if statements (either branch) between node and stop"""
    out = []
    for p in mod.parents(node):
        if p is stop:
            break
        if isinstance(p, ast.If):
            out.append(p.test)
    return out


def strip_none_default(e: ast.expr) -> str:
    """normalised text of e, with `m.get(k, None)` written as `m.get(k)`"""
    if isinstance(e, ast.Call) and isinstance(e.func, ast.Attribute) and e.func.attr == "get" and len(e.args) == 2 \
            and isinstance(e.args[1], ast.Constant) and e.args[1].value is None and not e.keywords:
        return "%s(%s)" % (norm(e.func), norm(e.args[0]))
    return norm(e)
