"""Helpers of check C04 (second layer of rules): grammar facts, def-use closures, path conditions.

Everything here is pure `ast`; nothing of the analysed library is imported or executed.
"""
from __future__ import annotations

import ast
from typing import Iterable, Iterator, Optional

from .cfg import CFG, reaching_defs
from .core import AnalysisError, Module, norm, own_nodes

# --------------------------------------------------------------------------------------------------------------------
# grammar: which Comp(...) of the pyparsing grammar can come out EMPTY (no Param set at all)?
# --------------------------------------------------------------------------------------------------------------------
_REPEAT_MAYBE = {"Optional", "ZeroOrMore"}          # may match nothing: no Param inside is guaranteed
_TRANSPARENT = {"OneOrMore", "Group", "Suppress", "Combine", "Dict", "DelimitedList", "delimitedList", "delimited_list"}


class Grammar:
    """Module-level pyparsing definitions of parser.py, by name (`X = expr`, `X <<= expr`)."""

    def __init__(self, par: Module):
        self.par = par
        self.defs: dict[str, list[ast.expr]] = {}
        for st in par.tree.body:
            if isinstance(st, ast.Assign) and len(st.targets) == 1 and isinstance(st.targets[0], ast.Name):
                self.defs.setdefault(st.targets[0].id, []).append(st.value)
            elif isinstance(st, ast.AugAssign) and isinstance(st.target, ast.Name) and isinstance(st.op, ast.LShift):
                self.defs.setdefault(st.target.id, []).append(st.value)
            elif isinstance(st, ast.Expr) and isinstance(st.value, ast.BinOp) and isinstance(st.value.op, ast.LShift) \
                    and isinstance(st.value.left, ast.Name):
                self.defs.setdefault(st.value.left.id, []).append(st.value.right)
        if len(self.defs) < 100:
            raise AnalysisError("parser.py: expected >= 100 grammar definitions, found %d" % len(self.defs))

    @staticmethod
    def _callee(e: ast.AST) -> Optional[str]:
        if isinstance(e, ast.Call):
            f = e.func
            return f.id if isinstance(f, ast.Name) else f.attr if isinstance(f, ast.Attribute) else None
        return None

    def sets_a_param(self, e: ast.AST, seen: frozenset = frozenset()) -> bool:
        """True when every successful match of the grammar expression `e` sets at least one Param of the ENCLOSING Comp."""
        c = self._callee(e)
        if c in ("Param", "ParamList"):
            return True
        if c == "Comp":
            return False  # a nested Comp keeps its Params to itself
        if c in _REPEAT_MAYBE:
            return False
        if c in _TRANSPARENT and e.args:  # type: ignore[attr-defined]
            return self.sets_a_param(e.args[0], seen)  # type: ignore[attr-defined]
        if isinstance(e, ast.Call) and isinstance(e.func, ast.Attribute):
            # x.setEvalFn(...), x.set_name(...), ... : decorations of x
            return self.sets_a_param(e.func.value, seen)
        if isinstance(e, ast.BinOp):
            if isinstance(e.op, (ast.Add, ast.Sub, ast.BitAnd)):      # sequence / each
                return self.sets_a_param(e.left, seen) or self.sets_a_param(e.right, seen)
            if isinstance(e.op, (ast.BitOr, ast.BitXor)):             # alternatives
                return self.sets_a_param(e.left, seen) and self.sets_a_param(e.right, seen)
            return False
        if isinstance(e, ast.Name):
            if e.id in seen or e.id not in self.defs:
                return False
            vals = [v for v in self.defs[e.id] if self._callee(v) != "Forward"]
            return bool(vals) and all(self.sets_a_param(v, seen | {e.id}) for v in vals)
        return False

    def comp_of(self, e: ast.AST, depth: int = 0) -> Optional[ast.Call]:
        """the Comp(...) call a Param value denotes (directly, decorated, or through a grammar name), else None"""
        if self._callee(e) == "Comp":
            return e  # type: ignore[return-value]
        if isinstance(e, ast.Call) and isinstance(e.func, ast.Attribute):
            return self.comp_of(e.func.value, depth)
        if isinstance(e, ast.Name) and depth < 4:
            vals = [v for v in self.defs.get(e.id, []) if self._callee(v) != "Forward"]
            if len(vals) == 1:
                return self.comp_of(vals[0], depth + 1)
        return None

    def comp_can_be_empty(self, comp: ast.Call) -> bool:
        return not (len(comp.args) >= 2 and self.sets_a_param(comp.args[1]))

    def params(self) -> Iterator[tuple[str, str, ast.Call]]:
        """(kind, name, call) for every Param("name", value) / ParamList("name", value) of the grammar"""
        for n in ast.walk(self.par.tree):
            c = self._callee(n)
            if c in ("Param", "ParamList") and n.args and isinstance(n.args[0], ast.Constant) and isinstance(n.args[0].value, str):  # type: ignore[attr-defined]
                yield c, n.args[0].value, n  # type: ignore[attr-defined,misc]

    def maybe_empty_comp_params(self) -> dict[str, str]:
        """Param name -> name of a Comp it can hold that can be empty.  Only single-valued Params (a ParamList holds a list)."""
        out: dict[str, str] = {}
        n_comp = 0
        for kind, name, call in self.params():
            if kind != "Param" or len(call.args) < 2:
                continue
            if len(call.args) >= 3 or any(k.arg == "isList" for k in call.keywords):
                continue
            comp = self.comp_of(call.args[1])
            if comp is None:
                continue
            n_comp += 1
            if self.comp_can_be_empty(comp):
                out[name] = comp.args[0].value if comp.args and isinstance(comp.args[0], ast.Constant) else "?"
        if n_comp < 5:
            raise AnalysisError("parser.py: expected >= 5 Comp-valued Params, found %d" % n_comp)
        return out


# --------------------------------------------------------------------------------------------------------------------
# def-use
# --------------------------------------------------------------------------------------------------------------------
def local_defs(fn: ast.AST, name: str) -> list[ast.expr]:
    """values bound to the local `name` by plain / annotated / walrus assignments of fn (not loop targets)"""
    out: list[ast.expr] = []
    for n in own_nodes(fn, include_nested=True):
        if isinstance(n, ast.Assign) and any(isinstance(t, ast.Name) and t.id == name for t in n.targets):
            out.append(n.value)
        elif isinstance(n, ast.AnnAssign) and isinstance(n.target, ast.Name) and n.target.id == name and n.value is not None:
            out.append(n.value)
        elif isinstance(n, ast.NamedExpr) and n.target.id == name:
            out.append(n.value)
    return out


def closure(fn: ast.AST, e: ast.AST, depth: int = 4) -> list[ast.AST]:
    """the expression `e` together with the defining expressions of every local name it mentions (transitively): the
    sub-expressions the value of e is computed from.  Independent of what the locals are called."""
    seen_names: set[str] = set()
    out: list[ast.AST] = []
    todo = [(e, 0)]
    while todo:
        x, d = todo.pop()
        out.append(x)
        if d >= depth:
            continue
        for n in ast.walk(x):
            if isinstance(n, ast.Name) and isinstance(n.ctx, ast.Load) and n.id not in seen_names:
                seen_names.add(n.id)
                for v in local_defs(fn, n.id):
                    if v is not x:
                        todo.append((v, d + 1))
    return out


def closure_nodes(fn: ast.AST, e: ast.AST, depth: int = 4) -> Iterator[ast.AST]:
    for x in closure(fn, e, depth):
        yield from ast.walk(x)


def params_of(fn: ast.FunctionDef) -> list[str]:
    return [a.arg for a in fn.args.posonlyargs + fn.args.args]


def enclosing_stmt(mod: Module, node: ast.AST) -> ast.stmt:
    if isinstance(node, ast.stmt):
        return node
    for p in mod.parents(node):
        if isinstance(p, ast.stmt):
            return p
    raise AnalysisError("no statement encloses %s" % norm(node)[:60])


def path_conditions(mod: Module, fn: ast.AST, node: ast.AST) -> dict[str, bool]:
    """truth of the `if` tests that enclose `node` in fn, for tests over names the function binds at most once
    (so the same text has the same value wherever it is evaluated)."""
    bound: dict[str, int] = {}
    for n in own_nodes(fn, include_nested=True):
        if isinstance(n, ast.Name) and isinstance(n.ctx, (ast.Store, ast.Del)):
            bound[n.id] = bound.get(n.id, 0) + 1
    out: dict[str, bool] = {}
    child = node
    for p in mod.parents(node):
        if p is fn:
            break
        if isinstance(p, ast.If) and child is not p.test:
            names = {x.id for x in ast.walk(p.test) if isinstance(x, ast.Name)}
            if all(bound.get(x, 0) <= 1 for x in names) and not any(isinstance(x, ast.Call) for x in ast.walk(p.test)):
                in_body = any(child is s for s in p.body)
                out[norm(p.test)] = in_body
        child = p
    return out


def reaching_values(mod: Module, fn: ast.FunctionDef, g: CFG, at: ast.AST, name: str) -> list[Optional[ast.AST]]:
    """the statements whose binding of `name` can be the last one before `at` is evaluated, on paths that are
    consistent with the `if` tests enclosing `at`.  None stands for `value at function entry` (parameter / unbound)."""
    target = g.node_of(at, mod)
    ids = reaching_defs(g, target, name, assume=path_conditions(mod, fn, at))
    return [None if i == g.entry else g.nodes[i].ast for i in sorted(ids)]


def bound_value(st: ast.AST, name: str) -> Optional[ast.expr]:
    """the expression a binding statement gives to `name` (None when it is not a plain assignment: loop target, with ...)"""
    if isinstance(st, ast.Assign) and any(isinstance(t, ast.Name) and t.id == name for t in st.targets):
        return st.value
    if isinstance(st, ast.AnnAssign) and isinstance(st.target, ast.Name) and st.target.id == name:
        return st.value
    return None


def handler_catches(h: ast.ExceptHandler, names: Iterable[str]) -> bool:
    if h.type is None:
        return True
    ts = h.type.elts if isinstance(h.type, ast.Tuple) else [h.type]
    return any(norm(t).split(".")[-1] in set(names) for t in ts)


# --------------------------------------------------------------------------------------------------------------------
# third layer (rules z, aa-ac): query contexts and side-stored patterns
# --------------------------------------------------------------------------------------------------------------------
def attr_store_targets(st: ast.AST) -> list[ast.Attribute]:
    """the `<base>.<attr>` targets a statement stores into (plain, chained, tuple, augmented, annotated-with-value)"""
    tg: list[ast.AST] = []
    if isinstance(st, ast.Assign):
        tg = list(st.targets)
    elif isinstance(st, ast.AugAssign):
        tg = [st.target]
    elif isinstance(st, ast.AnnAssign) and st.value is not None:
        tg = [st.target]
    out: list[ast.Attribute] = []
    todo = list(tg)
    while todo:
        t = todo.pop()
        if isinstance(t, (ast.Tuple, ast.List)):
            todo.extend(t.elts)
        elif isinstance(t, ast.Starred):
            todo.append(t.value)
        elif isinstance(t, ast.Attribute):
            out.append(t)
    return out


def context_makers(cls_methods: dict[str, ast.FunctionDef], cls_name: str) -> set[str]:
    """methods of the context class every `return` of which hands out an object made in the call: the class's constructor,
    `self.<maker>(...)`, or a local bound only to such calls (fixpoint; independent of local names)"""
    makers: set[str] = set()

    def fresh(fn: ast.FunctionDef, e: Optional[ast.AST], depth: int = 0) -> bool:
        if isinstance(e, ast.Call):
            if isinstance(e.func, ast.Name) and e.func.id == cls_name:
                return True
            selfname = fn.args.args[0].arg if fn.args.args else None
            return isinstance(e.func, ast.Attribute) and e.func.attr in makers and isinstance(e.func.value, ast.Name) and e.func.value.id == selfname
        if isinstance(e, ast.Name) and depth < 3:
            ds = local_defs(fn, e.id)
            return bool(ds) and all(fresh(fn, d, depth + 1) for d in ds)
        return False

    changed = True
    while changed:
        changed = False
        for m, fn in cls_methods.items():
            if m in makers or m.startswith("__"):
                continue
            rets = [r for r in own_nodes(fn) if isinstance(r, ast.Return)]
            if rets and all(fresh(fn, r.value) for r in rets):
                makers.add(m)
                changed = True
    return makers


def is_maker_call(e: Optional[ast.AST], makers: set[str], cls_name: str) -> bool:
    if not isinstance(e, ast.Call):
        return False
    if isinstance(e.func, ast.Name):
        return e.func.id == cls_name
    return isinstance(e.func, ast.Attribute) and e.func.attr in makers


def denotes_param(mod: Module, fn: ast.FunctionDef, g: CFG, at: ast.AST, name: str) -> Optional[str]:
    """the parameter of fn whose entry value the local `name` holds when `at` is evaluated (directly, or through one
    plain alias `name = <param>` made while the parameter still had its entry value), else None"""
    params = set(params_of(fn))
    vals = reaching_values(mod, fn, g, at, name)
    if not vals:
        return None
    found: set[Optional[str]] = set()
    for st in vals:
        if st is None:
            found.add(name if name in params else None)
            continue
        v = bound_value(st, name)
        if isinstance(v, ast.Name) and v.id in params and reaching_values(mod, fn, g, st, v.id) == [None]:
            found.add(v.id)
        else:
            found.add(None)
    return found.pop() if len(found) == 1 else None


# --------------------------------------------------------------------------------------------------------------------
# restatements after the preserving-refactoring round (DESIGN §14.2): collections, tables, constants behind a test
# --------------------------------------------------------------------------------------------------------------------
MATERIALISERS = {"list", "tuple", "set", "frozenset", "sorted"}


def materialised(e: Optional[ast.AST]) -> Optional[str]:
    """why the value of `e` is a collection that is complete when the expression has been evaluated and can be iterated any
    number of times (a display, a comprehension, a materialising constructor); None for anything else - in particular a
    generator expression or the result of a generator function, which one iteration uses up"""
    if isinstance(e, (ast.List, ast.Tuple, ast.Set, ast.Dict)):
        return "display"
    if isinstance(e, (ast.ListComp, ast.SetComp, ast.DictComp)):
        return "comprehension (built completely where it stands, unlike a generator expression)"
    if isinstance(e, ast.Call) and isinstance(e.func, ast.Name) and e.func.id in MATERIALISERS:
        return e.func.id + "(...)"
    return None


def in_nested_scope(mod: Module, fn: ast.AST, node: ast.AST) -> bool:
    for p in mod.parents(node):
        if p is fn:
            return False
        if isinstance(p, (ast.FunctionDef, ast.AsyncFunctionDef, ast.Lambda, ast.ClassDef)):
            return True
    return False


def values_reaching(mod: Module, fn: ast.FunctionDef, at: ast.AST, name: str) -> Optional[list[Optional[ast.expr]]]:
    """the expressions the local `name` can hold when `at` is evaluated: one entry per binding that can be the last one
    before `at` on some path (reaching definitions), None as an entry for a binding that is not a plain assignment (function
    entry / parameter, loop target, with ..., augmented assignment).  Inside a nested scope (a lambda, an inner def) `at`
    has no place in the function's flow: every assignment of the function to `name` then counts; the same when a binding of
    `name` stands in a `try` body (the statement may raise before it has bound the name, which the flow graph does not
    model).  None: `name` is never bound."""
    stores = [n for n in own_nodes(fn, include_nested=True) if isinstance(n, ast.Name) and n.id == name and isinstance(n.ctx, ast.Store)]
    if in_nested_scope(mod, fn, at) or any(try_bodies_around(mod, fn, n) for n in stores):
        vals: list[Optional[ast.expr]] = list(local_defs(fn, name))
        if any(isinstance(n, ast.Name) and n.id == name and isinstance(n.ctx, ast.Store) and not isinstance(mod.parent.get(id(n)), (ast.Assign, ast.AnnAssign, ast.NamedExpr))
               for n in own_nodes(fn, include_nested=True)) or name in params_of(fn):  # type: ignore[arg-type]
            vals.append(None)
        return vals or None
    g = CFG(fn)
    sts = reaching_values(mod, fn, g, at, name)
    if not sts:
        return None
    out: list[Optional[ast.expr]] = []
    for st in sts:
        v = bound_value(st, name) if st is not None else None
        if v is None and isinstance(st, (ast.Assign, ast.Expr, ast.Return, ast.AnnAssign, ast.AugAssign)):
            # bound by a walrus inside the statement
            w = [x.value for x in ast.walk(st) if isinstance(x, ast.NamedExpr) and x.target.id == name]
            v = w[-1] if len(w) == 1 and not isinstance(st, ast.AugAssign) else None
        out.append(v)
    return out


def module_defs(mod: Module, name: str) -> list[ast.expr]:
    """the values a name is bound to by assignments at the top level of the module"""
    out: list[ast.expr] = []
    for st in mod.tree.body:
        if isinstance(st, ast.Assign) and any(isinstance(t, ast.Name) and t.id == name for t in st.targets):
            out.append(st.value)
        elif isinstance(st, ast.AnnAssign) and isinstance(st.target, ast.Name) and st.target.id == name and st.value is not None:
            out.append(st.value)
    return out


def module_rebinds(mod: Module, name: str) -> bool:
    """is the module-level `name` bound more than once, or written through (`NAME[k] = ..`, `global NAME`) anywhere in the module?"""
    n_store = 0
    for n in ast.walk(mod.tree):
        if isinstance(n, ast.Name) and n.id == name and isinstance(n.ctx, (ast.Store, ast.Del)):
            n_store += 1
        elif isinstance(n, ast.Subscript) and isinstance(n.value, ast.Name) and n.value.id == name and isinstance(n.ctx, (ast.Store, ast.Del)):
            return True
        elif isinstance(n, ast.Global) and name in n.names:
            return True
    return n_store != 1


def free_names(fn: ast.AST) -> set[str]:
    """names the function reads and does not bind itself (parameters included in the bound ones)"""
    bound = {a.arg for a in ast.walk(fn) if isinstance(a, ast.arg)}
    loads: set[str] = set()
    for n in own_nodes(fn, include_nested=True):
        if isinstance(n, ast.Name):
            if isinstance(n.ctx, ast.Load):
                loads.add(n.id)
            else:
                bound.add(n.id)
    return loads - bound


def mapping_rows(e: ast.AST) -> list[tuple[ast.AST, ast.AST]]:
    """(key, value) rows of an expression that writes a table out: a dict display, `dict(<rows>)`, or a list / tuple of pairs"""
    if isinstance(e, ast.Dict):
        return [(k, v) for k, v in zip(e.keys, e.values) if k is not None]
    if isinstance(e, ast.Call) and isinstance(e.func, ast.Name) and e.func.id == "dict":
        rows = [r for a in e.args for r in mapping_rows(a)]
        rows += [(ast.Constant(value=k.arg), k.value) for k in e.keywords if k.arg]
        return rows
    if isinstance(e, (ast.List, ast.Tuple)) and e.elts and all(isinstance(x, ast.Tuple) and len(x.elts) == 2 for x in e.elts):
        return [(x.elts[0], x.elts[1]) for x in e.elts]  # type: ignore[attr-defined]
    return []


def tables_of(mod: Module, fn: ast.FunctionDef) -> list[tuple[str, list[tuple[ast.AST, ast.AST]]]]:
    """the tables a function can look things up in: the ones it writes out itself, and the module-level constants it reads
    (a name the function does not bind, bound once at the top level of the module to a written-out table and never
    written through).  [(where, rows)]"""
    out: list[tuple[str, list[tuple[ast.AST, ast.AST]]]] = []
    inner: set[int] = set()
    for n in own_nodes(fn, include_nested=True):
        if id(n) in inner:
            continue
        rows = mapping_rows(n)
        if rows:
            out.append(("local", rows))
            inner.update(id(x) for x in ast.walk(n) if x is not n)
    for name in sorted(free_names(fn)):
        vals = module_defs(mod, name)
        if len(vals) == 1 and not module_rebinds(mod, name):
            rows = mapping_rows(vals[0])
            if rows:
                out.append((name, rows))
    return out


def method_applied_by(mod: Module, v: ast.AST) -> Optional[str]:
    """`lambda x, y: x.m(y)`, or the name of a module-level `def f(x, y): return x.m(y)`  ->  m: the method of its first
    argument that the callable applies"""
    params: list[str] = []
    body: Optional[ast.AST] = None
    if isinstance(v, ast.Lambda):
        params, body = [a.arg for a in v.args.args], v.body
    elif isinstance(v, ast.Name) and mod.has(v.id) and isinstance(mod.get(v.id), ast.FunctionDef):
        d = mod.get(v.id)
        sts = [s for s in d.body if not (isinstance(s, ast.Expr) and isinstance(s.value, ast.Constant))]  # type: ignore[attr-defined]
        if len(sts) == 1 and isinstance(sts[0], ast.Return):
            params, body = params_of(d), sts[0].value  # type: ignore[arg-type]
    if isinstance(body, ast.Call) and isinstance(body.func, ast.Attribute) and isinstance(body.func.value, ast.Name) and params and body.func.value.id == params[0]:
        return body.func.attr
    return None


def constants_behind(mod: Module, fn: ast.FunctionDef, e: ast.AST, depth: int = 3) -> set:
    """the constants the value of `e` is computed from: the ones written in it, in the defining expressions of the locals it
    mentions (transitively), and in module-level constants it names (a name the function does not bind, bound once at the
    top level of the module to a constant or a display of constants)"""
    out: set = set()
    free = free_names(fn)
    for x in closure_nodes(fn, e, depth):
        if isinstance(x, ast.Constant):
            try:
                out.add(x.value)
            except TypeError:
                pass
        elif isinstance(x, ast.Name) and x.id in free:
            vals = module_defs(mod, x.id)
            if len(vals) == 1 and not module_rebinds(mod, x.id):
                nodes = list(ast.walk(vals[0]))
                if all(isinstance(y, (ast.Constant, ast.Tuple, ast.List, ast.Set, ast.Load)) or (isinstance(y, ast.Call) and isinstance(y.func, ast.Name) and y.func.id in ("frozenset", "set", "tuple"))
                       or (isinstance(y, ast.Name) and y.id in ("frozenset", "set", "tuple")) for y in nodes):
                    out.update(y.value for y in nodes if isinstance(y, ast.Constant))
    return out


def try_bodies_around(mod: Module, fn: ast.AST, node: ast.AST) -> list[ast.Try]:
    """the try statements in whose BODY (not handler / else / finally) `node` stands, innermost first"""
    out: list[ast.Try] = []
    child = node
    for p in mod.parents(node):
        if p is fn:
            break
        if isinstance(p, ast.Try) and any(child is s for s in p.body):
            out.append(p)
        child = p
    return out


# --------------------------------------------------------------------------------------------------------------------
# second preserving round: the strings an expression can denote (tables iterated with `for`), iteration in all its
# spellings (for statement, comprehension clause, map), exhaustive consumption of a lazy iterable
# --------------------------------------------------------------------------------------------------------------------
_TABLE_WRAPPERS = {"tuple", "list", "dict", "frozenset", "set"}
_MUTATORS = {"append", "extend", "insert", "pop", "remove", "clear", "update", "setdefault", "popitem", "add", "discard", "sort", "reverse",
             "__setitem__", "__delitem__"}


def _written_through(tree: ast.AST, name: str) -> bool:
    """is the object bound to `name` changed in place anywhere under `tree` (item / attribute store, mutating method, augmented assignment)?"""
    for n in ast.walk(tree):
        if isinstance(n, (ast.Subscript, ast.Attribute)) and isinstance(n.ctx, (ast.Store, ast.Del)) and isinstance(n.value, ast.Name) and n.value.id == name:
            return True
        if isinstance(n, ast.Call) and isinstance(n.func, ast.Attribute) and n.func.attr in _MUTATORS and isinstance(n.func.value, ast.Name) and n.func.value.id == name:
            return True
        if isinstance(n, ast.AugAssign) and isinstance(n.target, ast.Name) and n.target.id == name:
            return True
        if isinstance(n, ast.Global) and name in n.names:
            return True
    return False


def scope_chain(mod: Module, node: ast.AST) -> list[ast.AST]:
    """the functions (and lambdas) enclosing `node`, innermost first"""
    return [p for p in mod.parents(node) if isinstance(p, (ast.FunctionDef, ast.AsyncFunctionDef, ast.Lambda))]


def _binds(fn: ast.AST, name: str) -> bool:
    if any(a.arg == name for a in ast.walk(fn.args) if isinstance(a, ast.arg)):  # type: ignore[attr-defined]
        return True
    return any(isinstance(n, ast.Name) and n.id == name and isinstance(n.ctx, (ast.Store, ast.Del)) for n in own_nodes(fn))


def binding_scope(mod: Module, at: ast.AST, name: str) -> Optional[ast.AST]:
    """the innermost function around `at` that binds `name` (None: a name of the module / a builtin)"""
    for fn in scope_chain(mod, at):
        if _binds(fn, name):
            return fn
    return None


def written_table(mod: Module, at: ast.AST, e: ast.AST, depth: int = 0) -> Optional[ast.AST]:
    """the written-out table (a dict / list / tuple / set display) the expression `e`, standing at `at`, denotes: the display
    itself, `tuple(<display>)` and the like, a local bound once to one and never changed in place, a module-level name bound
    once to one and never changed in place.  None: not a constant table."""
    if isinstance(e, (ast.Dict, ast.List, ast.Tuple, ast.Set)):
        return e
    if isinstance(e, ast.Call) and isinstance(e.func, ast.Name) and e.func.id in _TABLE_WRAPPERS and len(e.args) == 1 and not e.keywords:
        return written_table(mod, at, e.args[0], depth)
    if isinstance(e, ast.Name) and depth < 3:
        fn = binding_scope(mod, at, e.id)
        if fn is not None:
            if any(a.arg == e.id for a in ast.walk(fn.args) if isinstance(a, ast.arg)):  # type: ignore[attr-defined]
                return None
            stores = [n for n in own_nodes(fn) if isinstance(n, ast.Name) and n.id == e.id and isinstance(n.ctx, (ast.Store, ast.Del))]
            vals = local_defs(fn, e.id)
            if len(stores) == 1 and len(vals) == 1 and not _written_through(fn, e.id):
                return written_table(mod, stores[0], vals[0], depth + 1)
            return None
        vals = module_defs(mod, e.id)
        if len(vals) == 1 and not module_rebinds(mod, e.id) and not _written_through(mod.tree, e.id):
            return written_table(mod, mod.tree, vals[0], depth + 1)
    return None


def table_rows(mod: Module, at: ast.AST, it: ast.AST) -> Optional[list[ast.AST]]:
    """what an iteration over `it` yields, one expression per round, when `it` is a constant table: the elements of a
    sequence display, the keys of a dict, `<dict>.items()` / `.values()` / `.keys()`, `enumerate(<table>)` (pairs)"""
    if isinstance(it, ast.Call) and isinstance(it.func, ast.Attribute) and it.func.attr in ("items", "values", "keys") and not it.args:
        t = written_table(mod, at, it.func.value)
        if isinstance(t, ast.Dict) and all(k is not None for k in t.keys):
            if it.func.attr == "items":
                return [ast.Tuple(elts=[k, v], ctx=ast.Load()) for k, v in zip(t.keys, t.values)]  # type: ignore[list-item]
            return list(t.values) if it.func.attr == "values" else list(t.keys)  # type: ignore[arg-type]
        return None
    if isinstance(it, ast.Call) and isinstance(it.func, ast.Name) and it.func.id in ("enumerate", "reversed", "sorted", "iter") and len(it.args) >= 1:
        rows = table_rows(mod, at, it.args[0])
        if rows is None:
            return None
        if it.func.id == "enumerate":
            return [ast.Tuple(elts=[ast.Constant(value=i), r], ctx=ast.Load()) for i, r in enumerate(rows)]
        return rows
    t = written_table(mod, at, it)
    if isinstance(t, ast.Dict):
        return [k for k in t.keys] if all(k is not None for k in t.keys) else None  # type: ignore[misc]
    if isinstance(t, (ast.List, ast.Tuple, ast.Set)):
        return None if any(isinstance(x, ast.Starred) for x in t.elts) else list(t.elts)
    return None


def _component(target: ast.AST, row: ast.AST, name: str) -> Optional[ast.AST]:
    """the part of `row` that unpacking it into `target` binds to `name`"""
    if isinstance(target, ast.Name):
        return row if target.id == name else None
    if isinstance(target, (ast.Tuple, ast.List)) and isinstance(row, (ast.Tuple, ast.List)) and len(target.elts) == len(row.elts) \
            and not any(isinstance(x, ast.Starred) for x in list(target.elts) + list(row.elts)):
        for t, r in zip(target.elts, row.elts):
            if any(isinstance(x, ast.Name) and x.id == name for x in ast.walk(t)):
                return _component(t, r, name)
    return None


def str_values(mod: Module, e: ast.AST, at: Optional[ast.AST] = None, depth: int = 0) -> Optional[set[str]]:
    """the strings the expression `e` (standing at `at`, default: itself) can evaluate to, when that is decided by the text of
    the module alone: a constant; either arm of a conditional expression / `x or y`; a look-up in a constant table (any row);
    a name, through EVERY binding of it in its scope - plain assignment, unpacking of a display, target of a `for` / a
    comprehension clause over a constant table (the component of each row at the name's position).  None: not decided
    (a parameter, a call, an attribute ...)."""
    at = e if at is None else at
    if depth > 5:
        return None
    if isinstance(e, ast.Constant):
        return {e.value} if isinstance(e.value, str) else None
    if isinstance(e, ast.NamedExpr):
        return str_values(mod, e.value, at, depth + 1)
    if isinstance(e, ast.IfExp) or (isinstance(e, ast.BoolOp) and isinstance(e.op, ast.Or)):
        parts = [e.body, e.orelse] if isinstance(e, ast.IfExp) else list(e.values)
        out: set[str] = set()
        for p in parts:
            v = str_values(mod, p, at, depth + 1)
            if v is None:
                return None
            out |= v
        return out
    if isinstance(e, ast.Subscript) or (isinstance(e, ast.Call) and isinstance(e.func, ast.Attribute) and e.func.attr == "get" and 1 <= len(e.args) <= 2):
        base = e.value if isinstance(e, ast.Subscript) else e.func.value  # type: ignore[union-attr]
        t = written_table(mod, at, base)
        cells: list[ast.AST] = []
        if isinstance(t, ast.Dict):
            cells = list(t.values)
        elif isinstance(t, (ast.List, ast.Tuple)) and isinstance(e, ast.Subscript):
            ix = e.slice
            if isinstance(ix, ast.Constant) and isinstance(ix.value, int) and -len(t.elts) <= ix.value < len(t.elts):
                cells = [t.elts[ix.value]]
            else:
                cells = list(t.elts)
        else:
            return None
        if isinstance(e, ast.Call) and len(e.args) == 2:
            cells.append(e.args[1])
        out = set()
        for c in cells:
            v = str_values(mod, c, at, depth + 1)
            if v is None:
                return None
            out |= v
        return out or None
    if isinstance(e, ast.Name):
        fn = binding_scope(mod, at, e.id)
        if fn is None:
            vals = module_defs(mod, e.id)
            if len(vals) == 1 and not module_rebinds(mod, e.id):
                return str_values(mod, vals[0], mod.tree, depth + 1)
            return None
        if any(a.arg == e.id for a in ast.walk(fn.args) if isinstance(a, ast.arg)):  # type: ignore[attr-defined]
            return None
        out = set()
        n_bind = 0
        for n in own_nodes(fn):
            if not (isinstance(n, ast.Name) and n.id == e.id and isinstance(n.ctx, (ast.Store, ast.Del))):
                continue
            n_bind += 1
            # the construct that binds it: climb out of the unpacking pattern
            tgt: ast.AST = n
            p = mod.parent.get(id(tgt))
            while isinstance(p, (ast.Tuple, ast.List, ast.Starred)):
                tgt, p = p, mod.parent.get(id(p))
            comps: list[Optional[ast.AST]] = []
            if isinstance(p, ast.Assign) and any(tgt is t for t in p.targets):
                comps = [_component(tgt, p.value, e.id)]
            elif isinstance(p, ast.AnnAssign) and p.target is tgt:
                if p.value is None:
                    n_bind -= 1
                    continue
                comps = [p.value]
            elif isinstance(p, ast.NamedExpr) and p.target is tgt:
                comps = [p.value]
            elif isinstance(p, (ast.For, ast.comprehension)) and p.target is tgt:
                rows = table_rows(mod, p, p.iter)
                if rows is None:
                    return None
                comps = [_component(tgt, r, e.id) for r in rows]
            else:
                return None
            for c in comps:
                v = str_values(mod, c, p, depth + 1) if c is not None else None
                if v is None:
                    return None
                out |= v
        return out if n_bind and out else None
    return None


class IterSite:
    """one place where a function goes through an iterable element by element: a `for` statement, one clause of a
    comprehension / generator expression, or `map(f, <iterable>)`"""

    def __init__(self, kind: str, node: ast.AST, target: Optional[ast.AST], it: ast.AST, owner: ast.AST):
        self.kind, self.node, self.target, self.iter, self.owner = kind, node, target, it, owner

    @property
    def lazy(self) -> bool:
        return self.kind == "map" or (self.kind == "clause" and isinstance(self.owner, ast.GeneratorExp))

    def per_round(self) -> list[ast.AST]:
        """the code run once per element"""
        if self.kind == "for":
            return list(self.node.body)  # type: ignore[attr-defined]
        if self.kind == "clause":
            c = self.owner
            k = [i for i, g_ in enumerate(c.generators) if g_ is self.node][0]  # type: ignore[attr-defined]
            out: list[ast.AST] = list(self.node.ifs)  # type: ignore[attr-defined]
            for g_ in c.generators[k + 1:]:  # type: ignore[attr-defined]
                out += [g_.iter] + list(g_.ifs)
            out += [c.key, c.value] if isinstance(c, ast.DictComp) else [c.elt]  # type: ignore[attr-defined]
            return out
        return [self.owner.args[0]]  # type: ignore[attr-defined]   # map: the function applied

    def skips(self) -> list[ast.AST]:
        """what can end a round before its end, or the rounds before the last element: continue / break / return in the body of
        a for statement; an `if` of this or a later clause of a comprehension"""
        if self.kind == "for":
            return [n for s_ in self.node.body for n in ast.walk(s_) if isinstance(n, (ast.Continue, ast.Break, ast.Return))]  # type: ignore[attr-defined]
        if self.kind == "clause":
            c = self.owner
            k = [i for i, g_ in enumerate(c.generators) if g_ is self.node][0]  # type: ignore[attr-defined]
            return [t for g_ in c.generators[k:] for t in g_.ifs]  # type: ignore[attr-defined]
        return []


def iter_sites(fn: ast.AST) -> list[IterSite]:
    out: list[IterSite] = []
    for n in own_nodes(fn, include_nested=True):
        if isinstance(n, (ast.For, ast.AsyncFor)):
            out.append(IterSite("for", n, n.target, n.iter, n))
        elif isinstance(n, (ast.ListComp, ast.SetComp, ast.DictComp, ast.GeneratorExp)):
            for g_ in n.generators:
                out.append(IterSite("clause", g_, g_.target, g_.iter, n))
        elif isinstance(n, ast.Call) and isinstance(n.func, ast.Name) and n.func.id == "map" and len(n.args) == 2 and not n.keywords:
            out.append(IterSite("map", n, None, n.args[1], n))
    return out


_LAZY_PASS = {"chain", "chain.from_iterable", "itertools.chain", "itertools.chain.from_iterable", "iter"}
_EAGER = {"list", "tuple", "sorted", "set", "frozenset"}


def consumed_fully(mod: Module, fn: ast.AST, e: ast.AST, depth: int = 0) -> Optional[str]:
    """how the lazy iterable `e` (a generator expression, a map object) is certainly run to its end in `fn`: it is handed -
    directly or through iterators that pass every element on (chain, chain.from_iterable, iter, an enclosing generator
    expression without filter) - to a constructor that reads all of it, to `<x> += ...`, or to a `for` statement without
    break / return; or it is bound to a local whose only use is such a place.  None: not recognised (next(), islice, zip,
    a filter in between, handed to a caller ...)."""
    if depth > 6:
        return None
    p = mod.parent.get(id(e))
    if isinstance(p, ast.Starred):
        e, p = p, mod.parent.get(id(p))
        if not (isinstance(p, ast.Call) and any(a is e for a in p.args)):
            return None
        # f(*gen): the unpacking reads all of it; what f does with the elements is f's matter only for lazy pass-throughs
        return consumed_fully(mod, fn, p, depth + 1) if norm(p.func) in _LAZY_PASS else "unpacked into %s(...)" % norm(p.func)[:30]
    if isinstance(p, ast.Call) and any(a is e for a in p.args):
        name = norm(p.func)
        if name in _EAGER and p.args[0] is e:
            return "%s(...)" % name
        if name in _LAZY_PASS:
            return consumed_fully(mod, fn, p, depth + 1)
        return None
    if isinstance(p, ast.AugAssign) and p.value is e and isinstance(p.op, ast.Add):
        return "%s += ..." % norm(p.target)[:30]
    if isinstance(p, (ast.For, ast.AsyncFor)) and p.iter is e:
        if p.orelse or any(isinstance(x, (ast.Break, ast.Return)) for s_ in p.body for x in ast.walk(s_)):
            return None
        return "for statement without break"
    if isinstance(p, ast.comprehension) and p.iter is e:
        owner = mod.parent.get(id(p))
        if owner is None or any(g_.ifs for g_ in owner.generators):  # type: ignore[attr-defined]
            return None
        if isinstance(owner, ast.GeneratorExp):
            return consumed_fully(mod, fn, owner, depth + 1)
        return "comprehension"
    if isinstance(p, (ast.Assign, ast.AnnAssign)) and p.value is e:
        tg = p.targets if isinstance(p, ast.Assign) else [p.target]
        if len(tg) == 1 and isinstance(tg[0], ast.Name):
            nm = tg[0].id
            stores = [n for n in own_nodes(fn, include_nested=True) if isinstance(n, ast.Name) and n.id == nm and isinstance(n.ctx, (ast.Store, ast.Del))]
            uses = [n for n in own_nodes(fn, include_nested=True) if isinstance(n, ast.Name) and n.id == nm and isinstance(n.ctx, ast.Load)]
            if len(stores) == 1 and len(uses) == 1:
                return consumed_fully(mod, fn, uses[0], depth + 1)
    return None
