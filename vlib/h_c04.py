"""Helpers of check C04 (second layer of rules): grammar facts, def-use closures, path conditions.

Everything here is pure `ast`; nothing of the analysed library is imported or executed.
"""
from __future__ import annotations

import ast
from typing import Iterable, Iterator, Optional

from .cfg import CFG, reaching_defs
from .core import AnalysisError, Module, norm, own_nodes

# --------------------------------------------------------------------------------------------------------------------
# grammar: which Comp(...) of the pyparsing grammar can come out EMPTY (no Param set at all)?
# --------------------------------------------------------------------------------------------------------------------
_REPEAT_MAYBE = {"Optional", "ZeroOrMore"}          # may match nothing: no Param inside is guaranteed
_TRANSPARENT = {"OneOrMore", "Group", "Suppress", "Combine", "Dict", "DelimitedList", "delimitedList", "delimited_list"}


class Grammar:
    """Module-level pyparsing definitions of parser.py, by name (`X = expr`, `X <<= expr`)."""

    def __init__(self, par: Module):
        self.par = par
        self.defs: dict[str, list[ast.expr]] = {}
        for st in par.tree.body:
            if isinstance(st, ast.Assign) and len(st.targets) == 1 and isinstance(st.targets[0], ast.Name):
                self.defs.setdefault(st.targets[0].id, []).append(st.value)
            elif isinstance(st, ast.AugAssign) and isinstance(st.target, ast.Name) and isinstance(st.op, ast.LShift):
                self.defs.setdefault(st.target.id, []).append(st.value)
            elif isinstance(st, ast.Expr) and isinstance(st.value, ast.BinOp) and isinstance(st.value.op, ast.LShift) \
                    and isinstance(st.value.left, ast.Name):
                self.defs.setdefault(st.value.left.id, []).append(st.value.right)
        if len(self.defs) < 100:
            raise AnalysisError("parser.py: expected >= 100 grammar definitions, found %d" % len(self.defs))

    @staticmethod
    def _callee(e: ast.AST) -> Optional[str]:
        if isinstance(e, ast.Call):
            f = e.func
            return f.id if isinstance(f, ast.Name) else f.attr if isinstance(f, ast.Attribute) else None
        return None

    def sets_a_param(self, e: ast.AST, seen: frozenset = frozenset()) -> bool:
        """True when every successful match of the grammar expression `e` sets at least one Param of the ENCLOSING Comp."""
        c = self._callee(e)
        if c in ("Param", "ParamList"):
            return True
        if c == "Comp":
            return False  # a nested Comp keeps its Params to itself
        if c in _REPEAT_MAYBE:
            return False
        if c in _TRANSPARENT and e.args:  # type: ignore[attr-defined]
            return self.sets_a_param(e.args[0], seen)  # type: ignore[attr-defined]
        if isinstance(e, ast.Call) and isinstance(e.func, ast.Attribute):
            # x.setEvalFn(...), x.set_name(...), ... : decorations of x
            return self.sets_a_param(e.func.value, seen)
        if isinstance(e, ast.BinOp):
            if isinstance(e.op, (ast.Add, ast.Sub, ast.BitAnd)):      # sequence / each
                return self.sets_a_param(e.left, seen) or self.sets_a_param(e.right, seen)
            if isinstance(e.op, (ast.BitOr, ast.BitXor)):             # alternatives
                return self.sets_a_param(e.left, seen) and self.sets_a_param(e.right, seen)
            return False
        if isinstance(e, ast.Name):
            if e.id in seen or e.id not in self.defs:
                return False
            vals = [v for v in self.defs[e.id] if self._callee(v) != "Forward"]
            return bool(vals) and all(self.sets_a_param(v, seen | {e.id}) for v in vals)
        return False

    def comp_of(self, e: ast.AST, depth: int = 0) -> Optional[ast.Call]:
        """the Comp(...) call a Param value denotes (directly, decorated, or through a grammar name), else None"""
        if self._callee(e) == "Comp":
            return e  # type: ignore[return-value]
        if isinstance(e, ast.Call) and isinstance(e.func, ast.Attribute):
            return self.comp_of(e.func.value, depth)
        if isinstance(e, ast.Name) and depth < 4:
            vals = [v for v in self.defs.get(e.id, []) if self._callee(v) != "Forward"]
            if len(vals) == 1:
                return self.comp_of(vals[0], depth + 1)
        return None

    def comp_can_be_empty(self, comp: ast.Call) -> bool:
        return not (len(comp.args) >= 2 and self.sets_a_param(comp.args[1]))

    def params(self) -> Iterator[tuple[str, str, ast.Call]]:
        """(kind, name, call) for every Param("name", value) / ParamList("name", value) of the grammar"""
        for n in ast.walk(self.par.tree):
            c = self._callee(n)
            if c in ("Param", "ParamList") and n.args and isinstance(n.args[0], ast.Constant) and isinstance(n.args[0].value, str):  # type: ignore[attr-defined]
                yield c, n.args[0].value, n  # type: ignore[attr-defined,misc]

    def maybe_empty_comp_params(self) -> dict[str, str]:
        """Param name -> name of a Comp it can hold that can be empty.  Only single-valued Params (a ParamList holds a list)."""
        out: dict[str, str] = {}
        n_comp = 0
        for kind, name, call in self.params():
            if kind != "Param" or len(call.args) < 2:
                continue
            if len(call.args) >= 3 or any(k.arg == "isList" for k in call.keywords):
                continue
            comp = self.comp_of(call.args[1])
            if comp is None:
                continue
            n_comp += 1
            if self.comp_can_be_empty(comp):
                out[name] = comp.args[0].value if comp.args and isinstance(comp.args[0], ast.Constant) else "?"
        if n_comp < 5:
            raise AnalysisError("parser.py: expected >= 5 Comp-valued Params, found %d" % n_comp)
        return out


# --------------------------------------------------------------------------------------------------------------------
# def-use
# --------------------------------------------------------------------------------------------------------------------
def local_defs(fn: ast.AST, name: str) -> list[ast.expr]:
    """values bound to the local `name` by plain / annotated / walrus assignments of fn (not loop targets)"""
    out: list[ast.expr] = []
    for n in own_nodes(fn, include_nested=True):
        if isinstance(n, ast.Assign) and any(isinstance(t, ast.Name) and t.id == name for t in n.targets):
            out.append(n.value)
        elif isinstance(n, ast.AnnAssign) and isinstance(n.target, ast.Name) and n.target.id == name and n.value is not None:
            out.append(n.value)
        elif isinstance(n, ast.NamedExpr) and n.target.id == name:
            out.append(n.value)
    return out


def closure(fn: ast.AST, e: ast.AST, depth: int = 4) -> list[ast.AST]:
    """the expression `e` together with the defining expressions of every local name it mentions (transitively): the
    sub-expressions the value of e is computed from.  Independent of what the locals are called."""
    seen_names: set[str] = set()
    out: list[ast.AST] = []
    todo = [(e, 0)]
    while todo:
        x, d = todo.pop()
        out.append(x)
        if d >= depth:
            continue
        for n in ast.walk(x):
            if isinstance(n, ast.Name) and isinstance(n.ctx, ast.Load) and n.id not in seen_names:
                seen_names.add(n.id)
                for v in local_defs(fn, n.id):
                    if v is not x:
                        todo.append((v, d + 1))
    return out


def closure_nodes(fn: ast.AST, e: ast.AST, depth: int = 4) -> Iterator[ast.AST]:
    for x in closure(fn, e, depth):
        yield from ast.walk(x)


def params_of(fn: ast.FunctionDef) -> list[str]:
    return [a.arg for a in fn.args.posonlyargs + fn.args.args]


def enclosing_stmt(mod: Module, node: ast.AST) -> ast.stmt:
    if isinstance(node, ast.stmt):
        return node
    for p in mod.parents(node):
        if isinstance(p, ast.stmt):
            return p
    raise AnalysisError("no statement encloses %s" % norm(node)[:60])


def path_conditions(mod: Module, fn: ast.AST, node: ast.AST) -> dict[str, bool]:
    """truth of the `if` tests that enclose `node` in fn, for tests over names the function binds at most once
    (so the same text has the same value wherever it is evaluated)."""
    bound: dict[str, int] = {}
    for n in own_nodes(fn, include_nested=True):
        if isinstance(n, ast.Name) and isinstance(n.ctx, (ast.Store, ast.Del)):
            bound[n.id] = bound.get(n.id, 0) + 1
    out: dict[str, bool] = {}
    child = node
    for p in mod.parents(node):
        if p is fn:
            break
        if isinstance(p, ast.If) and child is not p.test:
            names = {x.id for x in ast.walk(p.test) if isinstance(x, ast.Name)}
            if all(bound.get(x, 0) <= 1 for x in names) and not any(isinstance(x, ast.Call) for x in ast.walk(p.test)):
                in_body = any(child is s for s in p.body)
                out[norm(p.test)] = in_body
        child = p
    return out


def reaching_values(mod: Module, fn: ast.FunctionDef, g: CFG, at: ast.AST, name: str) -> list[Optional[ast.AST]]:
    """the statements whose binding of `name` can be the last one before `at` is evaluated, on paths that are
    consistent with the `if` tests enclosing `at`.  None stands for `value at function entry` (parameter / unbound)."""
    target = g.node_of(at, mod)
    ids = reaching_defs(g, target, name, assume=path_conditions(mod, fn, at))
    return [None if i == g.entry else g.nodes[i].ast for i in sorted(ids)]


def bound_value(st: ast.AST, name: str) -> Optional[ast.expr]:
    """the expression a binding statement gives to `name` (None when it is not a plain assignment: loop target, with ...)"""
    if isinstance(st, ast.Assign) and any(isinstance(t, ast.Name) and t.id == name for t in st.targets):
        return st.value
    if isinstance(st, ast.AnnAssign) and isinstance(st.target, ast.Name) and st.target.id == name:
        return st.value
    return None


def handler_catches(h: ast.ExceptHandler, names: Iterable[str]) -> bool:
    if h.type is None:
        return True
    ts = h.type.elts if isinstance(h.type, ast.Tuple) else [h.type]
    return any(norm(t).split(".")[-1] in set(names) for t in ts)
