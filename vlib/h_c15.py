"""Helpers of checks/c15.py (static only): folding of string constants built at module level, the origin of a loop /
comprehension variable, types that are collections of graphs, probing of a (constant) regular expression."""
from __future__ import annotations

import ast
import itertools
import re
from typing import Iterator, Optional

from vlib.core import AnalysisError, Module, norm, own_nodes

# --------------------------------------------------------------------------------------------------------------------
# constant strings
# --------------------------------------------------------------------------------------------------------------------

_MAX_ALTERNATIVES = 16


def module_level_values(mod: Module, name: str) -> list[ast.expr]:
    """every value assigned to the global `name` outside of functions/classes (also under a module-level if/try)"""
    out: list[ast.expr] = []
    stack: list[ast.AST] = list(mod.tree.body)
    while stack:
        n = stack.pop()
        if isinstance(n, (ast.FunctionDef, ast.AsyncFunctionDef, ast.ClassDef, ast.Lambda)):
            continue
        if isinstance(n, ast.Assign) and any(isinstance(t, ast.Name) and t.id == name for t in n.targets):
            out.append(n.value)
        elif isinstance(n, ast.AnnAssign) and isinstance(n.target, ast.Name) and n.target.id == name and n.value is not None:
            out.append(n.value)
        stack.extend(ast.iter_child_nodes(n))
    return out


def fold_str(mod: Module, e: ast.AST, depth: int = 0) -> Optional[set[str]]:
    """the strings a module-level string expression can denote: constants, +, %, f-strings without conversions of
    non-constants, and global names assigned such expressions (an if/else at module level gives several alternatives).
    None = not a foldable constant."""
    if depth > 8:
        return None
    if isinstance(e, ast.Constant):
        return {e.value} if isinstance(e.value, str) else None
    if isinstance(e, ast.Name):
        vals = module_level_values(mod, e.id)
        if not vals:
            return None
        out: set[str] = set()
        for v in vals:
            f = fold_str(mod, v, depth + 1)
            if f is None:
                return None
            out |= f
        return out if len(out) <= _MAX_ALTERNATIVES else None
    if isinstance(e, ast.BinOp) and isinstance(e.op, ast.Add):
        a, b = fold_str(mod, e.left, depth + 1), fold_str(mod, e.right, depth + 1)
        if a is None or b is None:
            return None
        return {x + y for x in a for y in b}
    if isinstance(e, ast.BinOp) and isinstance(e.op, ast.Mod):
        left = fold_str(mod, e.left, depth + 1)
        if left is None:
            return None
        if isinstance(e.right, ast.Tuple):
            parts = [fold_str(mod, x, depth + 1) for x in e.right.elts]
            if any(p is None for p in parts):
                return None
            rights: list = [tuple(c) for c in itertools.product(*parts)]  # type: ignore[arg-type]
        elif isinstance(e.right, ast.Call) and norm(e.right.func) == "dict" and not e.right.args:
            keys = [k.arg for k in e.right.keywords]
            parts = [fold_str(mod, k.value, depth + 1) for k in e.right.keywords]
            if any(p is None for p in parts) or any(k is None for k in keys):
                return None
            rights = [dict(zip(keys, c)) for c in itertools.product(*parts)]  # type: ignore[arg-type]
        else:
            r = fold_str(mod, e.right, depth + 1)
            if r is None:
                return None
            rights = sorted(r)
        out = set()
        for l_ in left:
            for r_ in rights:
                try:
                    out.add(l_ % r_)
                except (TypeError, ValueError, KeyError):
                    return None
        return out if len(out) <= _MAX_ALTERNATIVES else None
    if isinstance(e, ast.JoinedStr):
        parts2: list[set[str]] = []
        for v in e.values:
            if isinstance(v, ast.FormattedValue):
                if v.conversion != -1 or v.format_spec is not None:
                    return None
                f = fold_str(mod, v.value, depth + 1)
            else:
                f = fold_str(mod, v, depth + 1)
            if f is None:
                return None
            parts2.append(f)
        return {"".join(c) for c in itertools.product(*parts2)}
    return None


_PLACEHOLDER = re.compile(r"%(?:\([^)]*\))?[-#0 +]*\d*(?:\.\d+)?[sdrifxXeEgGouc%]|\{[^{}]*\}")


def template_constants(fn: ast.AST, e: ast.AST, depth: int = 0) -> list[str]:
    """the literal pieces of text a string-building expression puts into its value (format placeholders removed):
    constant, `const % x`, `a + b`, f-string, `const.format(..)`, `sep.join(..)`, conditional expression, and local names
    bound to such expressions in `fn`.  [] = the value is not built from literal text here (it is data)."""
    if depth > 4:
        return []
    if isinstance(e, ast.Constant):
        return [_PLACEHOLDER.sub("", e.value)] if isinstance(e.value, str) and e.value else []
    if isinstance(e, ast.BinOp) and isinstance(e.op, ast.Mod):
        return template_constants(fn, e.left, depth + 1)
    if isinstance(e, ast.BinOp) and isinstance(e.op, ast.Add):
        return template_constants(fn, e.left, depth + 1) + template_constants(fn, e.right, depth + 1)
    if isinstance(e, ast.JoinedStr):
        return [v.value for v in e.values if isinstance(v, ast.Constant) and isinstance(v.value, str) and v.value]
    if isinstance(e, ast.Call) and isinstance(e.func, ast.Attribute) and e.func.attr in ("format", "join", "format_map"):
        return template_constants(fn, e.func.value, depth + 1)
    if isinstance(e, ast.Call) and isinstance(e.func, ast.Name) and e.func.id == "str" and len(e.args) == 1:
        return template_constants(fn, e.args[0], depth + 1)
    if isinstance(e, ast.IfExp):
        return template_constants(fn, e.body, depth + 1) + template_constants(fn, e.orelse, depth + 1)
    if isinstance(e, ast.Name):
        out: list[str] = []
        for n in own_nodes(fn, include_nested=True):
            if isinstance(n, ast.Assign) and any(isinstance(t, ast.Name) and t.id == e.id for t in n.targets):
                out += template_constants(fn, n.value, depth + 1)
            elif isinstance(n, ast.AnnAssign) and isinstance(n.target, ast.Name) and n.target.id == e.id and n.value is not None:
                out += template_constants(fn, n.value, depth + 1)
        return out
    return []


# --------------------------------------------------------------------------------------------------------------------
# regular expressions held in constants
# --------------------------------------------------------------------------------------------------------------------

_FLAGS = {"I": re.I, "IGNORECASE": re.I, "U": re.U, "UNICODE": re.U, "X": re.X, "VERBOSE": re.X, "S": re.S, "DOTALL": re.S,
          "M": re.M, "MULTILINE": re.M, "A": re.A, "ASCII": re.A}


def _flags_of(call: ast.Call, first_flag_pos: int) -> int:
    fl: list[ast.AST] = [k.value for k in call.keywords if k.arg == "flags"] + list(call.args[first_flag_pos:first_flag_pos + 1])
    val = 0
    for f in fl:
        for part in ast.walk(f):
            if isinstance(part, ast.Attribute):
                if part.attr not in _FLAGS:
                    raise AnalysisError("regular-expression flag not modelled: %s" % norm(f))
                val |= _FLAGS[part.attr]
            elif isinstance(part, ast.Constant) and isinstance(part.value, int):
                val |= part.value
    return val


def compiled_patterns(mod: Module, e: ast.AST) -> Optional[list["re.Pattern[str]"]]:
    """the compiled pattern object(s) an expression denotes: `re.compile(<const>)`, `Regex(<const>)` or a global bound to one"""
    if isinstance(e, ast.Name):
        out: list = []
        vals = module_level_values(mod, e.id)
        if not vals:
            return None
        for v in vals:
            c = compiled_patterns(mod, v)
            if c is None:
                return None
            out += c
        return out
    if isinstance(e, ast.Call) and e.args and norm(e.func) in ("re.compile", "compile", "Regex"):
        texts = fold_str(mod, e.args[0])
        if texts is None:
            return None
        flags = _flags_of(e, 1)
        try:
            return [re.compile(t, flags) for t in sorted(texts)]
        except re.error as ex:
            raise AnalysisError("constant regular expression does not compile: %s" % ex) from None
    return None


# --------------------------------------------------------------------------------------------------------------------
# def-use
# --------------------------------------------------------------------------------------------------------------------


def binders_of(fn: ast.AST, name: str) -> list[tuple[ast.AST, ast.expr]]:
    """(binding construct, iterated expression) of every `for <name> in E` statement / comprehension clause of fn whose
    target is exactly the name"""
    out: list[tuple[ast.AST, ast.expr]] = []
    for n in own_nodes(fn, include_nested=True):
        if isinstance(n, (ast.For, ast.AsyncFor)) and isinstance(n.target, ast.Name) and n.target.id == name:
            out.append((n, n.iter))
        elif isinstance(n, ast.comprehension) and isinstance(n.target, ast.Name) and n.target.id == name:
            out.append((n, n.iter))
    return out


def params_of(fn: ast.AST) -> list[str]:
    a = fn.args  # type: ignore[attr-defined]
    return [x.arg for x in a.posonlyargs + a.args]


def mentions(e: ast.AST, name: str) -> bool:
    return any(isinstance(x, ast.Name) and x.id == name for x in ast.walk(e))


def target_names(t: ast.AST) -> set[str]:
    return {x.id for x in ast.walk(t) if isinstance(x, ast.Name)}


# --------------------------------------------------------------------------------------------------------------------
# types
# --------------------------------------------------------------------------------------------------------------------

_COLLECTION = re.compile(r"^(?:builtins\.(?:list|set|frozenset|tuple)|list|set|tuple|typing\.(?:Iterable|Iterator|Generator|Sequence|Collection|List|Set)|"
                         r"collections\.abc\.(?:Iterable|Iterator|Generator|Sequence|Collection))\[(.*)\]$")


def collection_item_classes(text: str) -> list[str]:
    """dotted class names of the items of a `list[X]` / `Iterable[X | None]` / `Generator[X, None, None]` type text"""
    m = _COLLECTION.match(text.strip())
    if not m:
        return []
    inner = m.group(1)
    # the first type argument, at bracket depth 0
    depth, first = 0, ""
    for ch in inner:
        if ch == "[":
            depth += 1
        elif ch == "]":
            depth -= 1
        elif ch == "," and depth == 0:
            break
        first += ch
    return [p.strip() for p in first.split("|") if p.strip() and p.strip() != "None"]


def walk_stmts(stmts: list[ast.stmt]) -> Iterator[ast.AST]:
    for s in stmts:
        yield from ast.walk(s)
