"""Helpers of checks/c15.py (static only): folding of string constants built at module level, the origin of a loop /
comprehension variable, types that are collections of graphs, probing of a (constant) regular expression."""
from __future__ import annotations

import ast
import itertools
import re
from typing import Iterator, Optional

from vlib.core import AnalysisError, Module, norm, own_nodes

# --------------------------------------------------------------------------------------------------------------------
# constant strings
# --------------------------------------------------------------------------------------------------------------------

_MAX_ALTERNATIVES = 16


def module_level_values(mod: Module, name: str) -> list[ast.expr]:
    """every value assigned to the global `name` outside of functions/classes (also under a module-level if/try)"""
    out: list[ast.expr] = []
    stack: list[ast.AST] = list(mod.tree.body)
    while stack:
        n = stack.pop()
        if isinstance(n, (ast.FunctionDef, ast.AsyncFunctionDef, ast.ClassDef, ast.Lambda)):
            continue
        if isinstance(n, ast.Assign) and any(isinstance(t, ast.Name) and t.id == name for t in n.targets):
            out.append(n.value)
        elif isinstance(n, ast.AnnAssign) and isinstance(n.target, ast.Name) and n.target.id == name and n.value is not None:
            out.append(n.value)
        stack.extend(ast.iter_child_nodes(n))
    return out


def fold_str(mod: Module, e: ast.AST, depth: int = 0) -> Optional[set[str]]:
    """the strings a module-level string expression can denote: constants, +, %, f-strings without conversions of
    non-constants, and global names assigned such expressions (an if/else at module level gives several alternatives).
    None = not a foldable constant."""
    if depth > 8:
        return None
    if isinstance(e, ast.Constant):
        return {e.value} if isinstance(e.value, str) else None
    if isinstance(e, ast.Name):
        vals = module_level_values(mod, e.id)
        if not vals:
            return None
        out: set[str] = set()
        for v in vals:
            f = fold_str(mod, v, depth + 1)
            if f is None:
                return None
            out |= f
        return out if len(out) <= _MAX_ALTERNATIVES else None
    if isinstance(e, ast.BinOp) and isinstance(e.op, ast.Add):
        a, b = fold_str(mod, e.left, depth + 1), fold_str(mod, e.right, depth + 1)
        if a is None or b is None:
            return None
        return {x + y for x in a for y in b}
    if isinstance(e, ast.BinOp) and isinstance(e.op, ast.Mod):
        left = fold_str(mod, e.left, depth + 1)
        if left is None:
            return None
        if isinstance(e.right, ast.Tuple):
            parts = [fold_str(mod, x, depth + 1) for x in e.right.elts]
            if any(p is None for p in parts):
                return None
            rights: list = [tuple(c) for c in itertools.product(*parts)]  # type: ignore[arg-type]
        elif isinstance(e.right, ast.Call) and norm(e.right.func) == "dict" and not e.right.args:
            keys = [k.arg for k in e.right.keywords]
            parts = [fold_str(mod, k.value, depth + 1) for k in e.right.keywords]
            if any(p is None for p in parts) or any(k is None for k in keys):
                return None
            rights = [dict(zip(keys, c)) for c in itertools.product(*parts)]  # type: ignore[arg-type]
        else:
            r = fold_str(mod, e.right, depth + 1)
            if r is None:
                return None
            rights = sorted(r)
        out = set()
        for l_ in left:
            for r_ in rights:
                try:
                    out.add(l_ % r_)
                except (TypeError, ValueError, KeyError):
                    return None
        return out if len(out) <= _MAX_ALTERNATIVES else None
    if isinstance(e, ast.JoinedStr):
        parts2: list[set[str]] = []
        for v in e.values:
            if isinstance(v, ast.FormattedValue):
                if v.conversion != -1 or v.format_spec is not None:
                    return None
                f = fold_str(mod, v.value, depth + 1)
            else:
                f = fold_str(mod, v, depth + 1)
            if f is None:
                return None
            parts2.append(f)
        return {"".join(c) for c in itertools.product(*parts2)}
    return None


_PLACEHOLDER = re.compile(r"%(?:\([^)]*\))?[-#0 +]*\d*(?:\.\d+)?[sdrifxXeEgGouc%]|\{[^{}]*\}")


def template_constants(fn: ast.AST, e: ast.AST, depth: int = 0) -> list[str]:
    """the literal pieces of text a string-building expression puts into its value (format placeholders removed):
    constant, `const % x`, `a + b`, f-string, `const.format(..)`, `sep.join(..)`, conditional expression, and local names
    bound to such expressions in `fn`.  [] = the value is not built from literal text here (it is data)."""
    if depth > 4:
        return []
    if isinstance(e, ast.Constant):
        return [_PLACEHOLDER.sub("", e.value)] if isinstance(e.value, str) and e.value else []
    if isinstance(e, ast.BinOp) and isinstance(e.op, ast.Mod):
        return template_constants(fn, e.left, depth + 1)
    if isinstance(e, ast.BinOp) and isinstance(e.op, ast.Add):
        return template_constants(fn, e.left, depth + 1) + template_constants(fn, e.right, depth + 1)
    if isinstance(e, ast.JoinedStr):
        return [v.value for v in e.values if isinstance(v, ast.Constant) and isinstance(v.value, str) and v.value]
    if isinstance(e, ast.Call) and isinstance(e.func, ast.Attribute) and e.func.attr in ("format", "join", "format_map"):
        return template_constants(fn, e.func.value, depth + 1)
    if isinstance(e, ast.Call) and isinstance(e.func, ast.Name) and e.func.id == "str" and len(e.args) == 1:
        return template_constants(fn, e.args[0], depth + 1)
    if isinstance(e, ast.IfExp):
        return template_constants(fn, e.body, depth + 1) + template_constants(fn, e.orelse, depth + 1)
    if isinstance(e, ast.Name):
        out: list[str] = []
        for n in own_nodes(fn, include_nested=True):
            if isinstance(n, ast.Assign) and any(isinstance(t, ast.Name) and t.id == e.id for t in n.targets):
                out += template_constants(fn, n.value, depth + 1)
            elif isinstance(n, ast.AnnAssign) and isinstance(n.target, ast.Name) and n.target.id == e.id and n.value is not None:
                out += template_constants(fn, n.value, depth + 1)
        return out
    return []


# --------------------------------------------------------------------------------------------------------------------
# regular expressions held in constants
# --------------------------------------------------------------------------------------------------------------------

_FLAGS = {"I": re.I, "IGNORECASE": re.I, "U": re.U, "UNICODE": re.U, "X": re.X, "VERBOSE": re.X, "S": re.S, "DOTALL": re.S,
          "M": re.M, "MULTILINE": re.M, "A": re.A, "ASCII": re.A}


def _flags_of(call: ast.Call, first_flag_pos: int) -> int:
    fl: list[ast.AST] = [k.value for k in call.keywords if k.arg == "flags"] + list(call.args[first_flag_pos:first_flag_pos + 1])
    val = 0
    for f in fl:
        for part in ast.walk(f):
            if isinstance(part, ast.Attribute):
                if part.attr not in _FLAGS:
                    raise AnalysisError("regular-expression flag not modelled: %s" % norm(f))
                val |= _FLAGS[part.attr]
            elif isinstance(part, ast.Constant) and isinstance(part.value, int):
                val |= part.value
    return val


def compiled_patterns(mod: Module, e: ast.AST) -> Optional[list["re.Pattern[str]"]]:
    """the compiled pattern object(s) an expression denotes: `re.compile(<const>)`, `Regex(<const>)` or a global bound to one"""
    if isinstance(e, ast.Name):
        out: list = []
        vals = module_level_values(mod, e.id)
        if not vals:
            return None
        for v in vals:
            c = compiled_patterns(mod, v)
            if c is None:
                return None
            out += c
        return out
    if isinstance(e, ast.Call) and e.args and norm(e.func) in ("re.compile", "compile", "Regex"):
        texts = fold_str(mod, e.args[0])
        if texts is None:
            return None
        flags = _flags_of(e, 1)
        try:
            return [re.compile(t, flags) for t in sorted(texts)]
        except re.error as ex:
            raise AnalysisError("constant regular expression does not compile: %s" % ex) from None
    return None


# --------------------------------------------------------------------------------------------------------------------
# def-use
# --------------------------------------------------------------------------------------------------------------------


def binders_of(fn: ast.AST, name: str) -> list[tuple[ast.AST, ast.expr]]:
    """(binding construct, iterated expression) of every `for <name> in E` statement / comprehension clause of fn whose
    target is exactly the name"""
    out: list[tuple[ast.AST, ast.expr]] = []
    for n in own_nodes(fn, include_nested=True):
        if isinstance(n, (ast.For, ast.AsyncFor)) and isinstance(n.target, ast.Name) and n.target.id == name:
            out.append((n, n.iter))
        elif isinstance(n, ast.comprehension) and isinstance(n.target, ast.Name) and n.target.id == name:
            out.append((n, n.iter))
    return out


def params_of(fn: ast.AST) -> list[str]:
    a = fn.args  # type: ignore[attr-defined]
    return [x.arg for x in a.posonlyargs + a.args]


def mentions(e: ast.AST, name: str) -> bool:
    return any(isinstance(x, ast.Name) and x.id == name for x in ast.walk(e))


def target_names(t: ast.AST) -> set[str]:
    return {x.id for x in ast.walk(t) if isinstance(x, ast.Name)}


# --------------------------------------------------------------------------------------------------------------------
# types
# --------------------------------------------------------------------------------------------------------------------

_COLLECTION = re.compile(r"^(?:builtins\.(?:list|set|frozenset|tuple)|list|set|tuple|typing\.(?:Iterable|Iterator|Generator|Sequence|Collection|List|Set)|"
                         r"collections\.abc\.(?:Iterable|Iterator|Generator|Sequence|Collection))\[(.*)\]$")


def collection_item_classes(text: str) -> list[str]:
    """dotted class names of the items of a `list[X]` / `Iterable[X | None]` / `Generator[X, None, None]` type text"""
    m = _COLLECTION.match(text.strip())
    if not m:
        return []
    inner = m.group(1)
    # the first type argument, at bracket depth 0
    depth, first = 0, ""
    for ch in inner:
        if ch == "[":
            depth += 1
        elif ch == "]":
            depth -= 1
        elif ch == "," and depth == 0:
            break
        first += ch
    return [p.strip() for p in first.split("|") if p.strip() and p.strip() != "None"]


def walk_stmts(stmts: list[ast.stmt]) -> Iterator[ast.AST]:
    for s in stmts:
        yield from ast.walk(s)


# --------------------------------------------------------------------------------------------------------------------
# pyparsing grammar: which grammar names can be the LAST element a rule matches (rules m-o of checks/c15.py)
# --------------------------------------------------------------------------------------------------------------------
_G_MAYBE = {"Optional", "ZeroOrMore", "Opt"}                      # may match nothing
_G_NAMED = {"Param", "ParamList", "Comp"}                         # (name, element): the element is the second argument
_G_TERMINAL = {"Literal", "Keyword", "CaselessKeyword", "CaselessLiteral", "Regex", "Word", "Char", "Empty", "NoMatch",
               "QuotedString", "White", "CharsNotIn", "Forward", "LineEnd", "StringEnd", "LineStart", "StringStart"}


def _g_callee(e: ast.AST) -> Optional[str]:
    if isinstance(e, ast.Call) and isinstance(e.func, ast.Name):
        return e.func.id
    return None


def _g_operands(e: ast.Call) -> list[ast.expr]:
    """the grammar elements a combinator call wraps"""
    c = _g_callee(e)
    if c in _G_NAMED:
        return list(e.args[1:2])
    return [a for a in e.args if not isinstance(a, ast.Constant)]


def g_nullable(defs: dict[str, list[ast.expr]], e: ast.AST, seen: frozenset = frozenset()) -> bool:
    """can the grammar element match the empty string (as far as its shape tells)"""
    if isinstance(e, ast.Name):
        if e.id in seen or e.id not in defs:
            return False
        vals = [v for v in defs[e.id] if _g_callee(v) != "Forward"]
        return any(g_nullable(defs, v, seen | {e.id}) for v in vals)
    if isinstance(e, ast.UnaryOp):
        return True  # ~E: a look-ahead consumes nothing
    if isinstance(e, ast.BinOp):
        if isinstance(e.op, (ast.BitOr, ast.BitXor)):
            return g_nullable(defs, e.left, seen) or g_nullable(defs, e.right, seen)
        if isinstance(e.op, ast.Mult):
            return g_nullable(defs, e.left, seen)
        return g_nullable(defs, e.left, seen) and g_nullable(defs, e.right, seen)
    if isinstance(e, ast.Subscript):
        return True
    if isinstance(e, ast.Call):
        c = _g_callee(e)
        if c in _G_MAYBE:
            return True
        if c in _G_TERMINAL:
            return c == "Empty"
        if isinstance(e.func, ast.Attribute):
            return g_nullable(defs, e.func.value, seen)  # E.copy(), E.set_parse_action(..), ...: a decoration of E
        ops = _g_operands(e)
        return bool(ops) and all(g_nullable(defs, o, seen) for o in ops)
    return False


def g_tail_names(defs: dict[str, list[ast.expr]], e: ast.AST) -> set[str]:
    """the grammar NAMES that stand in tail position of the element e: what is matched by them ends where e ends
    (`A + B` -> tail of B, and of A when B can be empty; `A | B` -> both; a combinator / decoration -> its operand)"""
    if isinstance(e, ast.Name):
        return {e.id}
    if isinstance(e, ast.UnaryOp):
        return g_tail_names(defs, e.operand)
    if isinstance(e, ast.BinOp):
        if isinstance(e.op, (ast.BitOr, ast.BitXor, ast.BitAnd)):
            return g_tail_names(defs, e.left) | g_tail_names(defs, e.right)
        if isinstance(e.op, ast.Mult):
            return g_tail_names(defs, e.left)
        out = g_tail_names(defs, e.right)
        if g_nullable(defs, e.right):
            out |= g_tail_names(defs, e.left)
        return out
    if isinstance(e, ast.Subscript):
        return g_tail_names(defs, e.value)
    if isinstance(e, ast.Call):
        if _g_callee(e) in _G_TERMINAL:
            return set()
        if isinstance(e.func, ast.Attribute):
            return g_tail_names(defs, e.func.value)
        out = set()
        for o in _g_operands(e):
            out |= g_tail_names(defs, o)
        return out
    return set()


def g_tail_cycle(defs: dict[str, list[ast.expr]], name: str) -> Optional[list[str]]:
    """[name, ..., name] when the grammar rule `name` can end with (a rule that can end with ...) itself, else None"""
    prev: dict[str, str] = {}
    todo = [name]
    while todo:
        cur = todo.pop()
        for v in defs.get(cur, []):
            for t in sorted(g_tail_names(defs, v)):
                if t == name:
                    path = [cur]
                    while path[-1] != name:
                        path.append(prev[path[-1]])
                    return [name] + path[::-1][1:] + [name] if cur != name else [name, name]
                if t not in prev and t in defs:
                    prev[t] = cur
                    todo.append(t)
    return None


# --------------------------------------------------------------------------------------------------------------------
# classes: attributes a constructor sets, copies made by methods
# --------------------------------------------------------------------------------------------------------------------
def all_params(fn: ast.AST) -> list[str]:
    a = fn.args  # type: ignore[attr-defined]
    return [x.arg for x in a.posonlyargs + a.args + a.kwonlyargs] + [x.arg for x in (a.vararg, a.kwarg) if x is not None]


def self_attr_stores(fn: ast.AST, include_nested: bool = False) -> list[tuple[str, ast.stmt, Optional[ast.expr]]]:
    """(attribute, statement, value) of every `self.X = V` / `self.X: T = V` of a method (self = its first parameter)"""
    ps = params_of(fn)
    if not ps:
        return []
    me = ps[0]
    out: list[tuple[str, ast.stmt, Optional[ast.expr]]] = []
    for n in own_nodes(fn, include_nested=include_nested):
        tgs: list[ast.expr] = []
        val: Optional[ast.expr] = None
        if isinstance(n, ast.Assign):
            tgs, val = list(n.targets), n.value
        elif isinstance(n, ast.AnnAssign) and n.value is not None:
            tgs, val = [n.target], n.value
        elif isinstance(n, ast.AugAssign):
            tgs, val = [n.target], n.value
        for t in tgs:
            if isinstance(t, ast.Attribute) and isinstance(t.value, ast.Name) and t.value.id == me:
                out.append((t.attr, n, val))  # type: ignore[arg-type]
    return out


# --------------------------------------------------------------------------------------------------------------------
# where one list held by an algebra node goes (rule b of checks/c15.py): value flow from an entry function through the
# functions it can call - by name, through a local bound to a function, through a module-level table of functions
# --------------------------------------------------------------------------------------------------------------------
_NEW_CONTAINER = {"list", "sorted", "tuple", "set", "frozenset", "dict", "reversed", "deepcopy", "copy", "OrderedDict"}
_TABLE_BUILDERS = {"dict", "list", "tuple", "set", "frozenset", "OrderedDict", "MappingProxyType", "ChainMap"}
REORDER_IN_PLACE = {"sort", "reverse"}
LIST_MUTATORS = {"sort", "reverse", "append", "extend", "insert", "pop", "remove", "clear", "__setitem__", "__delitem__", "__iadd__"}
IN_PLACE_FUNCTIONS = {"shuffle", "heapify"}  # f(lst) that reorder their argument


def bindings_of(fn: ast.AST, name: str) -> list[tuple[str, ast.expr]]:
    """('is', E) for `name = E` / `name: T = E` / `(name := E)`; ('from', E) for every other way fn binds the name out of E
    (unpacking, loop / comprehension / with target, augmented assignment)"""
    out: list[tuple[str, ast.expr]] = []
    for n in own_nodes(fn, include_nested=True):
        if isinstance(n, ast.Assign):
            for t in n.targets:
                if isinstance(t, ast.Name) and t.id == name:
                    out.append(("is", n.value))
                elif not isinstance(t, ast.Name) and name in {x.id for x in ast.walk(t) if isinstance(x, ast.Name) and isinstance(x.ctx, ast.Store)}:
                    out.append(("from", n.value))
        elif isinstance(n, ast.AnnAssign) and n.value is not None and isinstance(n.target, ast.Name) and n.target.id == name:
            out.append(("is", n.value))
        elif isinstance(n, ast.NamedExpr) and n.target.id == name:
            out.append(("is", n.value))
        elif isinstance(n, ast.AugAssign) and isinstance(n.target, ast.Name) and n.target.id == name:
            out.append(("from", n.value))
        elif isinstance(n, (ast.For, ast.AsyncFor, ast.comprehension)) and name in {x.id for x in ast.walk(n.target) if isinstance(x, ast.Name)}:
            out.append(("from", n.iter))
        elif isinstance(n, (ast.With, ast.AsyncWith)):
            for it in n.items:
                if it.optional_vars is not None and name in {x.id for x in ast.walk(it.optional_vars) if isinstance(x, ast.Name)}:
                    out.append(("from", it.context_expr))
    return out


def is_local(fn: ast.AST, name: str) -> bool:
    return name in all_params(fn) or bool(bindings_of(fn, name)) or any(
        isinstance(n, (ast.FunctionDef, ast.AsyncFunctionDef)) and n.name == name for n in own_nodes(fn, include_nested=True))


def callables_of(repo, mod: Module, fn: ast.AST, e: ast.AST, resolve, depth: int = 0) -> list[tuple[Module, ast.FunctionDef]]:
    """the module-level functions that calling the expression e (in fn) can run - an over-approximation: every function named in
    the expressions the value of e is computed from (locals followed through all their bindings), and, where such an
    expression names a module-level table (dict / list / tuple literal or constructor call), every function the table holds"""
    out: list[tuple[Module, ast.FunctionDef]] = []
    seen_names: set[str] = set()
    todo: list[ast.AST] = [e]
    steps = 0
    while todo and steps < 200:
        steps += 1
        x = todo.pop()
        for n in ast.walk(x):
            if not (isinstance(n, ast.Name) and isinstance(n.ctx, ast.Load)) or n.id in seen_names:
                continue
            seen_names.add(n.id)
            if is_local(fn, n.id):
                todo += [v for _k, v in bindings_of(fn, n.id)]
                continue
            r = resolve(repo, mod, n.id)
            if r is not None:
                out.append(r)
                continue
            for v in module_level_values(mod, n.id):
                if isinstance(v, (ast.Dict, ast.List, ast.Tuple, ast.Set)) or isinstance(v, ast.Call) and norm(v.func).split(".")[-1] in _TABLE_BUILDERS:
                    for m in ast.walk(v):
                        if isinstance(m, ast.Name) and isinstance(m.ctx, ast.Load):
                            r2 = resolve(repo, mod, m.id)
                            if r2 is not None:
                                out.append(r2)
    uniq: list[tuple[Module, ast.FunctionDef]] = []
    for r in out:
        if not any(r[1] is u[1] for u in uniq):
            uniq.append(r)
    return uniq


def _bound_value(st: ast.AST, name: str) -> Optional[ast.expr]:
    """the expression a binding statement gives to the plain name (None: unpacking, loop target, augmented assignment, ...)"""
    if isinstance(st, ast.Assign) and any(isinstance(t, ast.Name) and t.id == name for t in st.targets):
        return st.value
    if isinstance(st, ast.AnnAssign) and isinstance(st.target, ast.Name) and st.target.id == name:
        return st.value
    if isinstance(st, ast.Expr) and isinstance(st.value, ast.NamedExpr) and st.value.target.id == name:
        return st.value.value
    return None


def _combine(classes: list[Optional[str]]) -> str:
    cs = [c for c in classes if c is not None]
    if any(c == "held" for c in cs):
        return "held"
    if cs and all(c == "new" for c in cs):
        return "new"
    return "unknown"


class HeldListFlow:
    """Follows the list an algebra node holds under one name (`node.<attr>`, `node["<attr>"]`, `node.get("<attr>")`,
    `getattr(node, "<attr>")`) from an entry function into the functions it is handed to, and classifies every expression as

        'held'    - may be that very list object (the read itself, a local or parameter it was bound to, a conditional of those,
                    what a module function returns when it returns such a value)
        'new'     - certainly a container created here (list()/sorted()/a slice/.copy()/a display/a comprehension/a + b ...)
        'unknown' - neither is certain

    `is_node_typed(module name, expr)` says whether the type checker knows expr to be an algebra node; a parameter that is
    passed a node at a call the flow went through counts as a node too (the callee need not be annotated)."""

    def __init__(self, repo, attr: str, is_node_typed, resolve):
        self.repo, self.attr, self.is_node_typed, self.resolve = repo, attr, is_node_typed, resolve
        # id(fn) -> [module, fn, names of node parameters, names of parameters that may be the held list]
        self.fns: dict[int, list] = {}
        self._cfgs: dict[int, object] = {}
        # functions whose returned value is being classified (a call chain that comes back to one of them adds nothing certain)
        self._returning: set[int] = set()  # functions whose returned value is being classified (the stack of _returned)

    # -- per function
    def is_node(self, mod: Module, fn: ast.AST, e: ast.AST, depth: int = 0) -> bool:
        if self.is_node_typed(mod.name, e):
            return True
        if isinstance(e, ast.NamedExpr):
            return self.is_node(mod, fn, e.value, depth)
        if isinstance(e, ast.Name) and depth < 4:
            st = self.fns.get(id(fn))
            if st is not None and e.id in st[2]:
                return True
            bs = bindings_of(fn, e.id)
            return bool(bs) and all(k == "is" and self.is_node(mod, fn, v, depth + 1) for k, v in bs)
        return False

    def is_read(self, mod: Module, fn: ast.AST, e: ast.AST) -> bool:
        """e reads the list from a node"""
        a = self.attr
        if isinstance(e, ast.Attribute) and e.attr == a and isinstance(e.ctx, ast.Load):
            return self.is_node(mod, fn, e.value)
        if isinstance(e, ast.Subscript) and isinstance(e.slice, ast.Constant) and e.slice.value == a and isinstance(e.ctx, ast.Load):
            return self.is_node(mod, fn, e.value)
        if isinstance(e, ast.Call) and isinstance(e.func, ast.Attribute) and e.func.attr in ("get", "__getitem__", "__getattr__") and e.args \
                and isinstance(e.args[0], ast.Constant) and e.args[0].value == a:
            return self.is_node(mod, fn, e.func.value)
        if isinstance(e, ast.Call) and isinstance(e.func, ast.Name) and e.func.id == "getattr" and len(e.args) >= 2 \
                and isinstance(e.args[1], ast.Constant) and e.args[1].value == a:
            return self.is_node(mod, fn, e.args[0])
        return False

    def classify(self, mod: Module, fn: ast.AST, e: ast.AST, depth: int = 0, seen: frozenset = frozenset()) -> Optional[str]:
        if depth > 8:
            return "unknown"
        if isinstance(e, ast.NamedExpr):
            return self.classify(mod, fn, e.value, depth + 1, seen)
        if self.is_read(mod, fn, e):
            return "held"
        if isinstance(e, ast.Name):
            if e.id in seen or id(e) in seen:
                return None  # a binding in terms of itself adds nothing
            st = self.fns.get(id(fn))
            held_param = st is not None and e.id in st[3]
            at_entry = "held" if held_param else "unknown"
            reaching = self._reaching(mod, fn, e)
            if reaching is not None:
                # the bindings that can be the last one before this use (a parameter that was re-bound to a copy is the copy)
                cs: list[Optional[str]] = []
                for b in reaching:
                    if b is None:
                        cs.append(at_entry)
                    else:
                        v = _bound_value(b, e.id)
                        cs.append(self.classify(mod, fn, v, depth + 1, seen | {id(e)}) if v is not None else "unknown")
                return _combine(cs)
            bs = bindings_of(fn, e.id)
            if not bs:
                return at_entry
            cs = [self.classify(mod, fn, v, depth + 1, seen | {e.id}) if k == "is" else "unknown" for k, v in bs]
            if e.id in all_params(fn):
                cs.append(at_entry)
            return _combine(cs)
        if isinstance(e, ast.IfExp):
            return _combine([self.classify(mod, fn, e.body, depth + 1, seen), self.classify(mod, fn, e.orelse, depth + 1, seen)])
        if isinstance(e, ast.BoolOp):
            return _combine([self.classify(mod, fn, v, depth + 1, seen) for v in e.values])
        if isinstance(e, (ast.List, ast.ListComp, ast.Tuple, ast.Set, ast.SetComp, ast.Dict, ast.DictComp, ast.GeneratorExp, ast.Constant, ast.JoinedStr)):
            return "new"
        if isinstance(e, ast.BinOp) and isinstance(e.op, (ast.Add, ast.Mult)):
            return "new"
        if isinstance(e, ast.Subscript) and isinstance(e.slice, ast.Slice):
            return "new"
        if isinstance(e, ast.Call):
            tail = norm(e.func).split(".")[-1]
            if isinstance(e.func, ast.Name) and not is_local(fn, e.func.id):
                r = self.resolve(self.repo, mod, e.func.id)
                if r is not None:
                    return self._returned(r[0], r[1], mod, fn, e, depth, seen)
                if e.func.id in _NEW_CONTAINER:
                    return "new"
                if e.func.id == "cast" and len(e.args) == 2:
                    return self.classify(mod, fn, e.args[1], depth + 1, seen)
            if isinstance(e.func, ast.Attribute) and tail in ("copy", "deepcopy"):
                return "new"
            if isinstance(e.func, ast.Attribute) and tail == "cast" and len(e.args) == 2:
                return self.classify(mod, fn, e.args[1], depth + 1, seen)
        return "unknown"

    def _reaching(self, mod: Module, fn: ast.AST, use: ast.Name) -> Optional[list]:
        """the binding statements of the name that can be the last one executed before `use` is evaluated (None in the list = the
        value at function entry); None when that cannot be told from the control-flow graph of fn (the use lies in a nested
        function / lambda / comprehension that binds the name, or is not a node of fn): the caller then takes all bindings"""
        from .cfg import CFG, reaching_defs

        inside = False
        for p in mod.parents(use):
            if p is fn:
                inside = True
                break
            if isinstance(p, (ast.FunctionDef, ast.AsyncFunctionDef, ast.Lambda, ast.ClassDef)):
                return None
            if isinstance(p, (ast.ListComp, ast.SetComp, ast.DictComp, ast.GeneratorExp)) and any(
                    use.id in {x.id for x in ast.walk(g.target) if isinstance(x, ast.Name)} for g in p.generators):
                return None
        if not inside:
            return None
        try:
            g = self._cfgs.get(id(fn))
            if g is None:
                g = self._cfgs[id(fn)] = CFG(fn)
            ids = reaching_defs(g, g.node_of(use, mod), use.id)
            return [None if i == g.entry else g.nodes[i].ast for i in sorted(ids)]
        except Exception:
            return None

    def bind_args(self, mod: Module, fn: ast.AST, call: ast.Call, g: ast.FunctionDef, depth: int = 0) -> tuple[set[str], set[str]]:
        """(parameters of g that receive a node, parameters of g that may receive the held list) at this call; `depth` is the
        budget already used by the classification this is part of (it does not start again at a call boundary)"""
        ps = params_of(g)
        pairs: list[tuple[str, ast.expr]] = []
        for i, a in enumerate(call.args):
            if isinstance(a, ast.Starred):
                break
            if i < len(ps):
                pairs.append((ps[i], a))
        names = set(all_params(g))
        for k in call.keywords:
            if k.arg is not None and k.arg in names:
                pairs.append((k.arg, k.value))
        nodes = {p for p, a in pairs if self.is_node(mod, fn, a)}
        held = {p for p, a in pairs if self.classify(mod, fn, a, depth + 1) == "held"}
        return nodes, held

    def _returned(self, gm: Module, g: ast.FunctionDef, mod: Module, fn: ast.AST, call: ast.Call, depth: int, seen: frozenset) -> Optional[str]:
        """what a call of the module function g gives back.  A function whose result is being worked out already (direct or
        mutual recursion: evalPart -> evalX -> evalPart) adds nothing to it: what the recursion can give back is what the
        other returns give back - None, which _combine() leaves out"""
        if any(isinstance(n, (ast.Yield, ast.YieldFrom)) for n in own_nodes(g)):
            return "new"  # a generator object
        if g is fn or id(g) in self._returning:
            return None
        if depth > 6:
            return "unknown"
        self._returning.add(id(g))
        try:
            nodes, held = self.bind_args(mod, fn, call, g, depth)
            if nodes or held:
                self.enter(gm, g, nodes, held)
            rets = [n.value for n in own_nodes(g) if isinstance(n, ast.Return) and n.value is not None]
            if not rets:
                return "new"
            return _combine([self.classify(gm, g, r, depth + 1, frozenset()) for r in rets])
        finally:
            self._returning.discard(id(g))

    # -- across functions
    def enter(self, mod: Module, fn: ast.FunctionDef, nodes: set[str], held: set[str]) -> bool:
        st = self.fns.get(id(fn))
        if st is None:
            self.fns[id(fn)] = [mod, fn, set(nodes), set(held)]
            return True
        grown = not (nodes <= st[2] and held <= st[3])
        st[2] |= nodes
        st[3] |= held
        return grown

    def run(self, mod: Module, entry: ast.FunctionDef) -> None:
        self.enter(mod, entry, set(), set())
        dirty = {id(entry)}
        rounds = 0
        while dirty:
            rounds += 1
            if rounds > 2000:
                raise AnalysisError("value flow of .%s from %s does not settle" % (self.attr, entry.name))
            m, f, _n, _h = self.fns[dirty.pop()]
            before = {k: (frozenset(v[2]), frozenset(v[3])) for k, v in self.fns.items()}
            for c in own_nodes(f, include_nested=True):
                if not isinstance(c, ast.Call):
                    continue
                for gm, g in callables_of(self.repo, m, f, c.func, self.resolve):
                    nodes, held = self.bind_args(m, f, c, g)
                    if nodes or held:
                        self.enter(gm, g, nodes, held)
            # entered for the first time (also by classify(), for the result of a call), or entered with more than before
            for k, v in self.fns.items():
                if k not in before or before[k] != (frozenset(v[2]), frozenset(v[3])):
                    dirty.add(k)

    def handles_list(self, fn: ast.AST) -> bool:
        """the held list occurs in fn: it is read from a node there, or arrives in a parameter"""
        st = self.fns.get(id(fn))
        if st is None:
            return False
        return bool(st[3]) or any(self.is_read(st[0], fn, n) for n in own_nodes(fn, include_nested=True))

    def computed_from_list(self, mod: Module, fn: ast.AST, e: ast.AST) -> bool:
        """some expression the value of e is computed from is the held list"""
        seen: set[str] = set()
        todo: list[ast.AST] = [e]
        while todo:
            x = todo.pop()
            for n in ast.walk(x):
                if isinstance(n, ast.expr) and not isinstance(n, ast.Name) and self.is_read(mod, fn, n):
                    return True
                if isinstance(n, ast.Name) and isinstance(n.ctx, ast.Load) and n.id not in seen:
                    seen.add(n.id)
                    st = self.fns.get(id(fn))
                    if st is not None and n.id in st[3]:
                        return True
                    todo += [v for _k, v in bindings_of(fn, n.id)]
        return False


# --------------------------------------------------------------------------------------------------------------------
# control flow under an assumption (rule c of checks/c15.py): what runs when a given test is known to hold
# --------------------------------------------------------------------------------------------------------------------
def tri_eval(e: ast.expr, atom) -> Optional[bool]:
    """Kleene value of a boolean expression; atom(sub-expression) -> True / False / None (unknown)"""
    v = atom(e)
    if v is not None:
        return v
    if isinstance(e, ast.UnaryOp) and isinstance(e.op, ast.Not):
        v = tri_eval(e.operand, atom)
        return None if v is None else (not v)
    if isinstance(e, ast.BoolOp):
        vals = [tri_eval(x, atom) for x in e.values]
        if isinstance(e.op, ast.And):
            if any(x is False for x in vals):
                return False
            return True if all(x is True for x in vals) else None
        if any(x is True for x in vals):
            return True
        return False if all(x is False for x in vals) else None
    if isinstance(e, ast.NamedExpr):
        return tri_eval(e.value, atom)
    return None


def _head_parts(n: ast.AST) -> list[ast.AST]:
    """the part of a compound statement that its control-flow node evaluates (the whole statement for a simple one)"""
    if isinstance(n, (ast.If, ast.While)):
        return [n.test]
    if isinstance(n, (ast.For, ast.AsyncFor)):
        return [n.iter, n.target]
    if isinstance(n, (ast.With, ast.AsyncWith)):
        return list(n.items)
    if isinstance(n, ast.Match):
        return [n.subject]
    if isinstance(n, (ast.FunctionDef, ast.AsyncFunctionDef, ast.ClassDef, ast.ExceptHandler)):
        return []
    return [n]


def live_nodes(part: ast.AST, atom) -> Iterator[ast.AST]:
    """the sub-expressions of `part` that can be evaluated under the assumption: the arm of a conditional expression (and the
    tail of an and / or) that the assumption rules out is left out; nested functions / lambdas are not entered"""
    stack: list[ast.AST] = [part]
    while stack:
        n = stack.pop()
        yield n
        if isinstance(n, (ast.FunctionDef, ast.AsyncFunctionDef, ast.ClassDef, ast.Lambda)) and n is not part:
            continue
        if isinstance(n, ast.IfExp):
            v = tri_eval(n.test, atom)
            stack.append(n.test)
            if v is not False:
                stack.append(n.body)
            if v is not True:
                stack.append(n.orelse)
            continue
        if isinstance(n, ast.BoolOp):
            for x in n.values:
                stack.append(x)
                v = tri_eval(x, atom)
                if v is not None and v == isinstance(n.op, ast.Or):
                    break  # short circuit: the rest is not evaluated
            continue
        stack.extend(ast.iter_child_nodes(n))


def executed_assuming(fn: ast.AST, atom) -> list[ast.AST]:
    """every expression / simple statement of fn (not of nested functions) that control can reach from the entry in a state in which
    atom() gives the truth of the conditions it knows: the branch of an if / while / conditional expression that the
    assumption rules out is not taken (exception edges stay)"""
    from .cfg import CFG

    g = CFG(fn)
    seen: set[int] = set()
    stack = [g.entry]
    out: list[ast.AST] = []
    while stack:
        n = stack.pop()
        if n in seen:
            continue
        seen.add(n)
        node = g.nodes[n]
        verdict = None
        if node.ast is not None:
            for part in _head_parts(node.ast):
                out.extend(live_nodes(part, atom))
            if node.kind == "test":
                verdict = tri_eval(node.ast.test, atom)  # type: ignore[attr-defined]
        for m in g.succ[n]:
            lab = g.edge_label.get((n, m), "")
            # out of a test: "true" = into the body; "false" / no label = the else branch / falling through to what follows
            if verdict is not None and lab != "exc" and (lab == "true") != verdict:
                continue
            stack.append(m)
    return out


# --------------------------------------------------------------------------------------------------------------------
# state a method leaves on its object (rule a of checks/c15.py, Expr.eval): writes to self - made by the method itself, by the
# methods it calls through self, by a context manager of self that it enters - and whether a `finally` takes them back
# --------------------------------------------------------------------------------------------------------------------
_SELF_MUTATORS = {"append", "extend", "pop", "update", "clear", "insert", "remove", "setdefault", "popitem", "add", "discard",
                  "move_to_end", "__setitem__", "__delitem__", "__setattr__", "__delattr__", "sort", "reverse"}


def class_methods_with_bases(mod: Module, cname: str, depth: int = 0) -> dict[str, ast.FunctionDef]:
    """name -> method for the class and, behind it, its base classes defined in the same module (the first definition wins)"""
    if not mod.has(cname) or depth > 6:
        return {}
    out = dict(mod.methods(cname))
    for b in mod.cls(cname).bases:
        if isinstance(b, ast.Name) and b.id != cname:
            for k, v in class_methods_with_bases(mod, b.id, depth + 1).items():
                out.setdefault(k, v)
    return out


def _rooted_at(e: ast.AST, me: str) -> bool:
    while isinstance(e, (ast.Attribute, ast.Subscript)):
        e = e.value
    return isinstance(e, ast.Name) and e.id == me


def _is_none(e: Optional[ast.AST]) -> bool:
    return isinstance(e, ast.Constant) and e.value is None


class SelfState:
    """For one method `entry` of a class: the writes to the object that a call of it performs and does not certainly take back.

    A *write* is `self.X = v` / `self.X: T = v` / `self.X op= v` with v not the constant None (attribute X), and anything else that
    changes the object: a store or del through a subscript / deeper attribute rooted in self, del self.X, setattr(self, ..), a
    mutating method called on self or on something rooted in it (attribute None: cannot be taken back).  `self.X = None` is the
    *reset* of X.  A write of X is taken back when it lies in the body / a handler / the else of a `try` whose `finally` resets X
    (directly or through a method of self that does), or directly in front of such a `try` with nothing but other plain attribute
    stores in between - then the reset runs on every way out, an exception included.  Writes of a method called through self
    (`self.h(..)`, also as the context manager of a `with`: a generator-based context manager runs its `finally` around a
    `yield` when the block is left, by an exception as well) that the callee does not take back itself count at the call, where
    an enclosing `try .. finally` of the caller may take them back."""

    def __init__(self, mod: Module, cname: str):
        self.mod = mod
        self.methods = class_methods_with_bases(mod, cname)
        self.n_writes = 0
        self.visited: list[ast.FunctionDef] = []

    # -- one function
    def writes(self, fn: ast.FunctionDef) -> list[tuple[Optional[str], ast.stmt, ast.AST]]:
        ps = params_of(fn)
        if not ps:
            return []
        me = ps[0]
        out: list[tuple[Optional[str], ast.stmt, ast.AST]] = []
        for n in own_nodes(fn):
            tgs: list[ast.expr] = []
            val: Optional[ast.AST] = None
            if isinstance(n, ast.Assign):
                tgs, val = [x for t in n.targets for x in (t.elts if isinstance(t, (ast.Tuple, ast.List)) else [t])], n.value
            elif isinstance(n, ast.AnnAssign) and n.value is not None:
                tgs, val = [n.target], n.value
            elif isinstance(n, ast.AugAssign):
                tgs, val = [n.target], n
            elif isinstance(n, ast.Delete):
                tgs, val = list(n.targets), n
            elif isinstance(n, (ast.For, ast.AsyncFor)):
                tgs, val = [x for x in ast.walk(n.target) if isinstance(x, (ast.Attribute, ast.Subscript))], n
            for t in tgs:
                if isinstance(t, ast.Starred):
                    t = t.value
                if not (isinstance(t, (ast.Attribute, ast.Subscript)) and _rooted_at(t, me)):
                    continue
                plain = isinstance(t, ast.Attribute) and isinstance(t.value, ast.Name) and not isinstance(n, (ast.Delete, ast.For, ast.AsyncFor))
                if plain and _is_none(val) and not isinstance(n, ast.AugAssign):
                    continue  # a reset
                out.append((t.attr if plain else None, n, t))  # type: ignore[union-attr, arg-type]
            if isinstance(n, ast.Call):
                st = self._stmt_of(n, fn)
                if isinstance(n.func, ast.Attribute) and n.func.attr in _SELF_MUTATORS and _rooted_at(n.func.value, me) and st is not None:
                    out.append((None, st, n))
                elif isinstance(n.func, ast.Name) and n.func.id in ("setattr", "delattr") and n.args and _rooted_at(n.args[0], me) and st is not None:
                    out.append((None, st, n))
        return out

    def _stmt_of(self, node: ast.AST, fn: ast.AST) -> Optional[ast.stmt]:
        if isinstance(node, ast.stmt):
            return node
        for p in self.mod.parents(node):
            if p is fn:
                return None
            if isinstance(p, ast.stmt):
                return p
        return None

    def _resets(self, stmts: list[ast.stmt], me: str, attr: str, depth: int = 0) -> bool:
        for s in stmts:
            if isinstance(s, ast.Assign) and _is_none(s.value) and any(
                    isinstance(t, ast.Attribute) and t.attr == attr and isinstance(t.value, ast.Name) and t.value.id == me for t in s.targets):
                return True
            if isinstance(s, ast.AnnAssign) and _is_none(s.value) and isinstance(s.target, ast.Attribute) and s.target.attr == attr \
                    and isinstance(s.target.value, ast.Name) and s.target.value.id == me:
                return True
            if isinstance(s, ast.Expr) and isinstance(s.value, ast.Call) and depth < 2:
                h = self._callee(s.value, me)
                if h is not None and not any(isinstance(x, (ast.Yield, ast.YieldFrom)) for x in own_nodes(h)) and params_of(h) \
                        and self._resets(h.body, params_of(h)[0], attr, depth + 1):
                    return True
        return False

    def _callee(self, c: ast.Call, me: str) -> Optional[ast.FunctionDef]:
        if isinstance(c.func, ast.Attribute) and isinstance(c.func.value, ast.Name) and c.func.value.id == me:
            return self.methods.get(c.func.attr)
        return None

    def taken_back(self, fn: ast.FunctionDef, st: ast.stmt, attr: Optional[str], in_front_counts: bool = True) -> bool:
        """the statement st of fn (a write of attribute attr, or a call that performs one) is covered by a finally that resets attr;
        in_front_counts: standing directly in front of the try is as good as standing in it (nothing can happen in between)"""
        if attr is None:
            return False
        me = params_of(fn)[0]
        child: ast.AST = st
        for p in [x for x in self.mod.parents(st)]:
            if isinstance(p, (ast.Try, getattr(ast, "TryStar", ast.Try))) and p.finalbody and not any(child is s for s in p.finalbody):
                if self._resets(p.finalbody, me, attr):
                    return True
            # directly in front of such a try, in the same block
            for fld in ("body", "orelse", "finalbody"):
                blk = getattr(p, fld, None)
                if isinstance(blk, list) and any(child is s for s in blk):
                    i = [k for k, s in enumerate(blk) if s is child][0]
                    for nxt in blk[i + 1:]:
                        if isinstance(nxt, (ast.Try, getattr(ast, "TryStar", ast.Try))) and nxt.finalbody and self._resets(nxt.finalbody, me, attr):
                            if child is st and in_front_counts:
                                return True
                            break
                        if isinstance(nxt, ast.Pass) or isinstance(nxt, (ast.Assign, ast.AnnAssign)) and isinstance(getattr(nxt, "value", None), (ast.Name, ast.Constant)) \
                                and all(isinstance(t, ast.Attribute) and isinstance(t.value, ast.Name) and t.value.id == me
                                        for t in (nxt.targets if isinstance(nxt, ast.Assign) else [nxt.target])):
                            continue
                        break
            if p is fn:
                break
            child = p
        return False

    # -- through the calls
    def left_behind(self, fn: ast.FunctionDef, depth: int = 0, stack: tuple = ()) -> list[tuple[Optional[str], ast.AST, ast.FunctionDef]]:
        """(attribute | None, construct, function it is in) of every write that a call of fn performs and does not take back"""
        if not params_of(fn):
            return []
        me = params_of(fn)[0]
        if not any(fn is v for v in self.visited):
            self.visited.append(fn)
        out: list[tuple[Optional[str], ast.AST, ast.FunctionDef]] = []
        for attr, st, what in self.writes(fn):
            self.n_writes += 1
            if not self.taken_back(fn, st, attr):
                out.append((attr, what, fn))
        if depth >= 4:
            return out
        for c in own_nodes(fn):
            if not isinstance(c, ast.Call):
                continue
            h = self._callee(c, me)
            if h is None or h is fn or any(h is s for s in stack):
                continue
            st = self._stmt_of(c, fn)
            for attr, what, where in self.left_behind(h, depth + 1, stack + (fn,)):
                # the call is as good as the write itself only where the write is the last thing the callee does (a plain call
                # statement; not the entry of a `with`, whose block runs - and may raise - before the next statement does)
                last = where is h and isinstance(st, ast.Expr) and st.value is c and bool(h.body) and (
                    what is h.body[-1] or self._stmt_of(what, h) is h.body[-1])
                if st is not None and self.taken_back(fn, st, attr, in_front_counts=last):
                    continue
                out.append((attr, what, where))
        return out
