"""Helpers of checks/c11.py (static only: `ast` + the pre-extracted mypy facts; nothing of the library is executed).

* member loops of aggregating Graph classes, the places where a pattern is evaluated on ONE member, and whether the loop is
  restricted to selected members (three-valued reading of the conditions between the loop and the evaluation)
* positions in a pyparsing expression: the elements an optional part can START with, and the negative lookaheads that guard such
  an element at the same input position
* Evaluator: a public entry point (X.eval) with the private callables it reaches through the call graph - closures nested in it,
  private methods called through the receiver, private module functions - so that "the helpers of X.eval" does not depend on where
  the maintainer put them; the end parameters of a helper by value flow over the calls
* possible_values: the expressions a yielded / returned value can stand for (names -> what is assigned, helper calls -> what is returned)
* dispatch_arms: the arms of a dispatch on a key, whether written as an if-chain `K == "name"` or as a module-level table looked up with K
"""
from __future__ import annotations

import ast
from typing import Callable, Iterator, Optional

from vlib.core import Module, norm

# --------------------------------------------------------------------------------------------------------------------
# loops over the member graphs of an aggregate
# --------------------------------------------------------------------------------------------------------------------


def _mentions(e: ast.AST, names: set[str]) -> bool:
    return any(isinstance(n, ast.Name) and n.id in names for n in ast.walk(e))


class MemberLoop:
    """one iteration construct `for M in <something of self>` / `... for M in <something of self>` whose variable is a Graph"""

    def __init__(self, node: ast.AST, var: str, scope: list[ast.AST], conds: list[ast.expr], cond_vars: set[str]):
        self.node = node  # ast.For or ast.comprehension
        self.var = var
        self.scope = scope  # the nodes executed once per member
        self.conds = conds  # filters every member passes before the scope runs
        self.cond_vars = cond_vars  # the names the member goes by inside those filters


def member_loops(mod: Module, fn: ast.AST, is_graph: Callable[[ast.AST], bool]) -> Iterator[MemberLoop]:
    """loops / comprehensions of fn over a collection reached from `self` whose variable is (statically) a Graph"""
    self_name = fn.args.args[0].arg if getattr(fn, "args", None) and fn.args.args else None
    if self_name is None:
        return
    for n in ast.walk(fn):
        if isinstance(n, ast.For) and isinstance(n.target, ast.Name) and is_graph(n.target):
            it = n.iter
            conds: list[ast.expr] = []
            cvars = {n.target.id}
            # `for g in [x for x in self.members if <filter on x>]`
            if isinstance(it, (ast.ListComp, ast.GeneratorExp, ast.SetComp)) and len(it.generators) == 1 \
                    and isinstance(it.generators[0].target, ast.Name) and isinstance(it.elt, ast.Name) and it.elt.id == it.generators[0].target.id:
                conds = list(it.generators[0].ifs)
                cvars = cvars | {it.elt.id}
                it = it.generators[0].iter
            if _mentions(it, {self_name}):
                yield MemberLoop(n, n.target.id, list(n.body), conds, cvars)
        elif isinstance(n, (ast.ListComp, ast.GeneratorExp, ast.SetComp, ast.DictComp)):
            for i, g in enumerate(n.generators):
                if isinstance(g.target, ast.Name) and is_graph(g.target) and _mentions(g.iter, {self_name}):
                    par = mod.parent.get(id(n))
                    if isinstance(par, ast.For) and par.iter is n:
                        continue  # seen as the filter of that for-loop
                    scope: list[ast.AST] = [n.elt] if not isinstance(n, ast.DictComp) else [n.key, n.value]
                    scope += [x for g2 in n.generators[i + 1:] for x in [g2.iter] + list(g2.ifs)]
                    yield MemberLoop(g, g.target.id, scope, list(g.ifs), {g.target.id})


def member_evaluations(loop: MemberLoop) -> Iterator[tuple[ast.AST, list[ast.expr]]]:
    """(site, arguments) for every place of the loop that asks ONE member about something: `X in M`, `M.method(X, ...)`"""
    for top in loop.scope:
        for n in ast.walk(top):
            if isinstance(n, ast.Compare) and len(n.ops) == 1 and isinstance(n.ops[0], (ast.In, ast.NotIn)) \
                    and isinstance(n.comparators[0], ast.Name) and n.comparators[0].id == loop.var:
                yield n, [n.left]
            elif isinstance(n, ast.Call) and isinstance(n.func, ast.Attribute) and isinstance(n.func.value, ast.Name) and n.func.value.id == loop.var:
                yield n, list(n.args) + [k.value for k in n.keywords]


def _truth(test: ast.expr, atom: Callable[[ast.expr], Optional[bool]]) -> Optional[bool]:
    if isinstance(test, ast.BoolOp):
        vals = [_truth(v, atom) for v in test.values]
        if isinstance(test.op, ast.And):
            return False if any(v is False for v in vals) else True if all(v is True for v in vals) else None
        return True if any(v is True for v in vals) else False if all(v is False for v in vals) else None
    if isinstance(test, ast.UnaryOp) and isinstance(test.op, ast.Not):
        v = _truth(test.operand, atom)
        return None if v is None else not v
    return atom(test)


def holds_for_all_members(test: ast.expr, positive: bool, members: set[str], never_none: Callable[[ast.AST], bool]) -> Optional[bool]:
    """Can the condition (taken positively / negatively) hold whatever the member is?  False = it singles members out: an
    equality / identity of something of the member with something else cannot hold for all of them; an inequality can; a test
    of a non-member value for None is decided by its static type when that is not Optional; everything else is unknown."""

    def atom(a: ast.expr) -> Optional[bool]:
        if isinstance(a, ast.Compare) and len(a.ops) == 1:
            op = a.ops[0]
            if _mentions(a, members):
                if isinstance(op, (ast.Eq, ast.Is)):
                    return False
                if isinstance(op, (ast.NotEq, ast.IsNot)):
                    return True
                return None
            r = a.comparators[0]
            if isinstance(r, ast.Constant) and r.value is None and isinstance(op, (ast.Is, ast.IsNot)) and never_none(a.left):
                return isinstance(op, ast.IsNot)
        return None

    v = _truth(test, atom)
    return v if positive or v is None else not v


def conditions_between(mod: Module, site: ast.AST, stop: ast.AST) -> list[tuple[ast.expr, bool]]:
    """the conditions (test, taken positively?) that hold whenever `site` is evaluated, collected from `site` up to `stop`:
    enclosing if / conditional expression / and-or operands to the left, inner comprehension filters, and earlier statements of
    an enclosing block of the form `if T: continue|return|raise|break`"""
    out: list[tuple[ast.expr, bool]] = []
    child = site
    for p in mod.parents(site):
        if isinstance(p, (ast.If, ast.While)) and child is not p.test:
            if any(child is s for s in p.body):
                out.append((p.test, True))
            elif isinstance(p, ast.If) and any(child is s for s in p.orelse):
                out.append((p.test, False))
        elif isinstance(p, ast.IfExp) and child is not p.test:
            out.append((p.test, child is p.body))
        elif isinstance(p, ast.BoolOp):
            i = next((k for k, v in enumerate(p.values) if v is child), 0)
            out += [(v, isinstance(p.op, ast.And)) for v in p.values[:i]]
        elif isinstance(p, ast.comprehension) and child is not p.iter:
            out += [(t, True) for t in p.ifs if t is not child]
        for field in ("body", "orelse", "finalbody"):
            blk = getattr(p, field, None)
            if isinstance(blk, list) and any(child is s for s in blk):
                i = next(k for k, s in enumerate(blk) if s is child)
                for s in blk[:i]:
                    if isinstance(s, ast.If) and not s.orelse and s.body and isinstance(s.body[-1], (ast.Continue, ast.Return, ast.Raise, ast.Break)):
                        out.append((s.test, False))
        if p is stop:
            break
        child = p
    return out


def results_name_member(loop: MemberLoop) -> Optional[bool]:
    """True if every value the loop hands out (yield / return <value>) mentions the member: the answer is attributed to the
    member it was found in (quads); None if the loop hands nothing out itself"""
    vals = []
    for top in loop.scope:
        for n in ast.walk(top):
            if isinstance(n, (ast.Yield, ast.YieldFrom, ast.Return)) and n.value is not None and not (isinstance(n.value, ast.Constant) and n.value.value is None):
                vals.append(n.value)
    if not vals:
        return None
    return all(_mentions(v, {loop.var}) for v in vals)


# --------------------------------------------------------------------------------------------------------------------
# positions in a pyparsing expression
# --------------------------------------------------------------------------------------------------------------------

_OPTIONAL = ("Optional", "Opt", "ZeroOrMore")
_WRAPPERS = ("Param", "ParamList", "Comp", "Group", "Suppress", "Combine", "Optional", "Opt", "ZeroOrMore", "OneOrMore")


def _flat(e: ast.AST, op) -> list:
    if isinstance(e, ast.BinOp) and isinstance(e.op, op):
        return _flat(e.left, op) + _flat(e.right, op)
    return [e]


def _is_lookahead(e: ast.AST) -> bool:
    return isinstance(e, ast.UnaryOp) and isinstance(e.op, ast.Invert)


def _chain_top(mod: Module, e: ast.AST, op) -> ast.AST:
    while True:
        p = mod.parent.get(id(e))
        if isinstance(p, ast.BinOp) and isinstance(p.op, op):
            e = p
        else:
            return e


def trailing_optionals(mod: Module, root: ast.AST) -> list[ast.Call]:
    """the Optional(..)/ZeroOrMore(..) elements a production can END with: last in their sequence, at every level up to root"""
    out = []

    def last(e: ast.AST) -> None:
        if isinstance(e, ast.BinOp) and isinstance(e.op, ast.Add):
            last(_flat(e, ast.Add)[-1])
        elif isinstance(e, ast.BinOp) and isinstance(e.op, (ast.BitOr, ast.BitXor)):
            for a in _flat(e, type(e.op)):
                last(a)
        elif isinstance(e, ast.Call):
            if isinstance(e.func, ast.Name) and e.func.id in _OPTIONAL:
                out.append(e)
                for a in e.args[:1]:
                    last(a)
            elif isinstance(e.func, ast.Name) and e.func.id in _WRAPPERS:
                for a in (e.args[1:2] if e.func.id in ("Param", "ParamList", "Comp") else e.args[:1]):
                    last(a)
            elif isinstance(e.func, ast.Attribute):
                last(e.func.value)

    last(root)
    return out


def first_elements(e: ast.AST) -> list[ast.AST]:
    """the elements an expression can start with, as written (names are not expanded): through Param/Group wrappers, every arm of
    an alternation, the first element of a sequence that is not a lookahead (and what follows it while it is optional)"""
    if isinstance(e, ast.BinOp) and isinstance(e.op, ast.Add):
        out = []
        for x in _flat(e, ast.Add):
            if _is_lookahead(x):
                continue
            out += first_elements(x)
            if not (isinstance(x, ast.Call) and isinstance(x.func, ast.Name) and x.func.id in _OPTIONAL):
                break
        return out
    if isinstance(e, ast.BinOp) and isinstance(e.op, (ast.BitOr, ast.BitXor)):
        return [y for a in _flat(e, type(e.op)) for y in first_elements(a)]
    if isinstance(e, ast.Call) and isinstance(e.func, ast.Name) and e.func.id in _WRAPPERS and e.func.id not in ("Suppress", "Combine"):
        args = e.args[1:2] if e.func.id in ("Param", "ParamList", "Comp") else e.args[:1]
        return [y for a in args for y in first_elements(a)]
    return [e]


def guards_at(mod: Module, x: ast.AST, stop: ast.AST) -> list[ast.AST]:
    """operands of the negative lookaheads (~T) that are tried at the very input position where element x would start: those
    written before x in its sequence when nothing but lookaheads precedes it, and - while that is so - those written before the
    alternation / wrapper x stands in, up to `stop`"""
    out: list[ast.AST] = []
    e = x
    while e is not stop:
        p = mod.parent.get(id(e))
        if isinstance(p, ast.BinOp) and isinstance(p.op, ast.Add):
            top = _chain_top(mod, e, ast.Add)
            chain = _flat(top, ast.Add)
            i = next((k for k, y in enumerate(chain) if y is e), None)
            if i is None or not all(_is_lookahead(y) for y in chain[:i]):
                return out  # something is consumed before x: lookaheads further out look at another position
            out += [y.operand for y in chain[:i]]
            e = top
        elif isinstance(p, ast.BinOp) and isinstance(p.op, (ast.BitOr, ast.BitXor)):
            e = _chain_top(mod, e, type(p.op))
        elif isinstance(p, ast.Attribute) and p.value is e:  # (<expr>).copy() ...
            e = p
        elif isinstance(p, ast.Call) and (p.func is e or any(a is e for a in p.args)):
            e = p
        else:
            return out
    return out


# --------------------------------------------------------------------------------------------------------------------
# an evaluator = a PUBLIC entry point (the `eval` method of a Path class) together with the private callables it reaches
# --------------------------------------------------------------------------------------------------------------------
# Where a helper lives is the maintainer's choice, not part of the property: a closure nested in the entry point, a private
# method of the same class called through `self`, a private function of the module.  The rules about "the helpers of X.eval"
# are stated over this set, found through the call graph from the public name.


def _is_dunder(name: str) -> bool:
    return name.startswith("__") and name.endswith("__")


def _decorators(fn: ast.AST) -> set[str]:
    return {d.id if isinstance(d, ast.Name) else d.attr if isinstance(d, ast.Attribute) else "" for d in getattr(fn, "decorator_list", [])}


class Helper:
    """one callable of an evaluator; `params` are the parameters a CALLER supplies (the receiver of a method is not one)"""

    def __init__(self, fn: ast.FunctionDef, kind: str, label: str):
        self.fn = fn
        self.name = fn.name
        self.kind = kind  # "entry" | "nested" | "method" | "function"
        self.label = label
        all_params = [a.arg for a in fn.args.posonlyargs + fn.args.args]
        self.receiver: Optional[str] = None
        if kind in ("method", "entry") and "staticmethod" not in _decorators(fn) and all_params:
            self.receiver = all_params[0]
            all_params = all_params[1:]
        self.params = all_params
        self.kwonly = [a.arg for a in fn.args.kwonlyargs]

    def arg(self, call: ast.Call, idx: int) -> Optional[ast.expr]:
        """the argument the call supplies for parameter number idx (of `params`), None if it leaves it to the default"""
        if any(isinstance(a, ast.Starred) for a in call.args):
            return None
        if idx < len(call.args):
            return call.args[idx]
        if idx < len(self.params):
            return next((k.value for k in call.keywords if k.arg == self.params[idx]), None)
        return None

    def own(self) -> Iterator[ast.AST]:
        """the nodes this callable executes itself (not those of the defs nested in it)"""
        stack = list(ast.iter_child_nodes(self.fn))
        while stack:
            n = stack.pop()
            yield n
            if isinstance(n, (ast.FunctionDef, ast.AsyncFunctionDef, ast.ClassDef, ast.Lambda)):
                continue
            stack.extend(ast.iter_child_nodes(n))


class Evaluator:
    def __init__(self, mod: Module, cls: str, entry: str = "eval"):
        self.mod = mod
        self.cls = cls
        methods = mod.methods(cls)
        if entry not in methods:
            raise KeyError(entry)
        self.entry = Helper(methods[entry], "entry", "%s.%s" % (cls, entry))
        self.helpers: list[Helper] = []
        self._by_fn: dict[int, Helper] = {id(self.entry.fn): self.entry}
        module_funcs = {st.name: st for st in mod.tree.body if isinstance(st, ast.FunctionDef)}
        todo = [self.entry]
        while todo:
            h = todo.pop(0)
            # (1) the defs nested in it, whether or not it calls them (they exist for it alone)
            for n in h.own():
                if isinstance(n, ast.FunctionDef) and id(n) not in self._by_fn:
                    k = Helper(n, "nested", "%s.%s" % (h.label, n.name))
                    self._add(k, todo)
            # (2) private methods of the same class called through the receiver, private functions of the module called by name
            for n in h.own():
                if not isinstance(n, ast.Call):
                    continue
                f = n.func
                if isinstance(f, ast.Attribute) and isinstance(f.value, ast.Name) and f.value.id in self._receivers(h) and f.attr in methods \
                        and f.attr != entry and not _is_dunder(f.attr) and id(methods[f.attr]) not in self._by_fn:
                    self._add(Helper(methods[f.attr], "method", "%s.%s" % (cls, f.attr)), todo)
                elif isinstance(f, ast.Name) and f.id.startswith("_") and f.id in module_funcs and id(module_funcs[f.id]) not in self._by_fn \
                        and not self._shadowed(h, f.id):
                    self._add(Helper(module_funcs[f.id], "function", f.id), todo)

    def _add(self, k: Helper, todo: list) -> None:
        self.helpers.append(k)
        self._by_fn[id(k.fn)] = k
        todo.append(k)

    def _chain(self, h: Helper) -> list[Helper]:
        """h and the callables it is lexically nested in, innermost first"""
        out = [h]
        for p in self.mod.parents(h.fn):
            if id(p) in self._by_fn:
                out.append(self._by_fn[id(p)])
        return out

    def _receivers(self, h: Helper) -> set[str]:
        return {k.receiver for k in self._chain(h) if k.receiver}

    def _shadowed(self, h: Helper, name: str) -> bool:
        return any(isinstance(n, ast.FunctionDef) and n.name == name for k in self._chain(h) for n in k.own())

    def all(self) -> list[Helper]:
        return [self.entry] + self.helpers

    def owner(self, node: ast.AST) -> Optional[Helper]:
        """the callable of this evaluator that executes node"""
        for p in self.mod.parents(node):
            if id(p) in self._by_fn:
                return self._by_fn[id(p)]
        return None

    def callee(self, call: ast.AST) -> Optional[Helper]:
        """the helper of this evaluator a call expression invokes, if any"""
        if not isinstance(call, ast.Call):
            return None
        f = call.func
        here = self.owner(call)
        if here is None:
            return None
        if isinstance(f, ast.Name):
            # a def nested in the callable the call stands in, or in one that encloses it
            for k in self._chain(here):
                for h in self.helpers:
                    if h.kind == "nested" and h.name == f.id and self._defined_in(h, k):
                        return h
            return next((h for h in self.helpers if h.kind == "function" and h.name == f.id), None)
        if isinstance(f, ast.Attribute) and isinstance(f.value, ast.Name) and f.value.id in self._receivers(here):
            return next((h for h in self.helpers if h.kind == "method" and h.name == f.attr), None)
        return None

    def _defined_in(self, h: Helper, k: Helper) -> bool:
        return any(n is h.fn for n in k.own())

    def calls(self, h: Helper) -> Iterator[tuple[ast.Call, Helper]]:
        """(call, callee) for the calls of helpers that h executes itself"""
        for n in h.own():
            k = self.callee(n)
            if k is not None:
                yield n, k  # type: ignore[misc]

    def end_params(self, entry_ends: list[str], reaches: Callable[[ast.AST], bool]) -> dict[int, list[str]]:
        """id(fn) -> the parameters of that callable that stand for an END of the walk: for the entry point the public names; for a
        helper every parameter that, at some call, receives an end parameter of the caller (its own or one it sees by closure) or a
        node bound by a loop over results (`reaches(loop.iter)`).  Found by value flow over the calls, to a fixed point."""
        ends: dict[int, list[str]] = {id(self.entry.fn): [p for p in self.entry.params if p in entry_ends]}
        changed = True
        while changed:
            changed = False
            for h in self.all():
                visible = set()
                for k in self._chain(h):
                    visible |= set(ends.get(id(k.fn), []))
                for call, k in self.calls(h):
                    loopvars = set()
                    for p in self.mod.parents(call):
                        if p is h.fn:
                            break
                        if isinstance(p, ast.For) and reaches(p.iter):
                            loopvars |= {x.id for x in ast.walk(p.target) if isinstance(x, ast.Name)}
                    for i, pn in enumerate(k.params):
                        a = k.arg(call, i)
                        if isinstance(a, ast.Name) and (a.id in visible or a.id in loopvars) and pn not in ends.setdefault(id(k.fn), []):
                            ends[id(k.fn)].append(pn)
                            changed = True
        return ends


# --------------------------------------------------------------------------------------------------------------------
# the values an expression can evaluate to (may-analysis, flow-insensitive inside one function)
# --------------------------------------------------------------------------------------------------------------------


class _Subst(ast.NodeTransformer):
    def __init__(self, env: dict[str, ast.expr]):
        self.env = env

    def visit_Name(self, node: ast.Name):
        if isinstance(node.ctx, ast.Load) and node.id in self.env:
            return self.env[node.id]
        return node


def possible_values(e: ast.expr, fn: ast.AST, resolve: Callable[[ast.Call], Optional[Helper]], depth: int = 0) -> list[ast.expr]:
    """the expressions whose value `e`, read in function fn, can have: a name stands for what the function assigns to it, a call of
    a helper for what the helper returns (its parameters replaced by the arguments), a conditional expression for both arms;
    anything else stands for itself.  `None` is left out (the caller asks what is handed out when something is)."""
    import copy

    if depth > 4:
        return [e]
    if isinstance(e, ast.Constant) and e.value is None:
        return []
    if isinstance(e, ast.IfExp):
        return possible_values(e.body, fn, resolve, depth + 1) + possible_values(e.orelse, fn, resolve, depth + 1)
    if isinstance(e, ast.NamedExpr):
        return possible_values(e.value, fn, resolve, depth + 1)
    if isinstance(e, ast.Name):
        params = {a.arg for a in fn.args.posonlyargs + fn.args.args + fn.args.kwonlyargs} if isinstance(fn, ast.FunctionDef) else set()
        if e.id in params:
            return [e]
        vals: list[ast.expr] = []
        stack = list(ast.iter_child_nodes(fn))
        while stack:
            n = stack.pop()
            if isinstance(n, (ast.FunctionDef, ast.AsyncFunctionDef, ast.ClassDef, ast.Lambda)):
                continue
            stack.extend(ast.iter_child_nodes(n))
            if isinstance(n, ast.Assign) and any(isinstance(t, ast.Name) and t.id == e.id for t in n.targets):
                vals.append(n.value)
            elif isinstance(n, ast.AnnAssign) and n.value is not None and isinstance(n.target, ast.Name) and n.target.id == e.id:
                vals.append(n.value)
            elif isinstance(n, ast.NamedExpr) and n.target.id == e.id:
                vals.append(n.value)
        if not vals:
            return [e]
        vals.sort(key=lambda v: (getattr(v, "lineno", 0), getattr(v, "col_offset", 0)))
        return [x for v in vals for x in possible_values(v, fn, resolve, depth + 1)]
    if isinstance(e, ast.Call):
        h = resolve(e)
        if h is not None:
            env = {}
            for i, pn in enumerate(h.params):
                a = h.arg(e, i)
                if a is not None:
                    env[pn] = a
            out: list[ast.expr] = []
            for n in h.own():
                if isinstance(n, ast.Return) and n.value is not None:
                    for v in possible_values(n.value, h.fn, resolve, depth + 1):
                        out.append(_Subst(env).visit(copy.deepcopy(v)))
            return out
    return [e]


def call_free(h: Helper, resolve: Callable[[ast.Call], Optional[Helper]], allowed: Callable[[ast.Call], bool], seen: frozenset = frozenset()) -> Optional[ast.Call]:
    """the first call a helper makes (itself or through helpers it calls) that is not `allowed`; None if it computes its result from
    its arguments alone"""
    if id(h.fn) in seen:
        return None
    for n in h.own():
        if isinstance(n, ast.Call) and not allowed(n):
            k = resolve(n)
            if k is None:
                return n
            bad = call_free(k, resolve, allowed, seen | {id(h.fn)})
            if bad is not None:
                return bad
    return None


# --------------------------------------------------------------------------------------------------------------------
# dispatch on a key: the arms of an if-chain `K == "name"` and the entries of a table looked up with K
# --------------------------------------------------------------------------------------------------------------------


def module_tables(mod: Module) -> dict[str, dict[str, ast.expr]]:
    """module-level `NAME = {"const": value, ...}` (all keys constant strings)"""
    out: dict[str, dict[str, ast.expr]] = {}
    for st in mod.tree.body:
        tgt = val = None
        if isinstance(st, ast.Assign) and len(st.targets) == 1 and isinstance(st.targets[0], ast.Name):
            tgt, val = st.targets[0].id, st.value
        elif isinstance(st, ast.AnnAssign) and isinstance(st.target, ast.Name) and st.value is not None:
            tgt, val = st.target.id, st.value
        if tgt and isinstance(val, ast.Dict) and val.keys and all(isinstance(k, ast.Constant) and isinstance(k.value, str) for k in val.keys):
            out[tgt] = {k.value: v for k, v in zip(val.keys, val.values)}  # type: ignore[union-attr]
    return out


def table_lookup(e: ast.AST, tables: dict) -> Optional[tuple[str, ast.expr]]:
    """`TABLE[k]` / `TABLE.get(k[, default])` -> (TABLE, k)"""
    if isinstance(e, ast.Subscript) and isinstance(e.value, ast.Name) and e.value.id in tables:
        return e.value.id, e.slice
    if isinstance(e, ast.Call) and isinstance(e.func, ast.Attribute) and e.func.attr == "get" and isinstance(e.func.value, ast.Name) \
            and e.func.value.id in tables and e.args:
        return e.func.value.id, e.args[0]
    return None


class Arm:
    """the code that handles one value of a dispatch key: the statements, and the name the dispatched object goes by there"""

    def __init__(self, key: str, root: ast.AST, body: list[ast.stmt], var: str, via: Optional["tuple[Arm, ast.AST]"] = None):
        self.key = key
        self.root = root  # the If of an if-chain arm / the FunctionDef of a table entry or of a helper the arm hands the object to
        self.body = body
        self.var = var
        self.via = via  # (the arm region this one is entered from, the call there that hands the object over)


def dispatch_arms(mod: Module, fn: ast.FunctionDef, attr: str) -> dict[str, list[Arm]]:
    """The arms of the dispatch of `fn` on `<its first parameter>.<attr>`: for every constant the key is compared with
    (`if V.attr == "k":`) the body of that `if`; for every entry of a module-level table that fn looks up with the key
    (`TABLE[V.attr]`, `TABLE.get(V.attr)`) the function the entry names.  An arm extends into the module-level functions it hands
    the dispatched object to (a region per function, with the name the object has there)."""
    if not fn.args.args:
        return {}
    var = fn.args.args[0].arg
    module_funcs = {st.name: st for st in mod.tree.body if isinstance(st, ast.FunctionDef)}
    # the last definition with a body stands for an overloaded name
    for st in mod.tree.body:
        if isinstance(st, ast.FunctionDef) and not any(
                (isinstance(d, ast.Name) and d.id == "overload") or (isinstance(d, ast.Attribute) and d.attr == "overload") for d in st.decorator_list):
            module_funcs[st.name] = st
    tables = module_tables(mod)
    arms: dict[str, list[Arm]] = {}

    def extend(arm: Arm, seen: set[int]) -> list[Arm]:
        out = [arm]
        for s in arm.body:
            for c in ast.walk(s):
                if isinstance(c, ast.Call) and isinstance(c.func, ast.Name) and c.func.id in module_funcs and id(module_funcs[c.func.id]) not in seen:
                    k = module_funcs[c.func.id]
                    pos = next((i for i, a in enumerate(c.args) if isinstance(a, ast.Name) and a.id == arm.var), None)
                    kw = next((x.arg for x in c.keywords if isinstance(x.value, ast.Name) and x.value.id == arm.var), None)
                    pname = k.args.args[pos].arg if pos is not None and pos < len(k.args.args) else kw
                    if pname is None:
                        continue
                    out += extend(Arm(arm.key, k, list(k.body), pname, via=(arm, c)), seen | {id(k)})
        return out

    for n in ast.walk(fn):
        if isinstance(n, ast.If) and isinstance(n.test, ast.Compare) and len(n.test.ops) == 1 and isinstance(n.test.ops[0], ast.Eq) \
                and norm(n.test.left) == "%s.%s" % (var, attr) and isinstance(n.test.comparators[0], ast.Constant) \
                and isinstance(n.test.comparators[0].value, str):
            key = n.test.comparators[0].value
            arms.setdefault(key, []).extend(extend(Arm(key, n, list(n.body), var), {id(fn)}))
    # table entries
    bound: dict[str, str] = {}  # local name -> table it was looked up in with the key
    direct: list[tuple[str, ast.AST]] = []
    for n in ast.walk(fn):
        lk = table_lookup(n, tables)
        if lk is None or norm(lk[1]) != "%s.%s" % (var, attr):
            continue
        par = mod.parent.get(id(n))
        if isinstance(par, ast.Assign) and par.value is n and len(par.targets) == 1 and isinstance(par.targets[0], ast.Name):
            bound[par.targets[0].id] = lk[0]
        elif isinstance(par, ast.NamedExpr) and par.value is n:
            bound[par.target.id] = lk[0]
        direct.append((lk[0], n))
    for tname, site in direct:
        # where is the looked-up callable called, and where does the dispatched object stand among the arguments?
        pos = None
        for c in ast.walk(fn):
            if isinstance(c, ast.Call) and ((isinstance(c.func, ast.Name) and bound.get(c.func.id) == tname) or c.func is site):
                pos = next((i for i, a in enumerate(c.args) if isinstance(a, ast.Name) and a.id == var), pos)
        for key, val in tables[tname].items():
            if isinstance(val, ast.Name) and val.id in module_funcs:
                k = module_funcs[val.id]
                if pos is not None and pos < len(k.args.args):
                    arms.setdefault(key, []).extend(extend(Arm(key, k, list(k.body), k.args.args[pos].arg), {id(fn), id(k)}))
                else:
                    arms.setdefault(key, []).append(Arm(key, k, list(k.body), ""))
            else:
                arms.setdefault(key, []).append(Arm(key, site, [], ""))
    return arms


# --------------------------------------------------------------------------------------------------------------------
# the names an expression READS FROM THE SCOPE IT STANDS IN (its free variables)
# --------------------------------------------------------------------------------------------------------------------


def _stores(t: ast.AST) -> set[str]:
    return {n.id for n in ast.walk(t) if isinstance(n, ast.Name) and isinstance(n.ctx, ast.Store)}


def free_loads(e: ast.AST, bound: frozenset = frozenset()) -> set[str]:
    """names the expression reads from the enclosing scope.  A lambda's parameters and the targets of a comprehension are variables of
    their own scope: a use of them inside the lambda body / the comprehension is not a read of the like-named variable outside (the
    defaults of a lambda and the FIRST iterable of a comprehension are evaluated outside and do count)"""
    if isinstance(e, ast.Name):
        return {e.id} if isinstance(e.ctx, ast.Load) and e.id not in bound else set()
    if isinstance(e, ast.Lambda):
        a = e.args
        params = {x.arg for x in a.posonlyargs + a.args + a.kwonlyargs} | {x.arg for x in (a.vararg, a.kwarg) if x is not None}
        out: set[str] = set()
        for d in list(a.defaults) + [d for d in a.kw_defaults if d is not None]:
            out |= free_loads(d, bound)
        return out | free_loads(e.body, bound | params)
    if isinstance(e, (ast.ListComp, ast.SetComp, ast.GeneratorExp, ast.DictComp)):
        out = set()
        inner = bound
        for i, g in enumerate(e.generators):
            out |= free_loads(g.iter, bound if i == 0 else inner)
            inner = inner | _stores(g.target)
            for c in g.ifs:
                out |= free_loads(c, inner)
        for part in ([e.key, e.value] if isinstance(e, ast.DictComp) else [e.elt]):
            out |= free_loads(part, inner)
        return out
    out = set()
    for c in ast.iter_child_nodes(e):
        out |= free_loads(c, bound)
    return out


def clobber_scan(rep, rule: str, mod, fn: ast.AST, where: str) -> int:
    """vlib.loops.clobber_scan with "reads" taken as "reads from the scope of the loop" (free_loads): a `for` whose target rebinds a name
    that its own iterable reads is evaluated with the clobbered value when the statement is executed again by an enclosing loop that does
    not re-establish the name first.  Instance = every for-loop whose target names occur in its iterable at all (the population examined, as in
    vlib.loops); those where the occurrence is not a free name are discharged."""
    from vlib.loops import _assigned_before, names

    n = 0

    def visit(stmts: list, outer: list) -> None:
        nonlocal n
        for st in stmts:
            if isinstance(st, (ast.FunctionDef, ast.AsyncFunctionDef, ast.ClassDef)):
                continue
            if isinstance(st, (ast.For, ast.AsyncFor)):
                tgt = names(st.target, ast.Store)
                clob = sorted(tgt & free_loads(st.iter))
                if not clob and tgt & names(st.iter, ast.Load):
                    # examined and discharged: the like-named variable inside the iterable belongs to a lambda / comprehension of its own
                    n += 1
                    rep.ob(rule, mod, where, "for %s in %s" % (norm(st.target), norm(st.iter)), True,
                           "the iterable mentions %s only as a variable of a lambda / comprehension of its own, it does not read the loop's target" % sorted(tgt & names(st.iter, ast.Load)), node=st)
                if clob:
                    n += 1
                    bad = []
                    for nm in clob:
                        for o in outer:
                            otgt = names(o.target, ast.Store) if isinstance(o, (ast.For, ast.AsyncFor)) else set()
                            if nm in otgt or _assigned_before(o.body, st, nm):
                                continue
                            bad.append(nm)
                            break
                    rep.ob(rule, mod, where, "for %s in %s" % (norm(st.target), norm(st.iter)), not bad,
                           ("loop target rebinds %s, which the loop's own iterable reads, and the loop is re-executed by an enclosing loop without "
                            "re-establishing it: later iterations evaluate the pattern with the clobbered value" % bad) if bad else
                           "target rebinds %s read by its iterable, but the statement runs once per binding (no enclosing loop re-executes it with the clobbered value)" % clob,
                           node=st)
                visit(st.body, outer + [st])
                visit(st.orelse, outer)
            elif isinstance(st, ast.While):
                visit(st.body, outer + [st])
                visit(st.orelse, outer)
            else:
                for f in ("body", "orelse", "finalbody"):
                    v = getattr(st, f, None)
                    if v:
                        visit(v, outer)
                for h in getattr(st, "handlers", []) or []:
                    visit(h.body, outer)
                if isinstance(st, ast.Match):
                    for c in st.cases:
                        visit(c.body, outer)

    visit(fn.body, [])  # type: ignore[attr-defined]
    return n
