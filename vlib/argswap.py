"""E8 - swapped same-named arguments.

For every call whose callee the type checker resolved to a function of the package: if two positional arguments are plain
names that are also parameter names of the callee, each must sit at its own parameter's position.  `f(graph, dataset)` for
`def f(dataset, graph)` passes the type checker when both are Graphs and silently exchanges the roles."""
from __future__ import annotations

import ast

from .core import norm


def _resolve(repo, target: str):
    for cut in (1, 2):
        parts = target.rsplit(".", cut)
        if parts[0] in repo.modules:
            q = target[len(parts[0]) + 1:]
            m = repo.modules[parts[0]]
            if m.has(q) and isinstance(m.defs[q], (ast.FunctionDef, ast.AsyncFunctionDef)):
                return m.defs[q]
    return None


def scan(repo, rep, rule: str, modnames) -> int:
    n = 0
    for modname in modnames:
        mod = repo.mod(modname)
        for c in ast.walk(mod.tree):
            if not isinstance(c, ast.Call):
                continue
            args = [a.id if isinstance(a, ast.Name) else None for a in c.args]
            if sum(1 for a in args if a) < 2:
                continue
            for tgt in repo.typed.callees(modname, c) or []:
                f = _resolve(repo, tgt)
                if f is None:
                    continue
                params = [a.arg for a in f.args.posonlyargs + f.args.args]
                if params and params[0] in ("self", "cls") and isinstance(c.func, ast.Attribute):
                    params = params[1:]
                named = [(i, a) for i, a in enumerate(args) if a and a in params]
                if len(named) < 2:
                    continue
                n += 1
                swapped = [(a, params[i]) for i, a in named if i < len(params) and params[i] != a and params.index(a) < len(args) and args[params.index(a)] == params[i]]
                rep.ob(rule, mod, mod.qual_of(c) or "<module>", c, not swapped,
                       "arguments named like parameters are in their parameters' positions" if not swapped else
                       "the argument `%s` is passed in the position of parameter `%s` and vice versa (callee %s(%s)): the two roles are exchanged although the types agree" % (
                           swapped[0][0], swapped[0][1], tgt.rsplit(".", 1)[-1], ", ".join(params[:6])), node=c)
                break
    return n
