"""Helpers of check C12 (nothing of the analysed library is executed).

* `Uniq` - how unique, over parse calls AND over processes, the string built by an expression is:
  STRONG (carries an intact uuid/random value), WEAK (carries only a per-process counter, or a strong value that went
  through a truncating operation such as split/pop/slice, so that its unique part may be gone), NONE (nothing varying).
* `swallows(handler)` - an except clause that lets control go on (does not re-raise on every path).
* `fresh_graph(...)` - an expression that denotes a Graph constructed on the spot with its own store.
"""
from __future__ import annotations

import ast

from .core import norm, own_nodes

STRONG, WEAK, NONE = 2, 1, 0

# sources whose value differs between any two calls in any two processes
STRONG_FULL = {"uuid.uuid4", "uuid.uuid1", "secrets.token_urlsafe", "secrets.token_hex", "secrets.token_bytes", "os.urandom",
               "random.getrandbits", "secrets.randbits", "random.SystemRandom.getrandbits"}
STRONG_LAST = {"uuid4", "uuid1", "token_urlsafe", "token_hex", "token_bytes", "urandom", "getrandbits", "randbits"}
# str methods / functions that keep every character class of their receiver's unique part (or re-encode it one-to-one)
KEEPING_METHODS = {"replace", "lower", "upper", "encode", "decode", "hex", "__str__", "zfill", "title", "capitalize", "swapcase"}
KEEPING_FUNCS = {"str", "repr", "format", "hex", "int", "bytes"}
COMBINING_METHODS = {"format", "join"}


class Uniq:
    def __init__(self, repo, typed):
        self.repo = repo
        self.typed = typed
        self._counters: dict[str, set[str]] = {}

    # -- per-process counters: anything that is the target of `x += <n>` somewhere in the module
    def counters(self, modname: str) -> set[str]:
        if modname not in self._counters:
            mod = self.repo.modules[modname]
            out = set()
            for n in ast.walk(mod.tree):
                if isinstance(n, ast.AugAssign) and isinstance(n.op, ast.Add) and isinstance(n.target, (ast.Name, ast.Attribute)):
                    t = n.target
                    if isinstance(t, ast.Attribute):
                        out.add("." + t.attr)  # receiver-insensitive: self.counter / Formula.number / cls.number
                    else:
                        out.add(t.id)
            self._counters[modname] = out
        return self._counters[modname]

    def _class_of(self, mod, fn):
        q = mod.qual_of(fn)
        while q:
            d = mod.defs.get(q)
            if isinstance(d, ast.ClassDef):
                return q
            q = q.rpartition(".")[0]
        return None

    def _attr_assignments(self, modname, cls_q, attr):
        """values assigned to <first parameter>.<attr> in the methods of the class and of its bases (inside the analysed package)"""
        out = []
        for full in self.typed.mro("%s.%s" % (modname, cls_q)):
            m2n, _, cname = full.rpartition(".")
            m2 = self.repo.modules.get(m2n)
            if m2 is None or not isinstance(m2.defs.get(cname), ast.ClassDef):
                continue
            for meth in m2.defs[cname].body:
                if not isinstance(meth, (ast.FunctionDef, ast.AsyncFunctionDef)) or not meth.args.args:
                    continue
                me = meth.args.args[0].arg
                for n in own_nodes(meth, include_nested=True):
                    if isinstance(n, (ast.Assign, ast.AnnAssign)) and n.value is not None:
                        for t in (n.targets if isinstance(n, ast.Assign) else [n.target]):
                            if isinstance(t, ast.Attribute) and t.attr == attr and isinstance(t.value, ast.Name) and t.value.id == me:
                                out.append((m2n, m2, meth, n.value))
        return out

    def strength(self, e: ast.AST, modname: str, fn: ast.AST, depth: int = 0, seen: frozenset = frozenset()) -> tuple[int, str]:
        """(STRONG|WEAK|NONE, why) for the value of expression `e` evaluated inside function `fn` of module `modname`."""
        mod = self.repo.modules[modname]
        if depth > 6:
            return NONE, "too deep"
        rec = lambda x, f=fn, m=modname: self.strength(x, m, f, depth + 1, seen)  # noqa: E731

        def best(parts):
            rs = [rec(p) for p in parts]
            return max(rs, key=lambda r: r[0]) if rs else (NONE, "empty")

        def worst(rs, what):
            if not rs:
                return NONE, "no binding of %s found" % what
            return min(rs, key=lambda r: r[0])

        if isinstance(e, ast.Constant):
            return NONE, "constant"
        if isinstance(e, ast.JoinedStr):
            return best([v.value for v in e.values if isinstance(v, ast.FormattedValue)])
        if isinstance(e, ast.FormattedValue):
            return rec(e.value)
        if isinstance(e, (ast.Tuple, ast.List)):
            return best(e.elts)
        if isinstance(e, ast.BinOp) and isinstance(e.op, (ast.Add, ast.Mod)):
            return best([e.left, e.right])
        if isinstance(e, ast.IfExp):
            return worst([rec(e.body), rec(e.orelse)], "conditional")
        if isinstance(e, ast.BoolOp):
            return worst([rec(v) for v in e.values], "or/and")
        if isinstance(e, ast.NamedExpr):
            return rec(e.value)
        if isinstance(e, (ast.Subscript, ast.Starred)):
            s, why = rec(e.value)
            return (WEAK, "a part cut out of (%s)" % why) if s else (NONE, why)
        if isinstance(e, ast.Call):
            cal = self.typed.callees(modname, e)
            last = norm(e.func).split(".")[-1]
            if any(c in STRONG_FULL for c in cal) or (not cal and last in STRONG_LAST):
                return STRONG, "%s()" % norm(e.func)
            args = list(e.args) + [k.value for k in e.keywords]
            if isinstance(e.func, ast.Attribute):
                if e.func.attr in COMBINING_METHODS:
                    return best([e.func.value] + args)
                if e.func.attr in KEEPING_METHODS:
                    return rec(e.func.value)
            if isinstance(e.func, ast.Name) and e.func.id in KEEPING_FUNCS and not any(c.startswith("rdflib.") for c in cal):
                return best(args)
            # a function of the analysed package: as unique as the least unique value it returns
            for c in cal:
                m2n, _, fname = c.rpartition(".")
                target = None
                while m2n and target is None:
                    m2 = self.repo.modules.get(m2n)
                    if m2 is not None:
                        q = c[len(m2n) + 1:]
                        if isinstance(m2.defs.get(q), (ast.FunctionDef, ast.AsyncFunctionDef)):
                            target = (m2n, m2.defs[q])
                        break
                    m2n = m2n.rpartition(".")[0]
                if target is None or (c in seen):
                    continue
                rets = [n.value for n in own_nodes(target[1]) if isinstance(n, ast.Return) and n.value is not None]
                rs = [self.strength(r, target[0], target[1], depth + 1, seen | {c}) for r in rets]
                s, why = worst(rs, "return value of %s" % c)
                return s, "%s() returns %s" % (last, why)
            # truncating / unknown call: whatever unique part the receiver had may be gone
            if isinstance(e.func, ast.Attribute):
                s, why = rec(e.func.value)
                if s:
                    return WEAK, "%s() applied to (%s)" % (e.func.attr, why)
            return NONE, "%s(...) is not a known unique source" % norm(e.func)[:40]
        if isinstance(e, ast.Attribute):
            if "." + e.attr in self.counters(modname):
                return WEAK, "%s is a counter of this process (incremented with +=)" % norm(e)
            if e.attr in ("hex", "int", "urn", "bytes"):
                s, why = rec(e.value)
                if s:
                    return s, why
            cls_q = self._class_of(mod, fn)
            first = fn.args.args[0].arg if isinstance(fn, (ast.FunctionDef, ast.AsyncFunctionDef)) and fn.args.args else None
            if cls_q and isinstance(e.value, ast.Name) and e.value.id == first:
                key = "%s.%s.%s" % (modname, cls_q, e.attr)
                if key in seen:
                    return NONE, "cyclic"
                rs = [self.strength(v, m2n, meth, depth + 1, seen | {key}) for (m2n, m2, meth, v) in self._attr_assignments(modname, cls_q, e.attr)]
                s, why = worst(rs, norm(e))
                return s, "%s = %s" % (norm(e), why)
            return NONE, "%s is not an attribute set by this class" % norm(e)
        if isinstance(e, ast.Name):
            if e.id in self.counters(modname):
                return WEAK, "%s is a counter of this process (incremented with +=)" % e.id
            params = set()
            if isinstance(fn, (ast.FunctionDef, ast.AsyncFunctionDef, ast.Lambda)):
                a = fn.args
                params = {x.arg for x in a.posonlyargs + a.args + a.kwonlyargs} | ({a.vararg.arg} if a.vararg else set()) | ({a.kwarg.arg} if a.kwarg else set())
            vals = []
            other = False
            scope_nodes = list(own_nodes(fn, include_nested=True)) if not isinstance(fn, ast.Module) else []
            for n in scope_nodes:
                if isinstance(n, (ast.Assign, ast.AnnAssign)) and n.value is not None:
                    for t in (n.targets if isinstance(n, ast.Assign) else [n.target]):
                        if isinstance(t, ast.Name) and t.id == e.id:
                            vals.append(n.value)
                        elif isinstance(t, (ast.Tuple, ast.List)) and any(isinstance(x, ast.Name) and x.id == e.id for x in ast.walk(t)):
                            other = True
                elif isinstance(n, (ast.For, ast.comprehension)) and any(isinstance(x, ast.Name) and x.id == e.id for x in ast.walk(n.target)):
                    other = True
                elif isinstance(n, ast.withitem) and n.optional_vars is not None and any(isinstance(x, ast.Name) and x.id == e.id for x in ast.walk(n.optional_vars)):
                    other = True
            if other:
                return NONE, "%s is bound by a loop/unpacking" % e.id
            if vals:
                key = "%s:%s:%s" % (modname, mod.qual_of(fn) if not isinstance(fn, ast.Module) else "", e.id)
                if key in seen:
                    return NONE, "cyclic"
                return worst([self.strength(v, modname, fn, depth + 1, seen | {key}) for v in vals], e.id)
            if e.id in params:
                return NONE, "%s is a parameter" % e.id
            # module-level binding
            tops = [n.value for n in mod.tree.body if isinstance(n, (ast.Assign, ast.AnnAssign)) and n.value is not None
                    and any(isinstance(t, ast.Name) and t.id == e.id for t in (n.targets if isinstance(n, ast.Assign) else [n.target]))]
            tops += [n.value for f2 in ast.walk(mod.tree) if isinstance(f2, (ast.FunctionDef, ast.AsyncFunctionDef))
                     and any(isinstance(g, ast.Global) and e.id in g.names for g in own_nodes(f2))
                     for n in own_nodes(f2) if isinstance(n, ast.Assign) and any(isinstance(t, ast.Name) and t.id == e.id for t in n.targets)]
            if tops:
                key = "%s::%s" % (modname, e.id)
                if key in seen:
                    return NONE, "cyclic"
                s, why = worst([self.strength(v, modname, mod.tree, depth + 1, seen | {key}) for v in tops], e.id)
                # a value made once per process is shared by every parse call of the process: on its own it separates processes only
                return s, "module global %s = %s" % (e.id, why)
            return NONE, "%s is not bound to a unique source" % e.id
        return NONE, "%s expression" % type(e).__name__


def always_raises(stmts: list[ast.stmt]) -> bool:
    """every path through the statement list ends in `raise`"""
    if not stmts:
        return False
    last = stmts[-1]
    if isinstance(last, ast.Raise):
        return True
    if isinstance(last, ast.If):
        return bool(last.orelse) and always_raises(last.body) and always_raises(last.orelse)
    if isinstance(last, (ast.With, ast.AsyncWith)):
        return always_raises(last.body)
    if isinstance(last, ast.Try):
        if always_raises(last.finalbody):
            return True
        return always_raises(last.body + last.orelse) and all(always_raises(h.body) for h in last.handlers)
    if isinstance(last, ast.Match):
        return any(isinstance(c.pattern, ast.MatchAs) and c.pattern.pattern is None and c.guard is None for c in last.cases) and all(always_raises(c.body) for c in last.cases)
    return False


def swallows(handler: ast.ExceptHandler) -> bool:
    """the except clause lets the program go on after the exception: pass / continue / break / return / fall through"""
    return not always_raises(handler.body)


def fresh_graph(e: ast.AST, modname: str, fn: ast.AST, typed) -> tuple[bool, str]:
    """`e` denotes a graph that was constructed by this function with its own (default) store: a constructor call of a Graph
    class without positional arguments and without store=, or a local name every binding of which is such a call."""
    def ctor(c):
        if not isinstance(c, ast.Call):
            return False
        cal = typed.callees(modname, c)
        tf = typed.type_of(modname, c)
        is_graph = (any(x.endswith(".__init__") for x in cal) or not cal) and tf is not None and not tf.any and tf.items \
            and all(typed.is_subclass(i, "rdflib.graph.Graph") for i in tf.items)
        if not is_graph:
            return False
        return not c.args and not any(k.arg in (None, "store") for k in c.keywords)
    if ctor(e):
        return True, "constructed on the spot with its own store"
    if isinstance(e, ast.Name) and isinstance(fn, (ast.FunctionDef, ast.AsyncFunctionDef)):
        a = fn.args
        if e.id in {x.arg for x in a.posonlyargs + a.args + a.kwonlyargs}:
            return False, "%s is a parameter: the caller's graph" % e.id
        binds = []
        for n in own_nodes(fn, include_nested=True):
            if isinstance(n, (ast.Assign, ast.AnnAssign)) and n.value is not None:
                for t in (n.targets if isinstance(n, ast.Assign) else [n.target]):
                    if any(isinstance(x, ast.Name) and x.id == e.id for x in ast.walk(t)):
                        binds.append(n.value if isinstance(t, ast.Name) else None)
            elif isinstance(n, (ast.For, ast.comprehension)) and any(isinstance(x, ast.Name) and x.id == e.id for x in ast.walk(n.target)):
                binds.append(None)
            elif isinstance(n, ast.withitem) and n.optional_vars is not None and any(isinstance(x, ast.Name) and x.id == e.id for x in ast.walk(n.optional_vars)):
                binds.append(None)
            elif isinstance(n, ast.NamedExpr) and n.target.id == e.id:
                binds.append(n.value)
        if binds and all(b is not None and ctor(b) for b in binds):
            return True, "every binding of %s is a graph constructed here with its own store" % e.id
        return False, "%s is not (only) a graph constructed here" % e.id
    return False, "%s is not a graph constructed here" % norm(e)[:60]


def _const_flag(d) -> bool:
    return isinstance(d, ast.Constant) and (d.value is None or isinstance(d.value, bool))


def internal_params(repo, typed, mods, attr_flags) -> dict[tuple[str, str, str], str]:
    """Parameters with a constant default (None/False/True) that are NOT caller-supplied options, because the parser package itself
    binds them: some call site inside `mods` passes an argument for the parameter that is neither a constant nor itself an option
    (a still-optional parameter of the calling function, or a self.<attr> option flag).  Fixpoint over pass-through chains
    (`blankNode(uri=self.here(j))` -> `newBlankNode(ctx, uri)` -> `arg.newBlankNode(uri)`).
    Returns {(module, function qualname, parameter): reason}."""
    cand: dict[tuple[str, str], dict[str, object]] = {}
    by_name: dict[str, list[tuple[str, str]]] = {}
    fdefs: dict[tuple[str, str], ast.FunctionDef] = {}
    for name, mod in mods.items():
        for q, f in mod.functions():
            a = f.args
            pos = a.posonlyargs + a.args
            dfl = [None] * (len(pos) - len(a.defaults)) + list(a.defaults)
            ps = {p.arg for p, d in list(zip(pos, dfl)) + list(zip(a.kwonlyargs, a.kw_defaults)) if d is not None and _const_flag(d)}
            fdefs[(name, q)] = f
            by_name.setdefault(f.name, []).append((name, q))
            if ps:
                cand[(name, q)] = ps
    sites = []  # (callee key, param, arg expr, caller key, call)
    for name, mod in mods.items():
        for q, f in mod.functions():
            for c in own_nodes(f):
                if not isinstance(c, ast.Call):
                    continue
                cal = typed.callees(name, c)
                targets: list[tuple[tuple[str, str], bool]] = []  # (key, skip first parameter)
                for full in cal:
                    fulls = typed.overrides(full) if full.rpartition(".")[0] in typed.classes else [full]
                    for t in fulls:
                        for m2n in mods:
                            if t.startswith(m2n + ".") and (m2n, t[len(m2n) + 1:]) in fdefs:
                                key = (m2n, t[len(m2n) + 1:])
                                is_method = isinstance(mods[m2n].defs.get(key[1].rpartition(".")[0]), ast.ClassDef)
                                rtf = typed.type_of(name, c.func.value) if isinstance(c.func, ast.Attribute) else None
                                unbound = rtf is not None and rtf.text.startswith("def ") and not t.endswith(".__init__")
                                targets.append((key, is_method and not unbound))
                if not cal and isinstance(c.func, ast.Attribute):
                    for key in by_name.get(c.func.attr, []):
                        targets.append((key, isinstance(mods[key[0]].defs.get(key[1].rpartition(".")[0]), ast.ClassDef)))
                for key, skip in targets:
                    if key not in cand:
                        continue
                    fd = fdefs[key]
                    pos = [p.arg for p in fd.args.posonlyargs + fd.args.args][(1 if skip else 0):]
                    for i, av in enumerate(c.args):
                        if isinstance(av, ast.Starred):
                            break
                        if i < len(pos):
                            sites.append((key, pos[i], av, (name, q), c))
                    for k in c.keywords:
                        if k.arg is not None:
                            sites.append((key, k.arg, k.value, (name, q), c))
    out: dict[tuple[str, str, str], str] = {}
    changed = True
    while changed:
        changed = False
        for key, p, av, caller, c in sites:
            if p not in cand.get(key, ()) or (key[0], key[1], p) in out:
                continue
            if _const_flag(av):
                continue
            if isinstance(av, ast.Name) and av.id in cand.get(caller, ()) and (caller[0], caller[1], av.id) not in out:
                continue  # passes its own still-optional parameter through
            if isinstance(av, ast.Attribute) and norm(av) in attr_flags.get(caller[0], {}):
                continue
            out[(key[0], key[1], p)] = "%s binds it to %s" % (caller[1], norm(av)[:40])
            changed = True
    return out


# ---------------------------------------------------------------------------------------------------------------------
# C12.g / C12.h: the isomorphism test that "parsing the same document twice gives isomorphic graphs" is stated with
# (rdflib.compare) prunes its search by symmetries; a pruning map may only hold verified symmetries
# ---------------------------------------------------------------------------------------------------------------------
def local_values(fn: ast.AST, name: str) -> list[ast.AST]:
    """every value bound to the local `name` by an assignment of `fn` (for an unpacking assignment: the whole right-hand side)"""
    out = []
    for n in own_nodes(fn):
        if isinstance(n, (ast.Assign, ast.AnnAssign)) and n.value is not None:
            for t in (n.targets if isinstance(n, ast.Assign) else [n.target]):
                if any(isinstance(x, ast.Name) and x.id == name for x in ast.walk(t)) and not isinstance(t, (ast.Subscript, ast.Attribute)):
                    out.append(n.value)
        elif isinstance(n, ast.NamedExpr) and n.target.id == name:
            out.append(n.value)
    return out


def expand(e: ast.AST, fn: ast.AST, depth: int = 4) -> list[ast.AST]:
    """the nodes of `e` together with the nodes of every value assigned in `fn` to a local that `e` reads (def-use closure)"""
    out: list[ast.AST] = []
    seen_names: set[str] = set()
    work = [(e, 0)]
    while work:
        x, d = work.pop()
        for n in ast.walk(x):
            out.append(n)
            if isinstance(n, ast.Name) and isinstance(n.ctx, ast.Load) and n.id not in seen_names and d < depth:
                seen_names.add(n.id)
                for v in local_values(fn, n.id):
                    work.append((v, d + 1))
    return out


def _innermost_loop(mod, node, fn):
    for p in mod.parents(node):
        if isinstance(p, (ast.For, ast.AsyncFor, ast.While)):
            return p
        if p is fn:
            return None
    return None


def pruning_builders(repo, typed, modname: str):
    """[(consumer qualname, continue statement, builder full name, builder call)]: a loop of a function of `modname` skips an
    item (`continue`) under a test that reads - directly or through locals - a mapping produced by a function of the same module."""
    mod = repo.modules[modname]
    out = []
    for q, f in mod.functions():
        for c in own_nodes(f):
            if not isinstance(c, ast.Continue):
                continue
            loop = _innermost_loop(mod, c, f)
            if loop is None:
                continue
            tests = []
            for p in mod.parents(c):
                if p is loop:
                    break
                if isinstance(p, ast.If):
                    tests.append(p.test)
            for t in tests:
                for n in expand(t, f):
                    if not isinstance(n, ast.Call):
                        continue
                    tf = typed.type_of(modname, n)
                    if tf is None or not any(i in ("builtins.dict", "collections.defaultdict", "typing.Mapping", "typing.MutableMapping") for i in tf.items):
                        continue
                    for full in typed.callees(modname, n):
                        if full.startswith(modname + ".") and isinstance(mod.defs.get(full[len(modname) + 1:]), (ast.FunctionDef, ast.AsyncFunctionDef)):
                            if not any(o[2] == full and o[0] == q for o in out):
                                out.append((q, c, full, n))
    return out


def reaches_fn(repo, typed, modname: str, start: ast.AST, target_full: str, depth: int = 2) -> bool:
    """the call `start` resolves to `target_full` or to a function of `modname` that calls it (<= depth levels down)"""
    mod = repo.modules[modname]
    work = [(c, 0) for c in typed.callees(modname, start)]
    seen = set()
    while work:
        full, d = work.pop()
        if full == target_full:
            return True
        if full in seen or d >= depth or not full.startswith(modname + "."):
            continue
        seen.add(full)
        fd = mod.defs.get(full[len(modname) + 1:])
        if isinstance(fd, (ast.FunctionDef, ast.AsyncFunctionDef)):
            for n in own_nodes(fd, include_nested=True):
                if isinstance(n, ast.Call):
                    work.extend((c, d + 1) for c in typed.callees(modname, n))
    return False


def equality_guards(repo, typed, modname: str, fn: ast.AST, target_full: str) -> dict[int, tuple[str, ast.AST]]:
    """{id(If): ('ne'|'eq', If)} for the `if` statements of `fn` that compare (== / !=, possibly under `not`) two DIFFERENT values each
    of which is computed - directly or through locals - by a call that reaches `target_full`"""
    out = {}
    for n in own_nodes(fn):
        if not isinstance(n, ast.If):
            continue
        t, flip = n.test, False
        for _ in range(6):
            if isinstance(t, ast.UnaryOp) and isinstance(t.op, ast.Not):
                t, flip = t.operand, not flip
            elif isinstance(t, ast.Name) and len(local_values(fn, t.id)) == 1:
                t = local_values(fn, t.id)[0]  # `same = a == b` ... `if not same:`
            else:
                break
        if not (isinstance(t, ast.Compare) and len(t.ops) == 1 and isinstance(t.ops[0], (ast.Eq, ast.NotEq))):
            continue
        sides = [t.left, t.comparators[0]]

        def canonical(side):
            return any(isinstance(x, ast.Call) and reaches_fn(repo, typed, modname, x, target_full) for x in expand(side, fn))

        def text(side):
            vs = local_values(fn, side.id) if isinstance(side, ast.Name) else []
            return norm(vs[0]) if len(vs) == 1 and not isinstance(vs[0], ast.Name) else norm(side)
        if not all(canonical(s) for s in sides) or text(sides[0]) == text(sides[1]):
            continue
        ne = isinstance(t.ops[0], ast.NotEq) != flip
        out[id(n)] = ("ne" if ne else "eq", n)
    return out


def reached_without_equality(g, guards: dict[int, str], target: int) -> bool:
    """some path entry -> target leaves every guard test on its 'the two values differ' side (guards: CFG test node -> 'ne'|'eq')"""
    seen: set[int] = set()
    stack = [g.entry]
    while stack:
        n = stack.pop()
        if n in seen:
            continue
        seen.add(n)
        for x in g.succ[n]:
            lab = g.edge_label.get((n, x), "")
            if n in guards:
                differ_side = (lab == "true") if guards[n] == "ne" else (lab != "true")
                if not differ_side:
                    continue
            stack.append(x)
    return target in seen


def mapping_stores(fn: ast.AST) -> list[tuple[ast.AST, str]]:
    """statements of `fn` that write an entry of a mapping which is a parameter of `fn` or which `fn` returns:
    M[k] = v, M[k] op= v, M[k].add/update(...), M.update/setdefault(...)"""
    a = fn.args
    names = {x.arg for x in a.posonlyargs + a.args + a.kwonlyargs}
    for n in own_nodes(fn):
        if isinstance(n, ast.Return) and n.value is not None:
            names |= {x.id for x in ast.walk(n.value) if isinstance(x, ast.Name)}
    if a.posonlyargs + a.args:
        names.discard((a.posonlyargs + a.args)[0].arg if (a.posonlyargs + a.args)[0].arg in ("self", "cls") else None)
    out = []
    for n in own_nodes(fn):
        if isinstance(n, (ast.Assign, ast.AugAssign, ast.AnnAssign)):
            for t in (n.targets if isinstance(n, ast.Assign) else [n.target]):
                if isinstance(t, ast.Subscript) and isinstance(t.value, ast.Name) and t.value.id in names:
                    out.append((n, t.value.id))
        elif isinstance(n, ast.Expr) and isinstance(n.value, ast.Call) and isinstance(n.value.func, ast.Attribute):
            r, meth = n.value.func.value, n.value.func.attr
            if isinstance(r, ast.Subscript) and isinstance(r.value, ast.Name) and r.value.id in names and meth in ("add", "update", "append", "extend", "__ior__"):
                out.append((n, r.value.id))
            elif isinstance(r, ast.Name) and r.id in names and meth in ("update", "setdefault", "__setitem__"):
                out.append((n, r.id))
    return out
